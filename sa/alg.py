"""Exact algebra used by LAYOUT / DEG / COEF / LIN: Laurent polynomials with Fraction coefficients over opaque atoms.

An atom is a hashable tuple: ('sym', name) or ('app', fname, arg1, ...), args being Polys / hashables.
A monomial is a sorted tuple of (atom, exponent:Fraction).  A Poly is a mapping monomial -> Fraction.
Equal functions in the fragment {+,-,*,/ by monomials, integer powers} have equal normal forms.
"""
from __future__ import annotations

from fractions import Fraction
from typing import Dict, Iterable, Tuple, Any


def _key(x):
    return repr(x)


class Poly:
    __slots__ = ("terms", "_h")

    def __init__(self, terms: Dict[tuple, Fraction] = None):
        t = {}
        if terms:
            for m, c in terms.items():
                if c != 0:
                    t[m] = c
        self.terms = t
        self._h = None

    # ------------------------------------------------------------ constructors
    @staticmethod
    def const(c) -> "Poly":
        if isinstance(c, bool):
            c = int(c)
        if isinstance(c, float):
            c = Fraction(repr(c))
        return Poly({(): Fraction(c)})

    @staticmethod
    def atom(a, exp=1) -> "Poly":
        return Poly({((a, Fraction(exp)),): Fraction(1)})

    @staticmethod
    def sym(name: str) -> "Poly":
        return Poly.atom(("sym", name))

    @staticmethod
    def app(f: str, *args) -> "Poly":
        return Poly.atom(("app", f) + tuple(args))

    @staticmethod
    def top(reason: str) -> "Poly":
        return Poly.atom(("app", "TOP", reason))

    # ------------------------------------------------------------ basic protocol
    def __hash__(self):
        if self._h is None:
            self._h = hash(tuple(sorted(((m, c) for m, c in self.terms.items()), key=_key)))
        return self._h

    def __eq__(self, o):
        if not isinstance(o, Poly):
            try:
                o = Poly.const(o)
            except Exception:
                return False
        return self.terms == o.terms

    def __repr__(self):
        return "Poly(%s)" % self.pretty()

    def pretty(self) -> str:
        if not self.terms:
            return "0"
        out = []
        for m, c in sorted(self.terms.items(), key=_key):
            fs = []
            for a, e in m:
                s = atom_str(a)
                if e != 1:
                    s += "^" + (str(e.numerator) if e.denominator == 1 else str(e))
                fs.append(s)
            if c == 1 and fs:
                out.append("*".join(fs))
            elif c == -1 and fs:
                out.append("-" + "*".join(fs))
            else:
                cs = str(c.numerator) if c.denominator == 1 else f"({c})"
                out.append("*".join([cs] + fs))
        return " + ".join(out).replace("+ -", "- ")

    # ------------------------------------------------------------ arithmetic
    @staticmethod
    def lift(x) -> "Poly":
        if isinstance(x, Poly):
            return x
        return Poly.const(x)

    def __add__(self, o):
        o = Poly.lift(o)
        t = dict(self.terms)
        for m, c in o.terms.items():
            t[m] = t.get(m, 0) + c
        return Poly(t)

    __radd__ = __add__

    def __neg__(self):
        return Poly({m: -c for m, c in self.terms.items()})

    def __sub__(self, o):
        return self + (-Poly.lift(o))

    def __rsub__(self, o):
        return Poly.lift(o) - self

    @staticmethod
    def _mul_mono(m1, m2):
        d = {}
        for a, e in m1:
            d[a] = d.get(a, 0) + e
        for a, e in m2:
            d[a] = d.get(a, 0) + e
        return tuple(sorted(((a, e) for a, e in d.items() if e != 0), key=_key))

    def __mul__(self, o):
        o = Poly.lift(o)
        t = {}
        for m1, c1 in self.terms.items():
            for m2, c2 in o.terms.items():
                m = Poly._mul_mono(m1, m2)
                t[m] = t.get(m, 0) + c1 * c2
        return Poly(t)

    __rmul__ = __mul__

    def is_monomial(self) -> bool:
        return len(self.terms) == 1

    def inverse(self) -> "Poly":
        if not self.terms:
            return Poly.top("division by zero")
        if self.is_monomial():
            (m, c), = self.terms.items()
            return Poly({tuple((a, -e) for a, e in m): 1 / c})
        # factor out content so that 2*(a+b) and (a+b) share the atom
        return Poly.atom(("app", "inv", self))

    def __truediv__(self, o):
        return self * Poly.lift(o).inverse()

    def __rtruediv__(self, o):
        return Poly.lift(o) * self.inverse()

    def __pow__(self, n):
        if isinstance(n, Poly):
            if n.is_const():
                n = n.as_const()
            else:
                return Poly.app("pow", self, n)
        n = Fraction(n)
        if self.is_monomial():
            (m, c), = self.terms.items()
            if n.denominator == 1:
                cc = c ** int(n)
            else:
                # rational power of coefficient: keep exact only for perfect cases
                if c == 1:
                    cc = Fraction(1)
                else:
                    return Poly.app("pow", self, Poly.const(n))
            return Poly({tuple((a, e * n) for a, e in m): cc})
        if n.denominator == 1 and n >= 0:
            r = Poly.const(1)
            for _ in range(int(n)):
                r = r * self
            return r
        if n.denominator == 1 and n < 0:
            return (self ** (-n)).inverse()
        return Poly.app("pow", self, Poly.const(n))

    # ------------------------------------------------------------ queries
    def is_const(self) -> bool:
        return all(m == () for m in self.terms)

    def as_const(self) -> Fraction:
        if not self.is_const():
            raise ValueError("not constant: %s" % self.pretty())
        return self.terms.get((), Fraction(0))

    def is_zero(self):
        return not self.terms

    def atoms(self) -> set:
        out = set()
        for m in self.terms:
            for a, _ in m:
                out.add(a)
        return out

    def all_atoms_deep(self) -> set:
        out = set()

        def rec_atom(a):
            out.add(a)
            if a[0] == "app":
                for x in a[2:]:
                    rec_any(x)

        def rec_any(x):
            if isinstance(x, Poly):
                for a in x.atoms():
                    rec_atom(a)
            elif isinstance(x, tuple):
                if len(x) >= 2 and x[0] in ("sym", "app") and isinstance(x[1], str):
                    rec_atom(x)
                else:
                    for y in x:
                        rec_any(y)
        rec_any(self)
        return out

    def has_top(self) -> bool:
        return any(a[0] == "app" and a[1] == "TOP" for a in self.all_atoms_deep())

    def top_reasons(self):
        return sorted({str(a[2]) for a in self.all_atoms_deep() if a[0] == "app" and a[1] == "TOP"})

    def monomials(self):
        return list(self.terms.items())

    def single_term(self):
        """(coefficient, {atom: exponent}) of a one-term poly"""
        if not self.is_monomial():
            raise ValueError("not a single term: %s" % self.pretty())
        (m, c), = self.terms.items()
        return c, dict(m)

    def exponent_of(self, atom) -> Fraction:
        c, d = self.single_term()
        return d.get(atom, Fraction(0))

    def coeff_of(self, var_atom) -> "Poly":
        """coefficient polynomial of var^1 (poly must be polynomial in var)"""
        t = {}
        for m, c in self.terms.items():
            d = dict(m)
            if d.get(var_atom, 0) == 1:
                del d[var_atom]
                mm = tuple(sorted(d.items(), key=_key))
                t[mm] = t.get(mm, 0) + c
        return Poly(t)

    def degree_in(self, var_atom):
        deg = Fraction(0)
        for m in self.terms:
            d = dict(m)
            deg = max(deg, d.get(var_atom, Fraction(0)))
        return deg

    def without(self, var_atom) -> "Poly":
        return Poly({m: c for m, c in self.terms.items() if var_atom not in dict(m)})

    def subs(self, mapping: Dict[Any, "Poly"]) -> "Poly":
        """substitute atoms (top level and inside app arguments)"""
        res = Poly()
        for m, c in self.terms.items():
            term = Poly.const(c)
            for a, e in m:
                term = term * (subs_atom(a, mapping) ** e)
            res = res + term
        return res


def subs_atom(a, mapping) -> Poly:
    if a in mapping:
        return Poly.lift(mapping[a])
    if a[0] == "app":
        new_args = []
        changed = False
        for x in a[2:]:
            if isinstance(x, Poly):
                y = x.subs(mapping)
                changed |= (y != x)
                new_args.append(y)
            else:
                new_args.append(x)
        if changed:
            return Poly.atom((a[0], a[1]) + tuple(new_args))
    return Poly.atom(a)


def atom_str(a) -> str:
    if a[0] == "sym":
        return a[1]
    if a[0] == "app":
        return "%s(%s)" % (a[1], ", ".join(x.pretty() if isinstance(x, Poly) else str(x) for x in a[2:]))
    return str(a)


def sym(name):
    return Poly.sym(name)


def const(c):
    return Poly.const(c)


def app(f, *args):
    return Poly.app(f, *args)


ZERO = Poly.const(0)
ONE = Poly.const(1)
