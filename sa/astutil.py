"""small AST helpers shared by the syntax-directed rules: alias expansion and three-valued pattern verdicts"""
from __future__ import annotations

import ast
import copy
from typing import Dict, Optional

from .model import src


class Canon:
    """expands local single-assignment names into their defining expressions, so that
       `atoms = self.m.atoms; atoms.rotate(..)`  and  `self.m.atoms.rotate(..)`  have the same canonical text"""

    def __init__(self, defs: Dict[str, ast.expr], protect=()):
        self.defs = dict(defs)
        self.protect = set(protect)

    @staticmethod
    def single_defs(stmts, exclude=()):
        """names assigned exactly once (plain `x = e`) in the statement list (not descending into nested functions)"""
        count: Dict[str, int] = {}
        val: Dict[str, ast.expr] = {}
        for st in stmts:
            for n in ast.walk(st):
                if isinstance(n, (ast.FunctionDef, ast.AsyncFunctionDef, ast.Lambda)):
                    continue
                tg = []
                if isinstance(n, ast.Assign):
                    tg = n.targets
                elif isinstance(n, (ast.AugAssign, ast.AnnAssign)):
                    tg = [n.target]
                elif isinstance(n, (ast.For, ast.comprehension)):
                    tg = [n.target]
                elif isinstance(n, ast.withitem) and n.optional_vars is not None:
                    tg = [n.optional_vars]
                elif isinstance(n, ast.NamedExpr):
                    tg = [n.target]
                for t in tg:
                    for m in ast.walk(t):
                        if isinstance(m, ast.Name) and isinstance(m.ctx, ast.Store):
                            count[m.id] = count.get(m.id, 0) + 1
                            if isinstance(n, ast.Assign) and len(n.targets) == 1 and t is m:
                                val[m.id] = n.value
                            else:
                                val.pop(m.id, None)
                                count[m.id] = count.get(m.id, 0) + 1
        # a definition that reads the name it defines (`x = f(x)`: re-binding of a parameter / earlier value) is not an alias
        return {k: v for k, v in val.items() if count.get(k) == 1 and k not in exclude and
                not any(isinstance(n_, ast.Name) and n_.id == k for n_ in ast.walk(v))}

    def expand(self, e: ast.AST, depth: int = 0) -> ast.AST:
        if depth > 8:
            return e
        outer = self

        class Tr(ast.NodeTransformer):
            def visit_Name(self, node):
                if isinstance(node.ctx, ast.Load) and node.id in outer.defs and node.id not in outer.protect:
                    return outer.expand(copy.deepcopy(outer.defs[node.id]), depth + 1)
                return node
        return Tr().visit(copy.deepcopy(e))

    def text(self, e: Optional[ast.AST]) -> str:
        if e is None:
            return ""
        return ast.unparse(self.expand(e))


def const_slice(e) -> Optional[tuple]:
    """(lower, upper, step) of a subscript with a constant slice (None where omitted), else None"""
    if not (isinstance(e, ast.Subscript) and isinstance(e.slice, ast.Slice)):
        return None
    out = []
    for p in (e.slice.lower, e.slice.upper, e.slice.step):
        if p is None:
            out.append(None)
        elif isinstance(p, ast.Constant) and isinstance(p.value, int):
            out.append(p.value)
        elif isinstance(p, ast.UnaryOp) and isinstance(p.op, ast.USub) and isinstance(p.operand, ast.Constant) and isinstance(p.operand.value, int):
            out.append(-p.operand.value)
        else:
            return None
    return tuple(out)


def strip_wrappers(e, names=("asarray", "array", "copy", "ascontiguousarray", "float64", "astype", "squeeze", "ravel", "flatten")):
    """peel value-preserving wrappers: np.asarray(x), np.array(x), x.copy(), x.astype(float) ..."""
    for _ in range(6):
        if isinstance(e, ast.Call) and isinstance(e.func, ast.Attribute) and e.func.attr in names:
            if isinstance(e.func.value, ast.Name) and e.func.value.id in ("np", "numpy") and e.args:
                e = e.args[0]
            elif not (isinstance(e.func.value, ast.Name) and e.func.value.id in ("np", "numpy")):
                e = e.func.value
            else:
                break
        else:
            break
    return e


def hemisphere_predicates(repo, modname="molgri.space.utils"):
    """functions of the utilities module that implement the canonical-hemisphere test ("first non-zero component is positive"):
    {function name: +1 (upper) | -1 (lower)} — recognised by structure, not by name"""
    out = {}
    m = repo.modules.get(modname)
    if m is None:
        return out
    for name, fi in m.functions.items():
        a = fi.node.args
        if len(a.posonlyargs + a.args) != 1:
            continue
        q = (a.posonlyargs + a.args)[0].arg
        loops = [n for n in ast.walk(fi.node) if isinstance(n, ast.For)]
        if len(loops) != 1:
            continue
        pol = None
        # somewhere in the loop the prefix before the current position is tested for being zero ...
        zero_prefix = any(isinstance(c, ast.Call) and src(c.func).split(".")[-1] in ("allclose", "isclose", "all", "any", "count_nonzero")
                          for c in ast.walk(loops[0]))
        # ... and the sign of the current component decides: the comparison whose branch returns True gives the polarity
        for iff in ast.walk(loops[0]):
            if not isinstance(iff, ast.If):
                continue
            cmps = [c for c in ast.walk(iff.test) if isinstance(c, ast.Compare) and len(c.ops) == 1 and isinstance(c.ops[0], (ast.Gt, ast.Lt)) and
                    isinstance(c.comparators[0], ast.Constant) and c.comparators[0].value == 0]
            rets = [r for b in iff.body for r in ast.walk(b) if isinstance(r, ast.Return) and isinstance(r.value, ast.Constant) and r.value.value is True]
            if len(cmps) == 1 and zero_prefix and rets:
                pol = 1 if isinstance(cmps[0].ops[0], ast.Gt) else -1
        last = fi.node.body[-1]
        if pol is not None and isinstance(last, ast.Return) and isinstance(last.value, ast.Constant) and last.value.value is False:
            out[name] = pol
    return out


def normaliser_functions(repo, modname="molgri.space.utils"):
    """names of the utility functions that scale vectors to a given length (x / |x| * length) — recognised by structure"""
    out = set()
    m = repo.modules.get(modname)
    if m is None:
        return out
    for name, fi in m.functions.items():
        a = fi.node.args
        ps = [x.arg for x in a.posonlyargs + a.args]
        if not ps:
            continue
        defs = Canon.single_defs(fi.node.body)
        for r in ast.walk(fi.node):
            if not (isinstance(r, ast.Return) and r.value is not None):
                continue
            for d in ast.walk(r.value):
                num = den = None
                if isinstance(d, ast.BinOp) and isinstance(d.op, ast.Div):
                    num, den = d.left, d.right
                elif isinstance(d, ast.Call) and src(d.func).split(".")[-1] in ("divide", "true_divide") and len(d.args) == 2:
                    num, den = d.args
                if num is None or not (isinstance(num, ast.Name) and num.id == ps[0]):
                    continue
                dtxt = Canon(defs).text(den)
                if "norm" in dtxt and ps[0] in dtxt:
                    out.add(name)
    return out


def local_defs_with_unpack(stmts, exclude=()):
    """single_defs plus tuple-unpacking definitions:  a, b = E   gives  a := E[0], b := E[1]"""
    defs = Canon.single_defs(stmts, exclude=exclude)
    counts = {}
    for st in stmts:
        for n in ast.walk(st):
            if isinstance(n, ast.Name) and isinstance(n.ctx, ast.Store):
                counts[n.id] = counts.get(n.id, 0) + 1
    for st in stmts:
        for n in ast.walk(st):
            if isinstance(n, ast.Assign) and len(n.targets) == 1 and isinstance(n.targets[0], (ast.Tuple, ast.List)) and \
                    not isinstance(n.value, (ast.Tuple, ast.List)):
                for k, t in enumerate(n.targets[0].elts):
                    if isinstance(t, ast.Name) and counts.get(t.id) == 1 and t.id not in exclude:
                        defs[t.id] = ast.Subscript(value=n.value, slice=ast.Constant(value=k), ctx=ast.Load())
    return defs


def inline_helpers(repo, module, expr, depth=0, skip=(), local_funcs=None):
    """replace calls of small repository helpers (body = simple assignments + one return) by their returned expression with the
    parameters substituted by the arguments and local names expanded — so that a rule sees through `extract function` refactorings"""
    if depth > 3:
        return expr

    class Tr(ast.NodeTransformer):
        def visit_Call(self, node):
            self.generic_visit(node)
            if not isinstance(node.func, ast.Name) or node.func.id in skip:
                return node
            if local_funcs and node.func.id in local_funcs:
                # a function defined inside the analysed function (closure over its locals: names are expanded by the caller's Canon)
                class _R:
                    pass
                rr = _R()
                rr.node, rr.module = local_funcs[node.func.id], module
                r = ("func", rr)
            else:
                try:
                    r = repo.resolve_name(module, node.func.id)
                except Exception:
                    r = None
                if not (r and r[0] == "func" and r[1].cls is None):
                    return node
            fn = r[1].node
            body = [s_ for s_ in fn.body if not (isinstance(s_, ast.Expr) and isinstance(s_.value, ast.Constant))]
            body = [s_ for s_ in body if not isinstance(s_, (ast.Assert, ast.Pass))]
            if not body or not isinstance(body[-1], ast.Return) or body[-1].value is None or len(body) > 6:
                return node
            if not all(isinstance(s_, ast.Assign) for s_ in body[:-1]):
                return node
            if any(isinstance(a, ast.Starred) for a in node.args) or fn.args.vararg or fn.args.kwarg:
                return node
            params = [a.arg for a in fn.args.posonlyargs + fn.args.args]
            binding = {}
            for k, a in enumerate(node.args):
                if k < len(params):
                    binding[params[k]] = a
            for kw in node.keywords:
                if kw.arg:
                    binding[kw.arg] = kw.value
            pos = fn.args.posonlyargs + fn.args.args
            for a, d in zip(pos[len(pos) - len(fn.args.defaults):], fn.args.defaults):
                binding.setdefault(a.arg, d)
            if any(p_ not in binding for p_ in params):
                return node
            defs = local_defs_with_unpack(body[:-1])
            defs.update(binding)
            out = Canon(defs).expand(body[-1].value)
            return inline_helpers(repo, r[1].module, out, depth + 1, skip, local_funcs)
    import copy as _copy
    return Tr().visit(_copy.deepcopy(expr))


def inline_self_methods(ci, expr, depth=0):
    """expression-level twin of inline_helpers for small methods of the same class:  self._m(a) / Cls._m(a)  ->  returned expression of
    _m with parameters substituted (body = simple assignments + one return)"""
    if depth > 3:
        return expr

    class Tr(ast.NodeTransformer):
        def visit_Call(self, node):
            self.generic_visit(node)
            f_ = node.func
            if not (isinstance(f_, ast.Attribute) and isinstance(f_.value, ast.Name) and f_.value.id in ("self", "cls", ci.name)):
                return node
            m = ci.find_method(f_.attr)
            if m is None:
                return node
            fn = m.node
            body = [s_ for s_ in fn.body if not (isinstance(s_, ast.Expr) and isinstance(s_.value, ast.Constant))]
            body = [s_ for s_ in body if not isinstance(s_, (ast.Assert, ast.Pass))]
            if not body or not isinstance(body[-1], ast.Return) or body[-1].value is None or len(body) > 6:
                return node
            if not all(isinstance(s_, ast.Assign) for s_ in body[:-1]):
                return node
            if any(isinstance(a, ast.Starred) for a in node.args) or fn.args.vararg or fn.args.kwarg:
                return node
            static = any(isinstance(d_, ast.Name) and d_.id == "staticmethod" for d_ in fn.decorator_list)
            params = [a.arg for a in fn.args.posonlyargs + fn.args.args]
            if not static:
                params = params[1:]
            binding = {}
            for k, a in enumerate(node.args):
                if k < len(params):
                    binding[params[k]] = a
            for kw in node.keywords:
                if kw.arg:
                    binding[kw.arg] = kw.value
            pos = (fn.args.posonlyargs + fn.args.args)
            for a, d in zip(pos[len(pos) - len(fn.args.defaults):], fn.args.defaults):
                binding.setdefault(a.arg, d)
            if any(p_ not in binding for p_ in params):
                return node
            defs = local_defs_with_unpack(body[:-1])
            defs.update(binding)
            out = Canon(defs).expand(body[-1].value)
            return inline_self_methods(ci, out, depth + 1)
    import copy as _copy
    return Tr().visit(_copy.deepcopy(expr))


def splice_self_calls(ci, fnode, depth=0, module=None, accept=None):
    """statement-level inlining of private helper methods of the same class, so that path / ownership rules over a method see
    through `split a long method`:
        self._step(a, b)          (expression statement; helper returns nothing)      ->  p1 = a; p2 = b; <body>
        x = self._make(a)         (helper: simple body ending in one `return E`)      ->  p1 = a; <body without return>; x = E
    Only helpers whose name starts with an underscore are spliced (public methods are API of their own)."""
    import copy as _copy
    if depth > 3:
        return fnode
    out = _copy.deepcopy(fnode) if depth == 0 else fnode

    module = module if module is not None else getattr(ci, "module", None)
    local_defs_ = {n_.name: n_ for n_ in fnode.body if isinstance(n_, ast.FunctionDef)} if depth == 0 else {}

    class _Fn:
        """module-level / nested function seen through the interface the splicer uses for methods"""
        def __init__(self, node):
            self.node, self.plain = node, True

    def helper_of(call):
        if not isinstance(call, ast.Call):
            return None
        m = None
        if ci is not None and isinstance(call.func, ast.Attribute) and isinstance(call.func.value, ast.Name) and \
                call.func.value.id == "self" and call.func.attr.startswith("_") and not call.func.attr.startswith("__"):
            m = ci.find_method(call.func.attr)
        elif isinstance(call.func, ast.Name) and call.func.id in local_defs_:
            m = _Fn(local_defs_[call.func.id])
        elif isinstance(call.func, ast.Name) and call.func.id.startswith("_") and module is not None and \
                getattr(module, "functions", {}).get(call.func.id) is not None and module.functions[call.func.id].cls is None:
            m = _Fn(module.functions[call.func.id].node)
        if m is None or m.node is fnode or m.node.args.vararg or m.node.args.kwarg or any(isinstance(a, ast.Starred) for a in call.args):
            return None
        if any(isinstance(y, (ast.Yield, ast.YieldFrom)) for y in ast.walk(m.node)):
            return None
        if accept is not None and not accept(m.node):
            return None
        return m

    def gen_helper_of(call):
        """private generator method with exactly one `yield E` statement (and no value-returning return): a `for x in self._g(): BODY`
        over it is the generator's body with the yield replaced by `x = E; BODY`"""
        if not (isinstance(call, ast.Call) and ci is not None and isinstance(call.func, ast.Attribute) and isinstance(call.func.value, ast.Name) and
                call.func.value.id == "self" and call.func.attr.startswith("_") and not call.func.attr.startswith("__")):
            return None
        m = ci.find_method(call.func.attr)
        if m is None or m.node is fnode or m.node.args.vararg or m.node.args.kwarg or any(isinstance(a, ast.Starred) for a in call.args):
            return None
        ys = [y for y in ast.walk(m.node) if isinstance(y, (ast.Yield, ast.YieldFrom))]
        if len(ys) != 1 or not isinstance(ys[0], ast.Yield) or ys[0].value is None:
            return None
        if any(isinstance(r, ast.Return) and r.value is not None for r in ast.walk(m.node)):
            return None
        if not any(isinstance(e_, ast.Expr) and e_.value is ys[0] for e_ in ast.walk(m.node)):
            return None
        if accept is not None and not accept(m.node):
            return None
        return m

    def fuse(m, loop):
        body = body_of(m)
        target, consumer = loop.target, loop.body

        def rec(stmts):
            out_ = []
            for st in stmts:
                if isinstance(st, ast.Expr) and isinstance(st.value, ast.Yield):
                    out_.append(ast.Assign(targets=[_copy.deepcopy(target)], value=st.value.value))
                    out_.extend(consumer)
                    continue
                for f_ in ("body", "orelse", "finalbody"):
                    b_ = getattr(st, f_, None)
                    if isinstance(b_, list) and b_ and isinstance(b_[0], ast.stmt):
                        setattr(st, f_, rec(b_))
                out_.append(st)
            return out_
        return rec(body)

    def bind(m, call):
        plain = getattr(m, "plain", False) or any(isinstance(d_, ast.Name) and d_.id == "staticmethod" for d_ in m.node.decorator_list)
        params = [a.arg for a in m.node.args.posonlyargs + m.node.args.args][0 if plain else 1:]
        b = {}
        for k, a in enumerate(call.args):
            if k < len(params):
                b[params[k]] = a
        for kw in call.keywords:
            if kw.arg:
                b[kw.arg] = kw.value
        pos = (m.node.args.posonlyargs + m.node.args.args)
        for a, d in zip(pos[len(pos) - len(m.node.args.defaults):], m.node.args.defaults):
            if a.arg in params:
                b.setdefault(a.arg, d)
        if any(p_ not in b for p_ in params):
            return None
        return [ast.Assign(targets=[ast.Name(id=p_, ctx=ast.Store())], value=_copy.deepcopy(v_)) for p_, v_ in b.items()
                if not (isinstance(v_, ast.Name) and v_.id == p_)]

    def body_of(m):
        body = [b for b in _copy.deepcopy(m.node.body)
                if not (isinstance(b, ast.Expr) and isinstance(b.value, ast.Constant) and isinstance(b.value.value, str))]
        return body

    def splice(stmts):
        res = []
        for s in stmts:
            done = False
            if isinstance(s, ast.Expr):
                m = helper_of(s.value)
                if m is not None and not any(isinstance(r, ast.Return) and r.value is not None for r in ast.walk(m.node)):
                    pre = bind(m, s.value)
                    if pre is not None:
                        body = [b for b in body_of(m) if not (isinstance(b, ast.Return) and b.value is None)]
                        tmp = ast.FunctionDef(name="_", args=m.node.args, body=body or [ast.Pass()], decorator_list=[], returns=None, type_comment=None)
                        tmp = splice_self_calls(ci, tmp, depth + 1, module, accept)
                        res.extend(splice(pre) + tmp.body)
                        done = True
            elif isinstance(s, ast.Assign) and len(s.targets) == 1 and isinstance(s.targets[0], ast.Name):
                m = helper_of(s.value)
                if m is not None:
                    body = body_of(m)
                    rets = [r for b in body for r in ast.walk(b) if isinstance(r, ast.Return)]
                    if body and isinstance(body[-1], ast.Return) and body[-1].value is not None and len(rets) == 1:
                        pre = bind(m, s.value)
                        if pre is not None:
                            tmp = ast.FunctionDef(name="_", args=m.node.args, body=body[:-1] or [ast.Pass()], decorator_list=[], returns=None, type_comment=None)
                            tmp = splice_self_calls(ci, tmp, depth + 1, module, accept)
                            res.extend(splice(pre) + tmp.body + [ast.Assign(targets=[s.targets[0]], value=body[-1].value)])
                            done = True
            elif isinstance(s, ast.Return) and s.value is not None:
                m = helper_of(s.value)
                if m is not None:
                    body = body_of(m)
                    rets = [r for b in body for r in ast.walk(b) if isinstance(r, ast.Return)]
                    if body and isinstance(body[-1], ast.Return) and body[-1].value is not None and len(rets) == 1:
                        pre = bind(m, s.value)
                        if pre is not None:
                            tmp = ast.FunctionDef(name="_", args=m.node.args, body=body[:-1] or [ast.Pass()], decorator_list=[], returns=None, type_comment=None)
                            tmp = splice_self_calls(ci, tmp, depth + 1, module, accept)
                            res.extend(splice(pre) + tmp.body + [ast.Return(value=body[-1].value)])
                            done = True
            elif isinstance(s, ast.For) and not s.orelse and isinstance(s.target, (ast.Name, ast.Tuple)) and \
                    not any(isinstance(x_, (ast.Break, ast.Continue, ast.Yield, ast.YieldFrom)) and False for x_ in ()):
                m = gen_helper_of(s.iter)
                # a break / continue of the consumer would act on the generator's own loop after fusion: not fused then
                own_jump = False
                stack_ = list(s.body)
                while stack_:
                    x_ = stack_.pop()
                    if isinstance(x_, (ast.Break, ast.Continue)):
                        own_jump = True
                    if isinstance(x_, (ast.For, ast.While, ast.FunctionDef, ast.Lambda)):
                        continue
                    stack_.extend(ast.iter_child_nodes(x_))
                if m is not None and not own_jump:
                    pre = bind(m, s.iter)
                    if pre is not None:
                        tmp = ast.FunctionDef(name="_", args=m.node.args, body=fuse(m, s) or [ast.Pass()], decorator_list=[], returns=None, type_comment=None)
                        tmp = splice_self_calls(ci, tmp, depth + 1, module, accept)
                        res.extend(splice(pre) + tmp.body)
                        done = True
            if done:
                continue
            for f in ("body", "orelse", "finalbody"):
                b = getattr(s, f, None)
                if isinstance(b, list) and b and isinstance(b[0], ast.stmt):
                    setattr(s, f, splice(b))
            res.append(s)
        return res
    out.body = splice(out.body)
    ast.fix_missing_locations(out)
    return out


def helper_closure(ci, root_names):
    """private methods of the class all of whose self-call sites lie in `root_names` or in such helpers (fixpoint)"""
    callers = {}
    for c in ci.mro():
        for name, fi in c.methods.items():
            for n in ast.walk(fi.node):
                if isinstance(n, ast.Call) and isinstance(n.func, ast.Attribute) and isinstance(n.func.value, ast.Name) and n.func.value.id == "self":
                    callers.setdefault(n.func.attr, set()).add(name)
    closed = set(root_names)
    changed = True
    while changed:
        changed = False
        for m, cs in callers.items():
            if m not in closed and m.startswith("_") and not m.startswith("__") and cs and cs <= closed:
                closed.add(m)
                changed = True
    return closed
