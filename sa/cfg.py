"""E2 — statement-level CFG, dominators, generic forward dataflow (pure stdlib)."""
from __future__ import annotations

import ast
from typing import Dict, List, Set, Optional, Callable, Any


class Node:
    __slots__ = ("id", "stmt", "kind", "succ", "pred", "label")

    def __init__(self, id, stmt, kind):
        self.id = id
        self.stmt = stmt          # ast node (statement, or test expr holder)
        self.kind = kind          # 'entry' | 'exit' | 'raise' | 'stmt' | 'test' | 'loop' | 'except' | 'with' | 'join'
        self.succ: List["Node"] = []
        self.pred: List["Node"] = []
        self.label = ""

    def __repr__(self):
        s = ""
        if self.stmt is not None:
            try:
                s = ast.unparse(self.stmt).split("\n")[0][:60]
            except Exception:
                s = type(self.stmt).__name__
        return f"<{self.id}:{self.kind} {s}>"


class CFG:
    def __init__(self, func: ast.AST):
        self.func = func
        self.nodes: List[Node] = []
        self.entry = self._new(None, "entry")
        self.exit = self._new(None, "exit")        # normal return
        self.raise_exit = self._new(None, "raise")  # exceptional exit
        self.stmt_node: Dict[int, Node] = {}
        body = func.body if hasattr(func, "body") else [func]
        ends = self._seq(body, [self.entry], loop=None, handlers=[])
        for e in ends:
            self._edge(e, self.exit)
        self._dom = None
        self._pdom = None

    # ------------------------------------------------------------------ construction
    def _new(self, stmt, kind) -> Node:
        n = Node(len(self.nodes), stmt, kind)
        self.nodes.append(n)
        if stmt is not None and kind in ("stmt", "test", "loop", "with"):
            self.stmt_node[id(stmt)] = n
        return n

    def _edge(self, a: Node, b: Node):
        if b not in a.succ:
            a.succ.append(b)
            b.pred.append(a)

    def _seq(self, stmts, preds: List[Node], loop, handlers) -> List[Node]:
        cur = preds
        for s in stmts:
            if not cur:
                break   # unreachable code
            cur = self._stmt(s, cur, loop, handlers)
        return cur

    def _raise_targets(self, handlers) -> List[Node]:
        return handlers[-1] if handlers else [self.raise_exit]

    def _stmt(self, s, preds, loop, handlers) -> List[Node]:
        if isinstance(s, ast.If):
            t = self._new(s, "test")
            for p in preds:
                self._edge(p, t)
            a = self._seq(s.body, [t], loop, handlers)
            b = self._seq(s.orelse, [t], loop, handlers) if s.orelse else [t]
            return a + b
        if isinstance(s, (ast.For, ast.AsyncFor, ast.While)):
            h = self._new(s, "loop")
            for p in preds:
                self._edge(p, h)
            brk: List[Node] = []
            lp = (h, brk)
            body_end = self._seq(s.body, [h], lp, handlers)
            for e in body_end:
                self._edge(e, h)
            out = self._seq(s.orelse, [h], loop, handlers) if s.orelse else [h]
            return out + brk
        if isinstance(s, (ast.With, ast.AsyncWith)):
            w = self._new(s, "with")
            for p in preds:
                self._edge(p, w)
            return self._seq(s.body, [w], loop, handlers)
        if isinstance(s, ast.Try) or s.__class__.__name__ == "TryStar":
            hnodes = []
            for h in s.handlers:
                hn = self._new(h, "except")
                hnodes.append(hn)
            # any statement in body may raise into any handler
            body_end = self._seq(s.body, preds, loop, handlers + [hnodes] if hnodes else handlers)
            if hnodes:
                for p in preds:
                    for hn in hnodes:
                        self._edge(p, hn)
            else_end = self._seq(s.orelse, body_end, loop, handlers) if s.orelse else body_end
            ends = list(else_end)
            for h, hn in zip(s.handlers, hnodes):
                ends += self._seq(h.body, [hn], loop, handlers)
            if s.finalbody:
                ends = self._seq(s.finalbody, ends, loop, handlers)
            return ends
        if isinstance(s, (ast.FunctionDef, ast.AsyncFunctionDef, ast.ClassDef)):
            n = self._new(s, "stmt")
            for p in preds:
                self._edge(p, n)
            return [n]
        if isinstance(s, ast.Match):
            t = self._new(s, "test")
            for p in preds:
                self._edge(p, t)
            ends = [t]
            for c in s.cases:
                ends += self._seq(c.body, [t], loop, handlers)
            return ends
        n = self._new(s, "stmt")
        for p in preds:
            self._edge(p, n)
        # every statement inside a try body may raise to the handlers
        if handlers:
            for hn in handlers[-1]:
                self._edge(n, hn)
        if isinstance(s, ast.Return):
            self._edge(n, self.exit)
            return []
        if isinstance(s, ast.Raise):
            for t in self._raise_targets(handlers):
                self._edge(n, t)
            return []
        if isinstance(s, ast.Assert):
            for t in self._raise_targets(handlers):
                self._edge(n, t)
            return [n]
        if isinstance(s, ast.Break):
            if loop:
                loop[1].append(n)
            return []
        if isinstance(s, ast.Continue):
            if loop:
                self._edge(n, loop[0])
            return []
        return [n]

    # ------------------------------------------------------------------ dominators
    def dominators(self) -> Dict[Node, Set[Node]]:
        if self._dom is None:
            self._dom = _dominators(self.nodes, self.entry, lambda n: n.pred)
        return self._dom

    def dominates(self, a: Node, b: Node) -> bool:
        return a in self.dominators().get(b, set())

    def node_of(self, stmt) -> Optional[Node]:
        return self.stmt_node.get(id(stmt))

    def reachable(self) -> Set[Node]:
        seen = set()
        st = [self.entry]
        while st:
            n = st.pop()
            if n in seen:
                continue
            seen.add(n)
            st.extend(n.succ)
        return seen

    def paths_avoiding(self, src: Node, dst: Node, avoid: Callable[[Node], bool]) -> Optional[List[Node]]:
        """a path src->dst that passes through no node with avoid(n) (excluding src and dst); None if none"""
        prev = {src: None}
        st = [src]
        while st:
            n = st.pop(0)
            for s in n.succ:
                if s in prev:
                    continue
                if s is dst:
                    prev[s] = n
                    path = [s]
                    while path[-1] is not None and prev[path[-1]] is not None:
                        path.append(prev[path[-1]])
                    return list(reversed(path))
                if avoid(s):
                    continue
                prev[s] = n
                st.append(s)
        return None


def _dominators(nodes, entry, preds):
    reach = set()
    st = [entry]
    succs = {}
    for n in nodes:
        for p in preds(n):
            succs.setdefault(p, []).append(n)
    while st:
        n = st.pop()
        if n in reach:
            continue
        reach.add(n)
        st.extend(succs.get(n, []))
    dom = {n: set(reach) for n in reach}
    dom[entry] = {entry}
    changed = True
    order = [n for n in nodes if n in reach and n is not entry]
    while changed:
        changed = False
        for n in order:
            ps = [dom[p] for p in preds(n) if p in reach]
            new = set.intersection(*ps) if ps else set()
            new = new | {n}
            if new != dom[n]:
                dom[n] = new
                changed = True
    return dom


def forward(cfg: CFG, init, transfer: Callable[[Node, Any], Any], join: Callable[[Any, Any], Any], eq=None,
            edge_transfer=None):
    """generic forward worklist; returns dict node -> state at node entry.  States must be comparable by ==."""
    IN: Dict[Node, Any] = {cfg.entry: init}
    work = [cfg.entry]
    it = 0
    while work:
        it += 1
        if it > 20000:
            raise RuntimeError("dataflow did not converge")
        n = work.pop(0)
        out = transfer(n, IN[n])
        for s in n.succ:
            o = out
            if edge_transfer is not None:
                o = edge_transfer(n, s, out)
                if o is None:
                    continue
            if s not in IN:
                IN[s] = o
                work.append(s)
            else:
                j = join(IN[s], o)
                if j != IN[s]:
                    IN[s] = j
                    if s not in work:
                        work.append(s)
    return IN


def branch_successors(cfg: CFG, test_node: Node):
    """for an `if` test node: (true-successor-entry nodes, false-successor-entry nodes)"""
    s = test_node.stmt
    assert isinstance(s, ast.If)
    first_true = cfg.node_of(s.body[0]) if s.body else None
    first_false = cfg.node_of(s.orelse[0]) if s.orelse else None
    return first_true, first_false
