"""E7 — rule driver: obligations, tri-state verdict, evidence, replay, known findings."""
from __future__ import annotations

import importlib
import json
import os
import sys
import time
import traceback
from typing import List, Optional, Dict, Any

from .model import Repo, AnalysisError, REPO

VERIF = os.path.dirname(os.path.dirname(os.path.abspath(__file__)))
EVIDENCE_DIR = os.path.join(VERIF, "evidence")
REPLAY_DIR = os.path.join(EVIDENCE_DIR, "replay")
KNOWN_FINDINGS = os.path.join(VERIF, "known_findings.json")

DISCHARGED, VIOLATED, INCONCLUSIVE = "DISCHARGED", "VIOLATED", "INCONCLUSIVE"


class Ob:
    def __init__(self, rule, oid, desc, status, where="", construct="", witness="", derived="", key=None):
        self.rule = rule
        self.oid = oid
        self.desc = desc
        self.status = status
        self.where = where
        self.construct = construct
        self.witness = witness
        self.derived = derived
        self.key = key or f"{rule}|{where}|{' '.join(str(construct).split())}"

    def as_dict(self):
        d = {"obligation": self.oid, "rule": self.rule, "what": self.desc, "status": self.status}
        if self.where:
            d["where"] = self.where
        if self.construct:
            d["construct"] = str(self.construct)[:400]
        if self.witness:
            d["witness"] = str(self.witness)[:600]
        if self.derived:
            d["derived"] = str(self.derived)[:600]
        d["key"] = self.key
        return d


class Ctx:
    """collects what one property check analysed and decided"""

    def __init__(self, pid: str, tier: str, seed: int, only: Optional[str] = None):
        self.pid = pid
        self.tier = tier
        self.seed = seed
        self.only = only              # replay: restrict reporting to one obligation key
        self.obs: List[Ob] = []
        self.functions: set = set()
        self.modules: set = set()
        self.call_sites = 0
        self.rule_instances: Dict[str, int] = {}
        self.unresolved: List[str] = []
        self.notes: List[str] = []
        self.trusted: List[str] = []
        self.assumptions: List[str] = []
        self.extra: Dict[str, Any] = {}
        self.exhaustive = False

    # -- bookkeeping
    def analysed(self, fi):
        try:
            self.functions.add(fi.where)
            self.modules.add(fi.module.relpath)
        except AttributeError:
            self.functions.add(str(fi))

    def instance(self, rule: str, n: int = 1):
        self.rule_instances[rule] = self.rule_instances.get(rule, 0) + n

    def trust(self, *items):
        for i in items:
            if i not in self.trusted:
                self.trusted.append(i)

    def assume(self, *items):
        for i in items:
            if i not in self.assumptions:
                self.assumptions.append(i)

    # -- verdicts
    def ok(self, rule, oid, desc, where="", construct="", derived=""):
        self.obs.append(Ob(rule, oid, desc, DISCHARGED, where, construct, "", derived))

    def violate(self, rule, oid, desc, where="", construct="", witness="", derived="", key=None):
        self.obs.append(Ob(rule, oid, desc, VIOLATED, where, construct, witness, derived, key))

    def inconclusive(self, rule, oid, desc, where="", construct="", witness=""):
        self.obs.append(Ob(rule, oid, desc, INCONCLUSIVE, where, construct, witness))

    def require_instances(self, rule: str, minimum: int, what: str):
        """non-vacuity: fewer rule instances than confirmed by hand => INCONCLUSIVE (never silent pass)"""
        n = self.rule_instances.get(rule, 0)
        if n < minimum:
            self.inconclusive(rule, f"{rule}.nonvacuity", f"{what}: only {n} instance(s) found, {minimum} confirmed by "
                              f"hand on the pinned tree", witness="rule matched fewer sites than expected")
        else:
            self.ok(rule, f"{rule}.nonvacuity", f"{what}: {n} instance(s) >= {minimum} confirmed by hand")

    def check(self, cond, rule, oid, desc, where="", construct="", witness="", derived=""):
        if cond:
            self.ok(rule, oid, desc, where, construct, derived)
        else:
            self.violate(rule, oid, desc, where, construct, witness, derived)
        return bool(cond)


class PrefixCtx:
    """view of a Ctx under which the obligations of an inherited rule set are recorded with another id prefix"""

    def __init__(self, ctx: Ctx, old: str, new: str):
        self._ctx, self._old, self._new = ctx, old, new

    def _r(self, oid):
        return self._new + oid[len(self._old):] if isinstance(oid, str) and oid.startswith(self._old) else oid

    def ok(self, rule, oid, *a, **k):
        return self._ctx.ok(rule, self._r(oid), *a, **k)

    def violate(self, rule, oid, *a, **k):
        return self._ctx.violate(rule, self._r(oid), *a, **k)

    def inconclusive(self, rule, oid, *a, **k):
        return self._ctx.inconclusive(rule, self._r(oid), *a, **k)

    def check(self, cond, rule, oid, *a, **k):
        return self._ctx.check(cond, rule, self._r(oid), *a, **k)

    def __getattr__(self, name):
        return getattr(self._ctx, name)


def anchored_modules(pid: str, repo):
    """python modules of /repo named in the property's anchors (properties.jsonl)"""
    out = []
    try:
        with open(os.path.join(VERIF, "properties.jsonl")) as f:
            for line in f:
                p = json.loads(line)
                if p.get("id") == pid:
                    for fn in p.get("anchors", {}).get("files", []):
                        if fn.endswith(".py"):
                            name = fn[:-3].replace("/", ".")
                            if name in repo.modules:
                                out.append(name)
    except OSError:
        pass
    return out


def common_obligations(ctx, repo, pid):
    """obligations every claimed property inherits: what an anchored function returns must not depend on earlier calls
    through an unsound memo (CACHE rule) or through in-place modification of a shared result (ALIAS rule)"""
    from .rules.cache import check_caches
    mods = anchored_modules(pid, repo)
    try:
        extra = getattr(importlib.import_module(f"sa.props.{pid}"), "EXTRA_MODULES", [])
    except Exception:
        extra = []
    mods = mods + [m for m in extra if m in repo.modules and m not in mods]
    if mods:
        # a memo in a module that the anchored code imports from is as harmful as one in the anchored module itself: the CACHE rule runs
        # over the import closure (within the package) of the anchored modules
        closure = list(mods)
        frontier = list(mods)
        while frontier:
            mn = frontier.pop()
            mi = repo.modules.get(mn)
            for dotted in (mi.imports.values() if mi is not None else []):
                for cand in (dotted, dotted.rsplit(".", 1)[0]):
                    if cand in repo.modules and cand.startswith("molgri.") and cand not in closure and \
                            not cand.startswith(("molgri.plotting", "molgri.scripts", "molgri.assertions")):
                        closure.append(cand)
                        frontier.append(cand)
        check_caches(ctx, repo, pid, closure)
        # ALIAS rule: objects kept in memo containers / handed out by reference must not be modified in place by any caller
        from .rules.alias import check_aliases, DEFAULT_SCOPE_PREFIXES
        scope = sorted(n for n in repo.modules if any(n.startswith(p) for p in DEFAULT_SCOPE_PREFIXES))
        check_aliases(ctx, repo, pid, scope, report_modules=mods)
        # PARAM rule: an argument whose values are ignored (only its size / presence is read)
        from .rules.params import check_params
        check_params(ctx, repo, pid, scope, report_modules=mods)
        from .rules.params import check_dispatch_keys
        check_dispatch_keys(ctx, repo, pid, scope, report_modules=mods)
        # INDEXTRUTH rule: emptiness of an index array must not be tested through the index values
        from .rules.params import check_index_truth
        check_index_truth(ctx, repo, pid, scope, report_modules=mods)
        # ARCDOM rule: arccos / arcsin of a floating-point product must be clipped or rounded into [-1, 1]
        from .rules.params import check_arc_domain
        check_arc_domain(ctx, repo, pid, scope, report_modules=mods)
        # EMPTYIDX rule: an index array built from a filtered selection needs an integer dtype (empty selection -> float64 -> IndexError)
        from .rules.params import check_empty_index
        check_empty_index(ctx, repo, pid, scope, report_modules=mods)
        # LENGUARD rule: a minimum-length guard must cover the constant subscripts of the routine it guards
        from .rules.params import check_len_guards
        check_len_guards(ctx, repo, pid, scope, report_modules=mods)
        # FWDCOLLIDE rule: lazily created attributes of a class with a forwarding __getattr__ must not collide with the delegate's
        from .rules.params import check_forward_collisions
        check_forward_collisions(ctx, repo, pid, scope, report_modules=mods)
        # LAZYINIT rule: an attribute created on first use by one method must not be dereferenced by a sibling that does not create it
        from .rules.params import check_lazy_attrs
        check_lazy_attrs(ctx, repo, pid, scope, report_modules=mods)


def run_sentinels(ctx: Ctx, pid: str):
    """thorough tier: the checker is exercised on scratch copies of the CURRENT tree with one catalogued edit each
    (selftest/catalogue.py): a must-fire edit has to add a violated obligation, a behaviour-preserving edit must add none.
    A sentinel that does not behave makes the run INCONCLUSIVE (the checker, not the repository, is then in doubt)."""
    import concurrent.futures as cf
    import shutil
    import subprocess
    import tempfile
    sys.path.insert(0, os.path.join(VERIF, "selftest"))
    try:
        from catalogue import CATALOGUE, FIRE
    except Exception as e:      # catalogue missing: say so, never pass silently
        ctx.inconclusive("SENTINEL", f"{pid}.sentinels", "selftest catalogue could not be loaded", witness=str(e))
        return
    base_v = {f"{o.oid}|{o.key}" for o in ctx.obs if o.status == VIOLATED}
    base_i = {f"{o.oid}|{o.key}" for o in ctx.obs if o.status == INCONCLUSIVE}
    entries = [e for e in CATALOGUE if pid in e[1]]
    if pid == "C19":
        entries = entries[:6]      # each C19 run costs ~10 s

    def one(entry):
        name, pids, edits, expect = entry
        d = tempfile.mkdtemp(prefix="verif_sent_")
        try:
            for sub in ("molgri", "workflow"):
                shutil.copytree(os.path.join(REPO, sub), os.path.join(d, sub), ignore=shutil.ignore_patterns("__pycache__", "*.pyc"))
            for rel, old, new in edits:
                pth = os.path.join(d, rel)
                txt = open(pth).read()
                if txt.count(old) != 1:
                    return name, expect, "skipped", ""
                open(pth, "w").write(txt.replace(old, new))
            dump = os.path.join(d, "keys.json")
            env = dict(os.environ, VERIF_REPO=d, VERIF_NO_EVIDENCE="1", VERIF_DUMP=dump, VERIF_TIER="quick", VERIF_NO_SENTINELS="1")
            subprocess.run([sys.executable, "-m", "sa.driver", pid, "--tier", "quick"], env=env, cwd=VERIF, capture_output=True, text=True)
            try:
                k = json.load(open(dump))
            except Exception as e:
                return name, expect, "error", str(e)
            newv = sorted(set(k["violated"]) - base_v)
            newi = sorted(set(k["inconclusive"]) - base_i)
            if expect == FIRE:
                return name, expect, ("ok" if newv else "silent"), (newv or newi or [""])[0]
            return name, expect, ("ok" if not newv and not newi else "alarm"), (newv or newi or [""])[0]
        finally:
            shutil.rmtree(d, ignore_errors=True)
    results = []
    with cf.ThreadPoolExecutor(8) as ex:
        results = list(ex.map(one, entries))
    ran = [r for r in results if r[2] != "skipped"]
    ctx.instance("SENTINEL", len(ran))
    ctx.extra["sentinels"] = {"catalogued": len(entries), "applied": len(ran), "skipped_anchor_missing": len(entries) - len(ran),
                              "must_fire_ok": sum(1 for r in ran if r[1] == FIRE and r[2] == "ok"),
                              "must_stay_silent_ok": sum(1 for r in ran if r[1] != FIRE and r[2] == "ok")}
    bad = [r for r in ran if r[2] != "ok"]
    if bad:
        for name, expect, st, info in bad[:5]:
            ctx.inconclusive("SENTINEL", f"{pid}.sentinel.{name}", "checker self-validation failed on a scratch variant of the current tree: "
                             + ("a must-fire edit added no violated obligation" if st == "silent" else
                                "a behaviour-preserving edit added an alarm" if st == "alarm" else "the variant run did not complete"),
                             witness=str(info)[:300])
    else:
        ctx.ok("SENTINEL", f"{pid}.sentinels", f"{len(ran)} catalogued scratch variants of the current tree behave as expected "
               f"({ctx.extra['sentinels']['must_fire_ok']} must-fire edits each add a violated obligation, "
               f"{ctx.extra['sentinels']['must_stay_silent_ok']} behaviour-preserving edits add none)", "selftest/catalogue.py")


def load_known():
    if not os.path.exists(KNOWN_FINDINGS):
        return []
    with open(KNOWN_FINDINGS) as f:
        return json.load(f).get("findings", [])


def run_property(pid: str, tier: str = "quick", replay: Optional[str] = None) -> int:
    t0 = time.time()
    seed = int(os.environ.get("VERIF_SEED", "0") or 0)
    only = None
    if replay:
        try:
            with open(replay) as f:
                only = json.load(f).get("key")
        except Exception as e:
            print(f"ANALYSIS-ERROR property={pid} cannot read replay file {replay}: {e}")
            return 2
    ctx = Ctx(pid, tier, seed, only)
    meta: Dict[str, Any] = {}
    fatal = None
    try:
        mod = importlib.import_module(f"sa.props.{pid}")
        meta = getattr(mod, "META", {})
        repo = Repo()
        ctx.repo = repo
        mod.run(ctx, repo, tier)
        common_obligations(ctx, repo, pid)
        if tier == "thorough" and not replay and not os.environ.get("VERIF_NO_SENTINELS"):
            run_sentinels(ctx, pid)
    except AnalysisError as e:
        fatal = f"{e}"
        ctx.inconclusive("ENGINE", "engine.analysis", "analysis could not be completed", witness=str(e))
    except Exception as e:  # internal error: never exit 1
        fatal = "internal error: " + "".join(traceback.format_exception_only(type(e), e)).strip()
        tb = traceback.format_exc()
        ctx.inconclusive("ENGINE", "engine.internal", "internal checker error", witness=tb[-1500:])

    known = [k for k in load_known() if k.get("property") == pid]
    known_keys = {k["key"]: k for k in known if k.get("status") == "known"}
    violations = [o for o in ctx.obs if o.status == VIOLATED]
    unlisted = []
    for o in violations:
        if o.key in known_keys:
            print(f"KNOWN-FINDING: property={pid} {known_keys[o.key].get('what', o.desc)} [{o.key}]")
        else:
            unlisted.append(o)
    incon = [o for o in ctx.obs if o.status == INCONCLUSIVE]
    discharged = [o for o in ctx.obs if o.status == DISCHARGED]
    if os.environ.get("VERIF_DUMP"):
        with open(os.environ["VERIF_DUMP"], "w") as f:
            json.dump({"violated": sorted({f"{o.oid}|{o.key}" for o in violations}),
                       "inconclusive": sorted({f"{o.oid}|{o.key}" for o in incon})}, f)

    os.makedirs(EVIDENCE_DIR, exist_ok=True)
    replay_paths = []
    if unlisted and not os.environ.get("VERIF_NO_EVIDENCE"):
        os.makedirs(REPLAY_DIR, exist_ok=True)
        for k, o in enumerate(unlisted):
            p = os.path.join(REPLAY_DIR, f"{pid}-{k}.json")
            with open(p, "w") as f:
                json.dump({"property": pid, "key": o.key, **o.as_dict(), "tier": tier,
                           "how_to_replay": f"./check {pid} --replay {p}"}, f, indent=1)
            replay_paths.append(p)

    wall = time.time() - t0
    if not replay and not os.environ.get("VERIF_NO_EVIDENCE"):
        nontrivial = {o.key for o in ctx.obs if o.where or o.construct}
        samples = [o.as_dict() for o in (unlisted + incon)[:6]]
        # a rotating slice of discharged obligations as samples
        if discharged:
            start = (seed * 5) % len(discharged)
            samples += [discharged[(start + i) % len(discharged)].as_dict() for i in range(min(6, len(discharged)))]
        explanation = meta.get("explanation", "")
        if fatal:
            explanation = f"RUN INCOMPLETE ({fatal}). " + explanation
        coverage = {
            "explanation": explanation,
            "decided_clauses": meta.get("decided", []),
            "not_decided_clauses": meta.get("not_decided", []),
            "obligations": len(ctx.obs),
            "discharged": len(discharged),
            "violated": len(violations),
            "known_findings": [{"obligation": o.oid, "key": o.key, "where": o.where} for o in violations if o.key in known_keys],
            "inconclusive": len(incon),
            "evaluations": max(1, sum(ctx.rule_instances.values()) + len(ctx.obs)),
            "distinct_nontrivial": len(nontrivial),
            "rule": "one evaluation = one rule instance examined on a repository construct or one obligation decided; "
                    "distinct_nontrivial = distinct obligation keys (rule, function, construct) that are anchored in "
                    "a repository construct (positive controls and non-vacuity counters excluded)",
            "samples": samples,
            "rule_instances": dict(sorted(ctx.rule_instances.items())),
            "analysed": {"modules": sorted(ctx.modules), "functions": sorted(ctx.functions),
                         "call_sites": ctx.call_sites, "files_digest": getattr(getattr(ctx, "repo", None), "consulted", {})},
            "unresolved_calls": ctx.unresolved[:50],
            "notes": ctx.notes[:50],
            "checker_cmd": f"./check {pid} --tier {tier}",
            "trusted_base": ctx.trusted or meta.get("trusted", []),
            "exhaustive": bool(ctx.exhaustive),
            "all_obligations": [o.as_dict() for o in ctx.obs][:400],
        }
        coverage.update(ctx.extra)
        ev = {"property_id": pid, "tier": tier, "seed": seed, "level": "other", "coverage": coverage,
              "assumptions": ctx.assumptions or meta.get("assumptions", []), "wall_s": round(wall, 3),
              "violations": len(unlisted)}
        with open(os.path.join(EVIDENCE_DIR, f"{pid}.json"), "w") as f:
            json.dump(ev, f, indent=1, default=str)

    # ---- report
    print(f"[{pid}] tier={tier} repo={REPO} obligations={len(ctx.obs)} discharged={len(discharged)} "
          f"violated={len(violations)} (unlisted {len(unlisted)}) inconclusive={len(incon)} "
          f"functions={len(ctx.functions)} rule_instances={sum(ctx.rule_instances.values())} wall={wall:.2f}s")
    if replay:
        for o in ctx.obs:
            if only is None or o.key == only:
                print(json.dumps(o.as_dict(), indent=1))
    if len(replay_paths) < len(unlisted):
        replay_paths = replay_paths + ['<none>'] * (len(unlisted) - len(replay_paths))
    for o, p in zip(unlisted, replay_paths):
        print(f"  violated {o.oid} [{o.rule}] {o.where}: {o.desc}\n    construct: {o.construct}\n    witness: {o.witness}")
        print(f"VIOLATION property={pid} replay={p}")
    if unlisted:
        return 1
    if incon:
        for o in incon[:10]:
            print(f"ANALYSIS-ERROR property={pid} {o.oid} [{o.rule}] {o.where} {o.desc}: {str(o.witness)[:300]}")
        return 2
    return 0


def main(argv=None):
    argv = list(sys.argv[1:] if argv is None else argv)
    if not argv:
        print("usage: check <Cxx> [--tier quick|thorough] [--replay path]")
        return 2
    if argv[0] == "--selfcheck":
        # setup_cmd: the framework needs no build; verify that every module imports and the findings file parses
        import glob
        n = 0
        for f in sorted(glob.glob(os.path.join(VERIF, "sa", "props", "C*.py"))):
            importlib.import_module("sa.props." + os.path.basename(f)[:-3])
            n += 1
        load_known()
        os.makedirs(EVIDENCE_DIR, exist_ok=True)
        print(f"selfcheck ok: {n} property modules import, python {sys.version.split()[0]}")
        return 0
    pid = argv[0]
    tier = os.environ.get("VERIF_TIER", "quick") or "quick"
    replay = None
    i = 1
    while i < len(argv):
        if argv[i] == "--tier":
            tier = argv[i + 1]
            i += 2
        elif argv[i] == "--replay":
            replay = argv[i + 1]
            i += 2
        else:
            i += 1
    if tier not in ("quick", "thorough"):
        tier = "quick"
    try:
        return run_property(pid, tier, replay)
    except SystemExit:
        raise
    except Exception:
        print(f"ANALYSIS-ERROR property={pid} driver failure: {traceback.format_exc()[-1200:]}")
        return 2


if __name__ == "__main__":
    sys.exit(main())
