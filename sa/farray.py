"""Filtered index arrays: the values of the vectorised `np.nonzero` idiom.

    rows, cols = np.nonzero(M)                 two arrays over the stored pairs of M, in row-major order
    M[rows, cols]                              the values of those pairs
    (c * rows[:, None] + ks[None, :]).ravel()  every pair expanded by an inner axis, pair-major
    np.repeat(v, n)                            the same expansion of a value array
    np.broadcast_to(v, (n, len(v))).ravel()    the expansion with the NEW axis outermost (axis-major)

They are represented like the lists an explicit loop nest would build:  ListV(kind='array') with items
    Loop i [ Loop j [ Guard truthy(M[i,j]) [ Elem value ] ] ]
so that the rules written for `for i..: for j..: if el: for k..: append` apply unchanged."""
from __future__ import annotations

import ast

from .alg import Poly
from .values import *


def is_farray(v) -> bool:
    return isinstance(v, ListV) and v.kind in ("array", "array2d")


def map_items(items, fn):
    out = []
    for it in items:
        if isinstance(it, Elem):
            out.append(fn(it))
        elif isinstance(it, Loop):
            out.append(Loop(it.idx, it.extent, map_items(it.items, fn), it.fid, it.info))
        elif isinstance(it, Guard):
            out.append(Guard(it.cond, map_items(it.items, fn), it.fid))
        else:
            raise ValueError("unstructured item")
    return out


def zip_items(a, b, fn):
    """map over two item trees of identical skeleton"""
    if len(a) != len(b):
        raise ValueError("skeleton")
    out = []
    for x, y in zip(a, b):
        if isinstance(x, Elem) and isinstance(y, Elem):
            out.append(fn(x, y))
        elif isinstance(x, Loop) and isinstance(y, Loop) and x.idx == y.idx and x.extent == y.extent:
            out.append(Loop(x.idx, x.extent, zip_items(x.items, y.items, fn), x.fid, x.info))
        elif isinstance(x, Guard) and isinstance(y, Guard) and vkey(x.cond) == vkey(y.cond):
            out.append(Guard(x.cond, zip_items(x.items, y.items, fn), x.fid))
        else:
            raise ValueError("skeleton")
    return out


def mk(items, kind="array"):
    l = ListV(items, kind)
    return l


def nonzero(interp, g):
    """np.nonzero of a 1-D / 2-D grid whose axes are single indices -> tuple of filtered index arrays (row-major), else None"""
    if not isinstance(g, Grid) or g.ndim not in (1, 2) or any(len(d) != 1 for d in g.dims):
        return None
    cond = g.elem if isinstance(g.elem, CondV) else CondV("truthy", g.elem)
    outs = []
    for ax in range(g.ndim):
        inner = [Guard(cond, [Elem(Num(Poly.atom(g.dims[ax][0][0])))])]
        for d in reversed(g.dims):
            inner = [Loop(d[0][0], d[0][1], inner)]
        outs.append(mk(inner))
    return TupleV(outs)


def fancy2(interp, g, li, lj):
    """G[rows, cols] with two filtered index arrays of the same skeleton"""
    if not (isinstance(g, Grid) and g.ndim == 2 and all(len(d) == 1 for d in g.dims) and is_farray(li) and is_farray(lj)):
        return None
    (ia, _), (ja, _) = g.dims[0][0], g.dims[1][0]

    def f(x, y):
        if not (isinstance(x.value, Num) and isinstance(y.value, Num)):
            raise ValueError("index value")
        return Elem(subst(g.elem, {ia: x.value.p, ja: y.value.p}))
    try:
        return mk(zip_items(li.items, lj.items, f))
    except ValueError:
        return None


def scalar_op(interp, op, arr, other, swapped, node):
    def f(e):
        return Elem(interp.binop(op, other, e.value, node) if swapped else interp.binop(op, e.value, other, node))
    try:
        return mk(map_items(arr.items, f), arr.kind)
    except ValueError:
        return None


def outer(interp, op, col, row, swapped, node):
    """colvec(L) (op) row-grid  ->  2-D filtered array: every element of L becomes a row over the grid's axis"""
    if not isinstance(row, Grid):
        return None
    if row.ndim == 1:
        dims = [row.dims[0]]
    elif row.ndim == 2 and len(row.dims[0]) == 1 and row.dims[0][0][1] == Poly.const(1):
        dims = [row.dims[1]]            # (1, n): the row view  x[np.newaxis, :]
    else:
        return None

    def f(e):
        v = interp.binop(op, row.elem, e.value, node) if swapped else interp.binop(op, e.value, row.elem, node)
        return Elem(Grid([dims[0]], v))
    try:
        return mk(map_items(col.items, f), "array2d")
    except ValueError:
        return None


def ravel(interp, arr):
    if arr.kind == "array":
        return arr

    def f(e):
        g = e.value
        if not (isinstance(g, Grid) and g.ndim == 1):
            raise ValueError("row")
        inner = [Elem(g.elem)]
        for a, ext in reversed(g.dims[0]):
            inner = [Loop(a, ext, inner)]
        return inner[0]
    try:
        return mk(map_items(arr.items, f))
    except ValueError:
        return None


def repeat(interp, arr, reps):
    if arr.kind != "array" or not isinstance(reps, Num):
        return None
    p = interp.fresh_idx("p")
    return mk(map_items(arr.items, lambda e: Loop(p, reps.p, [Elem(e.value)])))


def binop(interp, op, l, r, node):
    """arithmetic that involves a filtered array / its column view; None when not applicable"""
    lc = isinstance(l, Term) and l.op == "colvec"
    rc = isinstance(r, Term) and r.op == "colvec"
    if lc and isinstance(r, Num):
        x = scalar_op(interp, op, l.args[0], r, False, node)
        return Term("colvec", [x]) if x is not None else None
    if rc and isinstance(l, Num):
        x = scalar_op(interp, op, r.args[0], l, True, node)
        return Term("colvec", [x]) if x is not None else None
    if lc and isinstance(r, Grid):
        return outer(interp, op, l.args[0], r, False, node)
    if rc and isinstance(l, Grid):
        return outer(interp, op, r.args[0], l, True, node)
    if is_farray(l) and isinstance(r, Num):
        return scalar_op(interp, op, l, r, False, node)
    if is_farray(r) and isinstance(l, Num):
        return scalar_op(interp, op, r, l, True, node)
    if is_farray(l) and is_farray(r) and l.kind == r.kind == "array":
        try:
            return mk(zip_items(l.items, r.items, lambda x, y: Elem(interp.binop(op, x.value, y.value, node))))
        except ValueError:
            return None
    return None
