"""Abstract construction of FullGrid / PositionGrid object graphs for the kernel interpreter.

The real constructors (FullGrid.__init__, PositionGrid.__init__, the factories, SphereGridNDim.gen_grid, the Voronoi
classes' __init__ chains) are interpreted abstractly on /repo's current source, so that attribute definedness, receiver
classes and forwarding are those of the code.  Only the numerically heavy leaves are summarised (frozen table below, one
reason each):

  *._gen_grid of the non-zero sphere-grid classes -> an (N x d) / (2N x d) array of named atoms   [coordinates are
        numerical; row count is asserted by gen_grid itself]
  SphereGridNDim.get_N                          -> self.N      [gen_grid asserts grid.shape == (N, d) / (2N, d)]
  polytope classes                              -> opaque objects   [graph subdivision is numerical / covered by C18]
  scipy objects                                 -> opaque objects (transfer table)
"""
from __future__ import annotations

import ast
from fractions import Fraction
from typing import Dict, Optional

from .alg import Poly
from .interp import Interp, Hooks
from .values import *
from . import transfer as T
from .model import Repo, AnalysisError

FG = "molgri.space.fullgrid"
RO = "molgri.space.rotobj"
VO = "molgri.space.voronoi"


def as_poly(x):
    return x if isinstance(x, Poly) else Poly.const(x)


class BoxHooks(Hooks):
    """decides comparisons that are linear in one size symbol, from lower bounds of the symbols"""

    def __init__(self, bounds: Dict[str, int] = None):
        self.bounds = dict(bounds or {})

    def decide_linear(self, cond: CondV):
        if cond.kind != "cmp":
            return None
        op, l, r = cond.args
        d = l - r
        syms = [a for a in d.atoms() if a[0] == "sym" and a[1] in self.bounds]
        if len(d.atoms()) == 0:
            return None
        if set(d.atoms()) != set(syms):
            # products of size symbols: all >= their bounds, monotone increasing if all coefficients positive
            return self._decide_monotone(op, d)
        if len(syms) != 1 or d.degree_in(syms[0]) != 1:
            return self._decide_monotone(op, d)
        s = syms[0]
        a = d.coeff_of(s)
        b = d.without(s)
        if not (a.is_const() and b.is_const()):
            return None
        a, b = a.as_const(), b.as_const()
        lo = a * self.bounds[s[1]] + b
        if a > 0:
            return {">": True if lo > 0 else None, ">=": True if lo >= 0 else None, "<": False if lo >= 0 else None,
                    "<=": False if lo > 0 else None, "==": False if lo > 0 else None, "!=": True if lo > 0 else None}[op]
        if a < 0:
            return {"<": True if lo < 0 else None, "<=": True if lo <= 0 else None, ">": False if lo <= 0 else None,
                    ">=": False if lo < 0 else None, "==": False if lo < 0 else None, "!=": True if lo < 0 else None}[op]
        return None

    def _decide_monotone(self, op, d: Poly):
        """d = sum of monomials in bounded symbols with positive coefficients (+ constant): d >= value at lower bounds"""
        lo = Fraction(0)
        pos_only = True
        for m, c in d.terms.items():
            val = c
            for a, e in m:
                if a[0] != "sym" or a[1] not in self.bounds or e < 0 or e.denominator != 1:
                    return None
                val = val * Fraction(self.bounds[a[1]]) ** int(e)
            if m != () and c < 0:
                pos_only = False
            lo += val
        if not pos_only:
            return None
        return {">": True if lo > 0 else None, ">=": True if lo >= 0 else None, "<": False if lo >= 0 else None,
                "<=": False if lo > 0 else None, "==": False if lo > 0 else None, "!=": True if lo > 0 else None}[op]

    def _decide_shifted(self, op, d: Poly):
        """positivity certificate: write every size symbol as (its lower bound + delta), delta >= 0; if every non-constant coefficient
        of the expanded polynomial has one sign, the constant term is a bound of d"""
        syms = [a for a in d.atoms()]
        if not syms or any(a[0] != "sym" or a[1] not in self.bounds for a in syms):
            return None
        for m in d.terms:
            if any(e < 0 or e.denominator != 1 for _, e in m):
                return None
        sh = d.subs({a: Poly.atom(a) + Poly.const(self.bounds[a[1]]) for a in syms})
        c0 = sh.terms.get((), Fraction(0))
        rest = [c for m, c in sh.terms.items() if m != ()]
        if all(c >= 0 for c in rest):       # d >= c0
            return {">": True if c0 > 0 else None, ">=": True if c0 >= 0 else None, "<": False if c0 >= 0 else None,
                    "<=": False if c0 > 0 else None, "==": False if c0 > 0 else None, "!=": True if c0 > 0 else None}[op]
        if all(c <= 0 for c in rest):       # d <= c0
            return {"<": True if c0 < 0 else None, "<=": True if c0 <= 0 else None, ">": False if c0 <= 0 else None,
                    ">=": False if c0 < 0 else None, "==": False if c0 < 0 else None, "!=": True if c0 < 0 else None}[op]
        return None

    def decide(self, interp, cond):
        r = self.decide_linear(cond)
        if r is not None or cond.kind != "cmp":
            return r
        # factor out a common monomial of positive size symbols:  n_o*n_t - n_o  ->  n_o * (n_t - 1)
        op, l, rr = cond.args
        d = l - rr
        if len(d.terms) < 2:
            return None
        common = None
        for m in d.terms:
            dm = {a: e for a, e in m if a[0] == "sym" and a[1] in self.bounds and self.bounds[a[1]] >= 1 and e > 0}
            if common is None:
                common = dm
            else:
                common = {a: min(e, dm[a]) for a, e in common.items() if a in dm}
        if not common:
            return self._decide_shifted(op, d)
        g = Poly.const(1)
        for a, e in common.items():
            g = g * Poly.atom(a) ** e
        q = d / g
        r2 = self.decide_linear(CondV("cmp", op, q, Poly.const(0)))
        return r2 if r2 is not None else self._decide_shifted(op, d)


class FGHooks(BoxHooks):
    def __init__(self, repo: Repo, n_b, n_o, n_t, bounds=None, b_alg=None, o_alg=None):
        super().__init__(bounds)
        self.repo = repo
        self.n_b, self.n_o, self.n_t = as_poly(n_b), as_poly(n_o), as_poly(n_t)
        self.b_alg = b_alg
        self.o_alg = o_alg
        self.sphere_base = repo.cls(RO, "SphereGridNDim")
        self.poly_mod = "molgri.space.polytopes"
        self.gen_grid_summaries = 0

    # -- summaries ---------------------------------------------------------------------------------------------------
    def call(self, interp, fv, args, kwargs, node):
        if isinstance(fv, ClassV):
            ci = fv.ci
            if ci.module.name == self.poly_mod:
                return ObjV(cls=None, ext="polytope:" + ci.name, origin=Term("polytope", [Const(ci.name)]))
            if ci.name == "GridNameParser" and self.b_alg is not None:
                role = args[1].v if len(args) > 1 and isinstance(args[1], Const) else \
                    (kwargs["o_or_b"].v if isinstance(kwargs.get("o_or_b"), Const) else "o")
                o = ObjV(cls=ci)
                o.attrs["algo"] = Const(self.b_alg if role == "b" else self.o_alg)
                o.attrs["N"] = Num(self.n_b if role == "b" else self.n_o)
                o.attrs["name_string"] = args[0] if args else Const("")
                o.attrs["dim"] = Const(None)
                return o
            if ci.name == "TranslationParser":
                o = ObjV(cls=ci)
                idx = interp.fresh_idx("t")
                o.attrs["trans_grid"] = Grid([[(idx, self.n_t)]], Num(Poly.app("at", "r", Poly.atom(idx))))
                o.attrs["grid_hash"] = Term("grid_hash")
                o.attrs["user_input"] = args[0] if args else Const("")
                return o
        if isinstance(fv, FuncV) and fv.self_obj is not None and isinstance(fv.self_obj, ObjV) and fv.self_obj.cls is not None:
            cls = fv.self_obj.cls
            if self.sphere_base in cls.mro():
                if fv.fi.name == "_gen_grid" and fv.fi.cls is not None and not fv.fi.cls.name.startswith("Zero") \
                        and fv.fi.cls.name not in ("SphereGrid4Dim",):
                    # the innermost generator of a non-zero algorithm: an array of coordinates with N rows
                    self.gen_grid_summaries += 1
                    obj = fv.self_obj
                    N = obj.attrs.get("N")
                    dims = obj.attrs.get("dimensions")
                    if not (isinstance(N, Num) and isinstance(dims, Num)):
                        return Top("grid generator summary: N / dimensions unknown")
                    i = interp.fresh_idx("g")
                    c = interp.fresh_idx("c")
                    name = "G_b" if dims.p == Poly.const(4) else "G_o"
                    half = Grid([[(i, N.p)], [(c, dims.p)]], Num(Poly.app("at2", name, Poly.atom(i), Poly.atom(c))))
                    # 4D generators store the half grid and delegate to SphereGrid4Dim._gen_grid for the double cover
                    if dims.p == Poly.const(4):
                        base4 = self.repo.cls(RO, "SphereGrid4Dim")
                        g4 = base4.methods.get("_gen_grid")
                        if g4 is not None:
                            obj.attrs["grid"] = half
                            return interp.call_function(g4, [], {}, self_obj=obj, node=node)
                    return half
                if fv.fi.name == "get_N":
                    N = fv.self_obj.attrs.get("N")
                    if isinstance(N, Num):
                        return N
                if fv.fi.name == "get_upper_indices":
                    N = fv.self_obj.attrs.get("N")
                    if isinstance(N, Num):
                        return T.arange(interp, N.p)
        return None


def build_fullgrid(repo: Repo, interp: Interp, b_name, o_name, t_name, cartesian=False, factor=None) -> ObjV:
    ci = repo.cls(FG, "FullGrid")
    kw = {"position_grid_cartesian": Const(bool(cartesian))}
    if factor is not None:
        kw["factor"] = factor
    return interp.instantiate(ci, [b_name, o_name, t_name], kw)


class GeoHooks(FGHooks):
    """adds opaque summaries of the unit-sphere geometry (C03/C04/C15 own their correctness):
         <voronoi>._calculate_N_N_array(sel_property=p, ...) -> sparse input O_p / B_p on one pattern PO / PB
         <voronoi>.get_voronoi_volumes()                     -> vector area_o / vol_b"""

    def __init__(self, *a, **k):
        super().__init__(*a, **k)
        self.geo_calls = []

    def _which(self, obj: ObjV):
        if obj.cls is None:
            return None
        names = [c.name for c in obj.cls.mro()]
        if "HalfRotobjVoronoi" in names:
            return "B", self.n_b
        if "RotobjVoronoi" in names:
            return "O", self.n_o
        if "MikroVoronoi" in names:
            d = obj.attrs.get("dimensions")
            if isinstance(d, Num) and d.p == Poly.const(4):
                return "MB", self.n_b
            return "MO", self.n_o
        return None

    def call(self, interp, fv, args, kwargs, node):
        if isinstance(fv, FuncV) and isinstance(fv.self_obj, ObjV) and fv.self_obj.cls is not None and \
                fv.self_obj.cls.module.name == VO:
            w = self._which(fv.self_obj)
            if w is not None and w[0] in ("O", "B"):
                tag, n = w
                if fv.fi.name == "_calculate_N_N_array":
                    params = fv.fi.params()[1:]
                    bound = dict(zip(params, args))
                    bound.update(kwargs)
                    for p_, d_ in fv.fi.defaults().items():
                        if p_ not in bound and isinstance(d_, ast.Constant):
                            bound[p_] = Const(d_.value) if not isinstance(d_.value, (int, float)) or isinstance(d_.value, bool) else Num(d_.value)
                    sp = bound.get("sel_property")
                    if isinstance(sp, Const):
                        self.geo_calls.append((tag, fv.fi.where, {k: v for k, v in bound.items()}))
                        o = T.new_sparse(Term("input", [Const(f"{tag}_{sp.v}")], {"args": DictV(bound)}), "P" + tag, ("in",),
                                         TupleV([Num(n), Num(n)]), fmt="coo")
                        idx, ext = T.sparse_entry_dim(interp, o)
                        o.attrs["data"] = Grid([[(idx, ext)]], Num(Poly.app("at", f"{tag}_{sp.v}", Poly.atom(idx))))
                        return o
                if fv.fi.name == "get_voronoi_volumes":
                    self.geo_calls.append((tag, fv.fi.where, dict(kwargs)))
                    return T.vec(interp, "area_o" if tag == "O" else "vol_b", n, hint="v")
        return super().call(interp, fv, args, kwargs, node)
