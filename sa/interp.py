"""E5 — kernel abstract interpreter.

Interprets the numeric / list-building subset of Python used by the anchored kernels over the term domain of
sa.values.  Nothing is executed concretely: loops are summarised by idiom (map-append, product-append with counters,
guarded append, affine accumulators), branches on undecided conditions become guard frames, unknown constructs become
Top (never a violation).  External library functions are interpreted by the transfer table in sa.transfer.
"""
from __future__ import annotations

import ast
import itertools
from typing import Dict, List, Optional, Any, Tuple

from .alg import Poly
from .model import Repo, FunctionInfo, ClassInfo, ModuleInfo, AnalysisError, src
from .values import *

MAX_DEPTH = 12


class Frame:
    _ids = itertools.count(1)

    def __init__(self, kind, idx=None, extent=None, cond=None, info=None):
        self.kind = kind          # 'loop' | 'guard'
        self.idx = idx
        self.extent = extent
        self.cond = cond
        self.info = info
        self.fid = next(Frame._ids)
        self.created_lists = []   # ListV touched in this frame (for accumulator substitution)
        self.touched = []


class ReturnSignal(Exception):
    pass


class Hooks:
    """property modules subclass this to give summaries for calls/attributes outside the analysed kernel"""

    def call(self, interp, fv, args, kwargs, node):
        return None

    def method(self, interp, recv, name, args, kwargs, node):
        return None

    def attr(self, interp, recv, name, node):
        return None

    def decide(self, interp, cond: CondV):
        return None

    def inline(self, interp, fi: FunctionInfo, self_obj, args, kwargs) -> bool:
        return True


class CallCtx:
    def __init__(self, fi, module, env):
        self.fi = fi
        self.module = module
        self.env = env
        self.self_is = None
        self.returns: List[Tuple[tuple, V]] = []
        self.raises: List[Tuple[tuple, str, Any]] = []
        self.done = False
        self.yields = None


class Interp:
    def __init__(self, repo: Repo, hooks: Hooks = None, max_depth=MAX_DEPTH):
        self.repo = repo
        self.hooks = hooks or Hooks()
        self.frames: List[Frame] = []
        self.depth = 0
        self.max_depth = max_depth
        self.idx_counter = itertools.count(1)
        self.trace: List[str] = []
        self.index_obligations = []     # (node, where, seq_len Poly|None, index Poly, guards tuple, desc)
        self.unresolved: List[str] = []
        self.raises: List[Tuple[str, tuple, str]] = []     # (exception kind, guards, where)
        self.asserts: List[Tuple[str, Any]] = []
        self.functions_entered: List[FunctionInfo] = []
        self.call_stack: List[CallCtx] = []
        self.notes: List[str] = []
        self.events: List[tuple] = []   # generic event log for property modules
        self.ge1_atoms: set = set()     # atoms assumed to be integers >= 1 (declared by the property module)
        from . import transfer
        self.transfer = transfer

    # ------------------------------------------------------------------ helpers
    def fresh_idx(self, hint="i"):
        return ("sym", f"{hint}#{next(self.idx_counter)}")

    def guards(self) -> tuple:
        return tuple(f.cond for f in self.frames if f.kind == "guard")

    def where(self) -> str:
        if self.call_stack:
            return self.call_stack[-1].fi.where if self.call_stack[-1].fi else "<toplevel>"
        return "<toplevel>"

    def note(self, s):
        if len(self.notes) < 200:
            self.notes.append(s)

    # ------------------------------------------------------------------ calling repo functions
    def call_function(self, fi: FunctionInfo, args: List[V], kwargs: Dict[str, V], self_obj: V = None, node=None) -> V:
        if self.depth >= self.max_depth:
            return Top(f"inlining depth {self.max_depth} exceeded at {fi.where}")
        if any(c.fi is fi and c.self_is is self_obj for c in self.call_stack):
            return Top(f"recursion cut at {fi.where}")
        fnode = fi.node
        env: Dict[str, V] = {}
        a = fnode.args
        params = [x.arg for x in a.posonlyargs + a.args]
        all_args = list(args)
        is_static = any(d in ("staticmethod",) for d in fi.decorators())
        is_cls = any(d in ("classmethod",) for d in fi.decorators())
        if fi.cls is not None and not is_static:
            if is_cls:
                all_args = [ClassV(fi.cls)] + all_args
            elif self_obj is not None:
                all_args = [self_obj] + all_args
        # positional
        for name, val in zip(params, all_args):
            env[name] = val
        extra = all_args[len(params):]
        if a.vararg is not None:
            env[a.vararg.arg] = TupleV(extra)
        elif extra:
            return Top(f"too many positional arguments for {fi.where}")
        kw_rest = {}
        kwonly = [x.arg for x in a.kwonlyargs]
        for k, v in kwargs.items():
            if k in params or k in kwonly:
                env[k] = v
            else:
                kw_rest[k] = v
        if a.kwarg is not None:
            env[a.kwarg.arg] = DictV({k: v for k, v in kw_rest.items()})
        elif kw_rest:
            self.raises.append(("TypeError", self.guards(), f"{fi.where}: unexpected keyword {sorted(kw_rest)}"))
            return Top(f"unexpected keyword arguments {sorted(kw_rest)} for {fi.where}")
        cc = CallCtx(fi, fi.module, env)
        cc.self_is = self_obj
        cc.frames0 = len(self.frames)
        # defaults
        for name, d in fi.defaults().items():
            if name not in env:
                env[name] = self.eval_in(d, fi.module, {}, cc)
        for name in params + kwonly:
            if name not in env:
                self.raises.append(("TypeError", self.guards(), f"{fi.where}: missing argument {name}"))
                return Top(f"missing argument {name} for {fi.where}")
        self.functions_entered.append(fi)
        is_gen = any(isinstance(n, (ast.Yield, ast.YieldFrom)) for n in _walk_no_nested(fnode))
        if is_gen:
            cc.yields = self.new_list(kind="gen")
        self.depth += 1
        self.call_stack.append(cc)
        frames_at_entry = len(self.frames)
        try:
            self.exec_block(fnode.body, cc)
        finally:
            self.call_stack.pop()
            self.depth -= 1
            del self.frames[frames_at_entry:]
        if is_gen:
            return cc.yields
        if not cc.returns:
            return Const(None)
        if len(cc.returns) == 1:
            return cc.returns[0][1]
        # several returns under different guards
        vals = cc.returns
        k0 = vkey(vals[0][1])
        if all(vkey(v) == k0 for _, v in vals):
            return vals[0][1]
        return Term("phi", [TupleV([TupleV(list(g)), v]) for g, v in vals])

    def eval_in(self, expr, module, env, cc=None):
        c = cc or CallCtx(None, module, env)
        if cc is None:
            c.env = env
            c.frames0 = len(self.frames)
        self.call_stack.append(c)
        try:
            return self.eval(expr, c)
        finally:
            self.call_stack.pop()

    # ------------------------------------------------------------------ statements
    def exec_block(self, stmts, cc: CallCtx):
        for k, s in enumerate(stmts):
            if cc.done:
                return
            cont = cc.__dict__.setdefault("cont_conds", [])
            n0 = len(cont)
            self.exec_stmt(s, cc)
            if len(cont) > n0 and k + 1 < len(stmts):
                # `if c: continue` inside statement s: the remainder of this block runs only when no such path was taken
                cur = self._innermost_loop_fid()
                mine = [F for fid, F in cont[n0:] if fid == cur]
                if mine:
                    frames = []
                    for F in mine:
                        c = F[0]
                        for x in F[1:]:
                            c = CondV("and", c, x)
                        fr = Frame("guard", cond=CondV("not", c))
                        self.frames.append(fr)
                        frames.append(fr)
                    try:
                        self.exec_block(stmts[k + 1:], cc)
                    finally:
                        for _ in frames:
                            self.frames.pop()
                    return

    def _innermost_loop_fid(self):
        for f in reversed(self.frames):
            if f.kind == "loop":
                return f.fid
        return None

    def exec_stmt(self, s, cc: CallCtx):
        m = getattr(self, "st_" + type(s).__name__, None)
        if m is None:
            self.note(f"unmodelled statement {type(s).__name__} in {self.where()}")
            for n in _assigned_names([s]):
                cc.env[n] = Top(f"unmodelled statement {type(s).__name__}")
            return
        m(s, cc)

    def st_Expr(self, s, cc):
        if isinstance(s.value, ast.Constant):
            return
        if isinstance(s.value, (ast.Yield, ast.YieldFrom)):
            self.eval(s.value, cc)
            return
        if isinstance(s.value, ast.Call) and isinstance(s.value.func, ast.Name) and s.value.func.id == "print":
            return
        self.eval(s.value, cc)

    def st_Pass(self, s, cc):
        pass

    def st_Import(self, s, cc):
        for a in s.names:
            cc.env[a.asname or a.name.split(".")[0]] = ExtV(a.name if a.asname else a.name.split(".")[0])

    def st_ImportFrom(self, s, cc):
        for a in s.names:
            dotted = f"{s.module}.{a.name}"
            r = self.repo.resolve_dotted(dotted)
            cc.env[a.asname or a.name] = self._resolved_to_value(r, dotted)

    def st_Assert(self, s, cc):
        c = self.eval(s.test, cc)
        self.asserts.append((self.where(), c, self.guards(), s))

    def st_Global(self, s, cc):
        pass

    st_Nonlocal = st_Global

    def st_Delete(self, s, cc):
        pass

    def st_FunctionDef(self, s, cc):
        fi = FunctionInfo(s.name, f"{cc.fi.qualname if cc.fi else ''}.<locals>.{s.name}", cc.module, s)
        cc.env[s.name] = FuncV(fi)
        fi._closure_env = cc.env

    def st_Return(self, s, cc):
        v = self.eval(s.value, cc) if s.value is not None else Const(None)
        guards = tuple(f.cond for f in self.frames[cc.__dict__.get("frames0", 0):] if f.kind == "guard")
        cc.returns.append((guards, v))
        if not self._under_local_guard(cc):
            cc.done = True
        else:
            cc.partial_return = True
            raise _BranchExit()

    def _under_local_guard(self, cc):
        return len(self.frames) > cc.__dict__.get("frames0", 0) and any(
            f.kind in ("guard", "loop") for f in self.frames[cc.__dict__.get("frames0", 0):])

    def st_Raise(self, s, cc):
        kind = getattr(self, "_handling", None) or "Exception"      # a bare `raise` inside a handler re-raises what was caught
        if s.exc is not None:
            e = s.exc
            if isinstance(e, ast.Call):
                # the arguments of the exception are evaluated first: a failing lookup inside the message raises instead of the intended error
                n0 = len(self.raises)
                for a_ in list(e.args) + [k_.value for k_ in e.keywords]:
                    try:
                        self.eval(a_, cc)
                    except _BranchExit:
                        raise
                    except Exception:
                        pass
                if len(self.raises) > n0:
                    if not self._under_local_guard(cc):
                        cc.done = True
                        return
                    raise _BranchExit()
                e = e.func
            kind = src(e)
        self.raises.append((kind, self.guards(), self.where()))
        if not self._under_local_guard(cc):
            cc.done = True
        else:
            raise _BranchExit()

    def st_Assign(self, s, cc):
        # x[k] = x[k] + c   is the element update   x[k] += c
        if len(s.targets) == 1 and isinstance(s.targets[0], ast.Subscript) and isinstance(s.value, ast.BinOp):
            t_txt = src(s.targets[0])
            if src(s.value.left) == t_txt:
                return self.st_AugAssign(ast.copy_location(ast.AugAssign(target=s.targets[0], op=s.value.op, value=s.value.right), s), cc)
            if isinstance(s.value.op, (ast.Add, ast.Mult)) and src(s.value.right) == t_txt:
                return self.st_AugAssign(ast.copy_location(ast.AugAssign(target=s.targets[0], op=s.value.op, value=s.value.left), s), cc)
        v = self.eval(s.value, cc)
        for t in s.targets:
            self.assign(t, v, cc, s)

    def st_AnnAssign(self, s, cc):
        if s.value is not None:
            self.assign(s.target, self.eval(s.value, cc), cc, s)

    def st_AugAssign(self, s, cc):
        cur = self.eval(_as_load(s.target), cc)
        rhs = self.eval(s.value, cc)
        # in-place on mutable array-like attribute: x.data /= y  -> still store (aliases share the object)
        if isinstance(cur, ListV) and isinstance(s.op, ast.Add):
            self.list_extend(cur, rhs)
            return
        if isinstance(s.target, ast.Subscript):
            base = self.eval(s.target.value, cc)
            if isinstance(base, ObjV):
                idx = self.eval_index(s.target.slice, cc)
                base.stores.append((tuple(self.frames), idx, rhs, type(s.op).__name__, s))
                self._touch(base)
                return
            if isinstance(s.target.value, ast.Attribute) and s.target.value.attr == "data":
                owner = self.eval(s.target.value.value, cc)
                if isinstance(owner, ObjV) and owner.ext == "sparse":
                    idx = self.eval_index(s.target.slice, cc)
                    owner.stores.append((tuple(self.frames), TupleV([Const("data"), idx]), rhs, type(s.op).__name__, s))
                    self._touch(owner)
                    return
        new = self.binop(s.op, cur, rhs, s)
        self.assign(s.target, new, cc, s)

    def assign(self, target, v, cc, stmt=None):
        if isinstance(target, ast.Name):
            cc.env[target.id] = v
        elif isinstance(target, (ast.Tuple, ast.List)):
            items = self.unpack(v, len(target.elts), stmt)
            for t, x in zip(target.elts, items):
                if isinstance(t, ast.Starred):
                    self.assign(t.value, Top("starred unpack"), cc, stmt)
                else:
                    self.assign(t, x, cc, stmt)
        elif isinstance(target, ast.Attribute):
            base = self.eval(target.value, cc)
            if isinstance(base, ObjV):
                if self.guards_local(cc) and target.attr in base.attrs:
                    old = base.attrs[target.attr]
                    if vkey(old) != vkey(v):
                        v = Term("phi", [TupleV([TupleV(list(self.guards())), v]), TupleV([TupleV([]), old])])
                base.attrs[target.attr] = v
                base.log.append(("setattr", target.attr, tuple(self.frames), stmt))
            else:
                self.note(f"attribute store on {type(base).__name__} in {self.where()}: {src(target)}")
        elif isinstance(target, ast.Subscript):
            base = self.eval(target.value, cc)
            idx = self.eval_index(target.slice, cc)
            if isinstance(base, ObjV):
                base.stores.append((tuple(self.frames), idx, v, None, stmt))
                self._touch(base)
            elif isinstance(base, DictV):
                if isinstance(idx, Const):
                    base.d[idx.v] = v
                elif isinstance(idx, TupleV) and self.transfer.dict_key(idx) is not None:
                    base.d[self.transfer.dict_key(idx)] = v
                base.stores.append((tuple(self.frames), idx, v, None, stmt))
            elif isinstance(base, ListV):
                base.log.append(("setitem", idx, v, tuple(self.frames)))
                self._list_setitem(base, idx, v)
            elif isinstance(base, Term) and base.op == "arritem" and isinstance(base.kw.get("arr"), ObjV):
                arr = base.kw["arr"]
                full_ = isinstance(idx, Term) and idx.op == "slice" and all(isinstance(y_, Const) and y_.v is None for y_ in idx.args)
                # X[i][:] = v  (also through a row view obtained by iterating X) is the row store X[i] = v
                arr.stores.append((tuple(self.frames), base.args[1] if full_ else TupleV([base.args[1], idx]), v, None, stmt))
                self._touch(arr)
            elif isinstance(base, (Grid, Term, Num)):
                # functional arrays: rebind the plain name to a 'setitem' term (sound only if the value has no alias,
                # which holds for values produced by pure library calls)
                if isinstance(target.value, ast.Name):
                    cc.env[target.value.id] = Term("setitem", [base, idx, v])
                else:
                    root = _root_name(target)
                    if root:
                        cc.env[root] = Top(f"in-place store into immutable abstract array: {src(target)}")
            else:
                root = _root_name(target)
                if root and not isinstance(base, Top):
                    cc.env[root] = Top(f"store into {type(base).__name__}")
        else:
            self.note(f"unmodelled assignment target {type(target).__name__}")

    def guards_local(self, cc):
        return any(f.kind == "guard" for f in self.frames[cc.__dict__.get("frames0", 0):])

    def _list_setitem(self, lst: ListV, idx, v):
        fl = flat_elems(lst.items)
        if fl is not None and isinstance(idx, Num) and idx.p.is_const():
            k = int(idx.p.as_const())
            if -len(fl) <= k < len(fl):
                lst.items[k] = Elem(v)
                return
        lst.items = [Splice(Top("list element store"))]

    def unpack(self, v, n, stmt=None) -> List[V]:
        if isinstance(v, TupleV):
            if len(v.items) == n:
                return list(v.items)
            self.raises.append(("ValueError", self.guards(), f"{self.where()}: unpack {len(v.items)} into {n}"))
            return [Top("unpack arity")] * n
        if isinstance(v, ListV):
            ex = expand_const_loops(v.items)
            fl = flat_elems(ex)
            if fl is not None and len(fl) == n:
                return fl
            # n guarded single elements unpacked into n names: reaching the next statement implies every guard held
            if len(ex) == n and all(isinstance(g, Guard) and len(g.items) == 1 and isinstance(g.items[0], Elem) for g in ex):
                if self._len_guarded(v, n):
                    self.events.append(("unpack_implies", tuple(g.cond for g in ex), self.where(), tuple(self.frames)))
                    return [g.items[0].value for g in ex]
                self.events.append(("unpack_unguarded", tuple(g.cond for g in ex), self.where(), stmt))
                self.raises.append(("ValueError", self.guards(), f"{self.where()}: unpacking a filtered sequence of at most "
                                                                 f"{n} elements into {n} names without a length check"))
                return [Top("unpack of a filtered sequence without a dominating length check")] * n
            if fl is not None:
                self.raises.append(("ValueError", self.guards(), f"{self.where()}: unpack {len(fl)} values into {n}"))
                return [Top("unpack arity")] * n
            if v.kind == "gen" or fl is None:
                return [Term("unpack", [v, Num(k)]) for k in range(n)]
        if isinstance(v, Grid) and v.ndim >= 1:
            return [self.subscript(v, Num(k), None) for k in range(n)]
        if isinstance(v, Term):
            return [Term("item", [v, Num(k)]) for k in range(n)]
        if isinstance(v, Top):
            return [Top(v.reason)] * n
        return [Top(f"unpack of {type(v).__name__}")] * n

    def _len_guarded(self, lst: ListV, n: int) -> bool:
        """is there an enclosing guard that is false for len(lst) = n-1 and true for len(lst) = n ?"""
        atom = ("app", "len", Poly.atom(("sym", f"list#{lst.uid}")))
        for fr in self.frames:
            if fr.kind != "guard":
                continue
            c = fr.cond
            if atom not in atoms_of(c):
                continue
            lo = self.decide(subst(c, {atom: Poly.const(n - 1)}))
            hi = self.decide(subst(c, {atom: Poly.const(n)}))
            if lo is False and hi is True:
                return True
        return False

    # ---- control flow
    def st_If(self, s, cc):
        c = self.eval(s.test, cc)
        d = self.decide(c)
        if d is True:
            self.exec_block(s.body, cc)
            return
        if d is False:
            self.exec_block(s.orelse, cc)
            return
        cond = c if isinstance(c, CondV) else CondV("truthy", c)
        self._guarded(cond, s.body, cc)
        if s.orelse:
            self._guarded(CondV("not", cond), s.orelse, cc)
        # join variable bindings
        self._join_after_branches(cc)

    def _guarded(self, cond, body, cc):
        if "frames0" not in cc.__dict__:
            cc.frames0 = len(self.frames)
        fr = Frame("guard", cond=cond)
        self.frames.append(fr)
        env_before = dict(cc.env)
        try:
            self.exec_block(body, cc)
        except _BranchExit:
            pass
        finally:
            self.frames.pop()
        # variables changed inside the branch become phi of (cond:new, else:old)
        changed = {}
        for k, v in cc.env.items():
            old = env_before.get(k)
            if old is None:
                changed[k] = ("new", v)
            elif old is not v and vkey(old) != vkey(v):
                changed[k] = ("chg", v, old)
        pend = cc.__dict__.setdefault("pending_phi", [])
        pend.append((cond, changed, env_before))
        # restore env for the sibling branch
        cc.env.clear()
        cc.env.update(env_before)

    def _join_after_branches(self, cc):
        pend = cc.__dict__.get("pending_phi", [])
        if not pend:
            return
        # collect all names assigned in any branch
        names = {}
        for cond, changed, before in pend:
            for k, info in changed.items():
                names.setdefault(k, []).append((cond, info[1]))
        nbranches = len(pend)
        has_else = nbranches >= 2
        for k, alts in names.items():
            old = cc.env.get(k)
            keys = {vkey(v) for _, v in alts}
            if len(alts) == nbranches and has_else and len(keys) == 1:
                cc.env[k] = alts[0][1]
            else:
                parts = [TupleV([c, v]) for c, v in alts]
                if old is not None and not (len(alts) == nbranches and has_else):
                    parts.append(TupleV([CondV("opaque", "otherwise"), old]))
                if any(isinstance(v, (ListV, ObjV)) for _, v in alts) or isinstance(old, (ListV, ObjV)):
                    # mutable alternatives: keep the object if unique, else Top
                    objs = {id(v) for _, v in alts} | ({id(old)} if old is not None and not (len(alts) == nbranches and has_else) else set())
                    if len(objs) == 1:
                        cc.env[k] = alts[0][1]
                    else:
                        cc.env[k] = Term("phi", parts)
                else:
                    cc.env[k] = Term("phi", parts)
        cc.pending_phi = []

    def st_For(self, s, cc):
        it = self.eval(s.iter, cc)
        cc.__dict__["loop_broke"] = False
        self.run_loop(s.target, it, s.body, cc, s)
        broke = cc.__dict__.get("loop_broke")
        if s.orelse and broke is False:
            self.exec_block(s.orelse, cc)
        elif s.orelse and broke is None:
            self.note(f"for/else after a conditional break not interpreted in {self.where()}")

    def st_While(self, s, cc):
        # not part of any kernel: everything assigned becomes Top
        for n in _assigned_names(s.body):
            cc.env[n] = Top("while loop")
        self.note(f"while loop skipped in {self.where()}")

    def st_With(self, s, cc):
        for item in s.items:
            v = self.eval(item.context_expr, cc)
            if item.optional_vars is not None:
                self.assign(item.optional_vars, v, cc, s)
        self.exec_block(s.body, cc)

    _EXC_BASES = {"KeyError": ("LookupError",), "IndexError": ("LookupError",), "FileNotFoundError": ("OSError", "IOError"),
                  "ZeroDivisionError": ("ArithmeticError",), "OverflowError": ("ArithmeticError",), "FloatingPointError": ("ArithmeticError",),
                  "UnicodeDecodeError": ("ValueError", "UnicodeError"), "NotImplementedError": ("RuntimeError",), "ModuleNotFoundError": ("ImportError",)}

    def st_Try(self, s, cc):
        """exceptions RAISED (recorded) in the body and named by a handler are caught there: the raise is withdrawn and the handler runs -
        unconditionally when the body certainly ended in that raise, under an opaque condition otherwise.  Handlers of exceptions the
        body is not seen to raise are not entered (the kernel does not model exceptions thrown inside library calls)."""
        n0 = len(self.raises)
        was_done = cc.done
        nret0 = len(cc.returns)
        entry_guards = self.guards()
        env_entry = dict(cc.env)
        self.exec_block(s.body, cc)
        caught_any = False
        for h in s.handlers:
            if h.type is None:
                names = None
            else:
                ts = h.type.elts if isinstance(h.type, ast.Tuple) else [h.type]
                names = {src(t).split(".")[-1] for t in ts}
            def match(kind):
                k = kind.split(".")[-1]
                return names is None or k in names or bool(names & {"Exception", "BaseException"}) or \
                    any(b in names for b in self._EXC_BASES.get(k, ()))
            caught = [r for r in self.raises[n0:] if match(r[0])]
            if not caught:
                continue
            caught_any = True
            for r in caught:
                self.raises.remove(r)
            certain = cc.done and not was_done and len(cc.returns) == nret0 and any(r[1] == entry_guards for r in caught)
            if not certain and not cc.done and len(s.body) == 1 and any(r[1] == entry_guards and r[0] == "AttributeError" for r in caught):
                # `try: x = self._memo  except AttributeError: ...` on an object whose attributes are known: the one statement of the body
                # certainly failed, nothing it bound is kept
                certain = True
                cc.env.clear()
                cc.env.update(env_entry)
            if h.name:
                cc.env[h.name] = Term("exception", [Const(caught[0][0])])
            prev_h = getattr(self, "_handling", None)
            self._handling = caught[0][0]
            try:
                if certain:
                    cc.done = False
                    self.exec_block(h.body, cc)
                else:
                    self._guarded(CondV("opaque", "caught", Const(caught[0][0])), h.body, cc)
                    self._join_after_branches(cc)
            finally:
                self._handling = prev_h
        if s.orelse and not caught_any:
            self.exec_block(s.orelse, cc)
        if s.finalbody:
            self.exec_block(s.finalbody, cc)

    def st_Break(self, s, cc):
        cc.__dict__["saw_break"] = True
        cc.__dict__["break_depth"] = sum(1 for f in self.frames if f.kind == "guard")
        raise _BranchExit()

    def st_Continue(self, s, cc):
        conds = []
        for f in reversed(self.frames):
            if f.kind == "loop":
                break
            if f.kind == "guard":
                conds.append(f.cond)
        if conds:
            cc.__dict__.setdefault("cont_conds", []).append((self._innermost_loop_fid(), tuple(reversed(conds))))
        raise _BranchExit()

    # ------------------------------------------------------------------ loops
    def iter_desc(self, it: V):
        """-> (extent Poly, elem_fn(idx Poly)->V, info) or None"""
        if isinstance(it, Term) and it.op == "range":
            a = [x.p for x in it.args]
            if len(a) == 1:
                return a[0], (lambda i: Num(i)), ("range", Poly.const(0), a[0], Poly.const(1))
            if len(a) == 2:
                return a[1] - a[0], (lambda i, a0=a[0]: Num(a0 + i)), ("range", a[0], a[1], Poly.const(1))
            if len(a) == 3:
                ext = Poly.app("ceildiv", a[1] - a[0], a[2])
                if a[2] == Poly.const(1):
                    ext = a[1] - a[0]
                return ext, (lambda i, a0=a[0], st=a[2]: Num(a0 + st * i)), ("range", a[0], a[1], a[2])
        if isinstance(it, Term) and it.op == "enumerate" and isinstance(it.args[0], Term) and it.args[0].op == "gslice":
            gs = it.args[0]
            start = it.args[1] if len(it.args) > 1 else None
            if start is None or vkey(start) != vkey(gs.args[1]):
                return None
            inner = self.iter_desc(gs.args[0])
            if inner is None:
                return None
            ext, fn, info = inner
            lo_, hi_ = gs.kw["band"].items
            return ext, (lambda i: TupleV([Num(i), fn(i)])), ("band", lo_.p if isinstance(lo_, Num) else None, hi_.p if isinstance(hi_, Num) else None)
        if isinstance(it, Term) and it.op == "enumerate":
            inner = self.iter_desc(it.args[0])
            if inner is None:
                return None
            ext, fn, info = inner
            if len(it.args) > 1 and not isinstance(it.args[1], Num):
                return None
            start = it.args[1].p if len(it.args) > 1 else Poly.const(0)
            return ext, (lambda i: TupleV([Num(start + i), fn(i)])), ("enumerate", info)
        if isinstance(it, Term) and it.op == "zip":
            inners = [self.iter_desc(a) for a in it.args]
            if any(x is None for x in inners):
                return None
            exts = [x[0] for x in inners]
            ext = exts[0]
            for e2 in exts[1:]:
                if e2 == ext:
                    continue
                d = ext - e2
                if d.is_const():
                    ext = e2 if d.as_const() > 0 else ext
                else:
                    ext = Poly.app("min", ext, e2)
            return ext, (lambda i: TupleV([x[1](i) for x in inners])), ("zip", [x[2] for x in inners], exts)
        if isinstance(it, Term) and it.op == "combinations2":
            n = it.args[0].p
            pair_idx = self.fresh_idx("pair")
            ext = n * (n - 1) / 2
            a = Poly.app("comb_lo", Poly.atom(pair_idx))
            b = Poly.app("comb_hi", Poly.atom(pair_idx))
            return ext, (lambda i: TupleV([Num(Poly.app("comb_lo", i)), Num(Poly.app("comb_hi", i))])), ("combinations", n)
        if isinstance(it, Grid) and it.ndim >= 1:
            it = self.transfer.simplify_pw(self, it)
            if len(it.dims[0]) == 1:
                idx0, ext = it.dims[0][0]
                rest = it.dims[1:]

                def fn(i, it=it, idx0=idx0, rest=rest):
                    el = subst(it.elem, {idx0: i})
                    if rest:
                        return Grid(rest, el)
                    return el
                return ext, fn, ("grid", it)
            # product dim: iterate over the flat index f; axis indices are its mixed-radix digits
            ext = it.dim_len(0)
            axes = it.dims[0]
            rest = it.dims[1:]

            def fn(i, it=it, axes=axes, rest=rest):
                sub = {}
                q = i
                for k in range(len(axes) - 1, -1, -1):
                    a, e = axes[k]
                    if k == 0:
                        sub[a] = q
                    else:
                        sub[a] = Poly.app("mod", q, e)
                        q = Poly.app("div", q, e)
                el = subst(it.elem, sub)
                return Grid(rest, el) if rest else el
            return ext, fn, ("gridflat", it)
        if isinstance(it, ListV):
            ln = items_len(it.items)
            if len(it.items) == 1 and isinstance(it.items[0], Loop) and len(it.items[0].items) == 1 and \
                    isinstance(it.items[0].items[0], Elem):
                lp = it.items[0]
                return lp.extent, (lambda i, lp=lp: subst(lp.items[0].value, {lp.idx: i})), \
                    (lp.info if isinstance(lp.info, tuple) and lp.info and lp.info[0] == "range" else ("list", it))
            fl = flat_elems(it.items)
            if fl is not None and len(fl) >= 0:
                return Poly.const(len(fl)), None, ("literal", fl)
            if ln is not None:
                return ln, (lambda i, it=it: Term("listitem", [it, Num(i)])), ("listgeneric", it)
            return Poly.app("len", Poly.atom(("sym", f"list#{it.uid}"))), (lambda i, it=it: Term("listitem", [it, Num(i)])), \
                ("listguarded", it)
        if isinstance(it, ObjV) and it.ext == "ndarray" and "dims" in it.attrs and len(it.attrs["dims"].items_p) == 2:
            d0, d1 = it.attrs["dims"].items_p

            def fn_arr(i, it=it, d1=d1):
                fill_ = it.attrs.get("fill")
                if not it.stores and (fill_ is None or (isinstance(fill_, Term) and fill_.op == "uninitialised")):
                    # rows of an array that is still being filled (np.empty): a row VIEW, `row[:] = v` writes row i of the array
                    return Term("arritem", [Const(it.uid), Num(i)], {"arr": it})
                c = self.fresh_idx("c")
                return Grid([[(c, d1)]], Num(Poly.app("arrat", f"arr#{it.uid}", i, Poly.atom(c))))
            return d0, fn_arr, ("ndarray", it)
        if isinstance(it, TupleV):
            return Poly.const(len(it.items)), None, ("literal", list(it.items))
        if isinstance(it, Const) and isinstance(it.v, tuple):
            return Poly.const(len(it.v)), None, ("literal", [_const_to_v(x) for x in it.v])
        if isinstance(it, Term) and it.op in ("m.split", "str.split"):
            return Poly.app("ntokens", vstr(it.args[0])[:40]), (lambda i, it=it: Term("token", [it.args[0], Num(i)])), ("tokens", it)
        if isinstance(it, Term) and it.op in ("iterable",):
            ext = it.kw.get("len")
            return ext.p, (lambda i, it=it: Term("item", [it, Num(i)])), ("iterable", it)
        return None

    def run_loop(self, target, it, body, cc, node):
        if isinstance(it, ListV) and not _simple_list(it) and flat_elems(it.items) is None:
            # iterate structurally over the skeleton (loops / guards of the producer are re-entered)
            assigned = _assigned_names(body)
            for n in assigned:
                if n in cc.env and isinstance(cc.env[n], Num):
                    cc.env[n] = Top(f"variable {n} carried through a loop over a structured list")

            def body_fn():
                try:
                    self.exec_block(body, cc)
                except _BranchExit:
                    pass
            self._map_skeleton(it.items, target, body_fn, cc, None)
            return
        desc = self.iter_desc(it)
        if desc is None:
            reason = top_reason(it) if is_top(it) else f"iteration over {vstr(it)[:80]}"
            for n in _assigned_names(body) | _target_names(target):
                cc.env[n] = Top(f"loop not summarised ({reason})")
            self._poison_mutated(body, cc, f"loop not summarised ({reason})")
            self.note(f"loop not summarised in {self.where()}: {src(node.iter) if hasattr(node, 'iter') else ''}: {reason}")
            return
        ext, fn, info = desc
        if fn is None:
            # literal sequence: unroll; an unconditional `break` (no undecided guard between the loop and the break) ends the loop
            g0 = sum(1 for f in self.frames if f.kind == "guard")
            cc.__dict__["loop_broke"] = False
            for x in info[1]:
                self.assign(target, x, cc, node)
                cc.__dict__["break_depth"] = None
                try:
                    self.exec_block(body, cc)
                except _BranchExit:
                    pass
                bd = cc.__dict__.get("break_depth")
                if bd is not None:
                    if bd == g0:
                        cc.__dict__["loop_broke"] = True
                        break
                    # a break under an undecided condition: later iterations and the else-branch are only conditionally executed
                    for n in _assigned_names(body):
                        cc.env[n] = Top("loop left by a break under an undecided condition")
                    cc.__dict__["loop_broke"] = None
                    break
            return
        if "frames0" not in cc.__dict__:
            cc.frames0 = len(self.frames)
        idx = self.fresh_idx(_hint(target))
        fr = Frame("loop", idx=idx, extent=ext, info=info)
        # accumulators: names assigned in the body that exist before the loop
        assigned = _assigned_names(body)
        acc = {}
        for n in assigned:
            if n in cc.env and isinstance(cc.env[n], Num):
                a = ("sym", f"{n}@loop{fr.fid}")
                acc[n] = (a, cc.env[n])
                cc.env[n] = Num(Poly.atom(a))
        self.frames.append(fr)
        self.assign(target, fn(Poly.atom(idx)), cc, node)
        nband = 0
        if info and info[0] == "band":
            # a window of the sequence scanned with its own offset: the full loop under the band condition
            if info[1] is not None:
                self.frames.append(Frame("guard", cond=CondV("cmp", ">=", Poly.atom(idx), info[1])))
                nband += 1
            if info[2] is not None:
                self.frames.append(Frame("guard", cond=CondV("cmp", "<", Poly.atom(idx), info[2])))
                nband += 1
        try:
            self.exec_block(body, cc)
        except _BranchExit:
            pass
        finally:
            for _ in range(nband + 1):
                self.frames.pop()
        # summarise accumulators
        mapping = {}
        after = {}
        for n, (a, init) in acc.items():
            new = cc.env.get(n)
            if isinstance(new, Num) and not new.p.has_top():
                delta = new.p - Poly.atom(a)
                if a not in delta.all_atoms_deep() and idx not in delta.all_atoms_deep() and \
                        not any(x[0] == "sym" and "@loop" in x[1] for x in delta.all_atoms_deep()):
                    mapping[a] = init.p + Poly.atom(idx) * delta
                    after[n] = Num(init.p + ext * delta)
                    continue
            mapping[a] = Poly.top(f"non-affine loop-carried variable {n}")
            after[n] = Top(f"non-affine loop-carried variable {n}")
        if mapping:
            for obj in fr.touched:
                if isinstance(obj, ListV):
                    subst_items(obj.items, mapping)
                elif isinstance(obj, ObjV):
                    obj.stores = [(f, subst(i, mapping), subst(v, mapping), aug, st) for (f, i, v, aug, st) in obj.stores]
            for k, v in list(cc.env.items()):
                if isinstance(v, (Num, CondV, TupleV, Term, Grid)):
                    cc.env[k] = subst(v, mapping)
            self.index_obligations = [(n_, w, (subst(l, mapping) if l is not None else None), subst(i, mapping), g, d)
                                      for (n_, w, l, i, g, d) in self.index_obligations]
        # propagate touched objects to the enclosing loop frame
        for outer in self.frames[::-1]:
            if outer.kind == "loop":
                for obj in fr.touched:
                    if obj not in outer.touched:
                        outer.touched.append(obj)
                break
        for n, v in after.items():
            cc.env[n] = v
        # other names assigned in the body hold a per-iteration value after the loop
        for n in assigned | _target_names(target):
            if n in acc:
                continue
            v = cc.env.get(n)
            if isinstance(v, (ListV, ObjV, DictV, FuncV, ClassV, ExtV)):
                continue
            if v is not None and idx in _atoms_of(v):
                cc.env[n] = Term("last_iteration", [v])

    def _poison_mutated(self, body, cc, reason):
        for n in ast.walk(ast.Module(body=body, type_ignores=[])):
            if isinstance(n, ast.Call) and isinstance(n.func, ast.Attribute) and n.func.attr in (
                    "append", "extend", "pop", "insert", "sort", "remove", "add", "update"):
                root = _root_name(n.func.value)
                if root and isinstance(cc.env.get(root), ListV):
                    cc.env[root].items = [Splice(Top(reason))]

    def _touch(self, obj):
        for fr in self.frames[::-1]:
            if fr.kind == "loop":
                if obj not in fr.touched:
                    fr.touched.append(obj)
                break

    # ------------------------------------------------------------------ list building
    def list_container(self, lst: ListV) -> list:
        """container (python list of items) into which an append under the current frames goes"""
        self._touch(lst)
        path = lst.open_path
        frames = [f for f in self.frames if f.fid >= getattr(lst, "born_fid", 0) or True]
        # only frames opened after the list was created matter
        frames = [f for f in self.frames if f.fid > lst.born]
        k = 0
        while k < len(path) and k < len(frames) and path[k][0] == frames[k].fid:
            k += 1
        del path[k:]
        cont = path[-1][1] if path else lst.items
        for f in frames[k:]:
            if f.kind == "loop":
                item = Loop(f.idx, f.extent, [], f.fid, f.info)
            else:
                item = Guard(f.cond, [], f.fid)
            cont.append(item)
            path.append((f.fid, item.items))
            cont = item.items
        return cont

    def new_list(self, items=None, kind="list") -> ListV:
        l = ListV(items if items is not None else [], kind)
        l.born = self.frames[-1].fid if self.frames else 0
        return l

    def list_append(self, lst: ListV, v: V):
        self.list_container(lst).append(Elem(v))

    def list_extend(self, lst: ListV, v: V):
        cont = self.list_container(lst)
        if isinstance(v, ListV):
            if v is lst:
                cont.extend(copy_items(v.items))
            else:
                cont.extend(copy_items(v.items))
        elif isinstance(v, TupleV):
            cont.extend(Elem(x) for x in v.items)
        elif isinstance(v, Grid) and v.ndim >= 1 and len(v.dims[0]) == 1:
            self._splice_into(cont, v)
        else:
            cont.append(Splice(v))

    # ------------------------------------------------------------------ decisions
    def decide(self, c: V):
        if isinstance(c, Const):
            return bool(c.v)
        if isinstance(c, Num) and c.p.is_const():
            return c.p.as_const() != 0
        if isinstance(c, CondV):
            d = self._decide_cond(c)
            if d is not None:
                return d
            h = self.hooks.decide(self, c)
            if h is not None:
                return h
            return None
        if isinstance(c, TupleV):
            return len(c.items) > 0
        if isinstance(c, ListV):
            fl = flat_elems(c.items)
            if fl is not None:
                return len(fl) > 0
            ln = items_len(c.items)
            if ln is not None:
                return self.decide(CondV("cmp", ">", ln, Poly.const(0)))
            return None
        if isinstance(c, (ObjV, FuncV, ClassV)):
            return True
        h = self.hooks.decide(self, CondV("truthy", c))
        return h

    def _decide_cond(self, c: CondV):
        if c.kind == "cmp":
            op, l, r = c.args
            d = l - r
            if d.is_const():
                x = d.as_const()
                return {"<": x < 0, "<=": x <= 0, ">": x > 0, ">=": x >= 0, "==": x == 0, "!=": x != 0}[op]
            if op == "==" and d.is_zero():
                return True
            return None
        if c.kind == "not":
            d = self.decide(c.args[0])
            return None if d is None else (not d)
        if c.kind == "and":
            res = True
            for a in c.args:
                d = self.decide(a)
                if d is False:
                    return False
                if d is None:
                    res = None
            return res
        if c.kind == "or":
            res = False
            for a in c.args:
                d = self.decide(a)
                if d is True:
                    return True
                if d is None:
                    res = None
            return res
        if c.kind == "consteq":
            return c.args[0]
        return None

    # ------------------------------------------------------------------ expressions
    def eval(self, e, cc: CallCtx) -> V:
        m = getattr(self, "ev_" + type(e).__name__, None)
        if m is None:
            return Top(f"unmodelled expression {type(e).__name__}: {src(e)[:60]}")
        try:
            return m(e, cc)
        except _BranchExit:
            raise
        except RecursionError:
            return Top("recursion limit")

    def ev_Constant(self, e, cc):
        v = e.value
        if isinstance(v, bool) or v is None or isinstance(v, (str, bytes)) or v is Ellipsis:
            return Const(v)
        if isinstance(v, (int, float)):
            return Num(Poly.const(v))
        return Const(v)

    def ev_Name(self, e, cc):
        if e.id in cc.env:
            return cc.env[e.id]
        # closure
        fi = cc.fi
        if fi is not None and hasattr(fi, "_closure_env") and e.id in fi._closure_env:
            return fi._closure_env[e.id]
        r = self.repo.resolve_name(cc.module, e.id)
        if r is not None:
            return self._resolved_to_value(r, e.id)
        if e.id in BUILTINS:
            return ExtV("builtins." + e.id)
        if e.id in ("True", "False", "None"):
            return Const({"True": True, "False": False, "None": None}[e.id])
        return Top(f"unbound name {e.id}")

    def _resolved_to_value(self, r, name):
        if r is None:
            return Top(f"unresolved {name}")
        kind = r[0]
        if kind == "func":
            return FuncV(r[1])
        if kind == "class":
            return ClassV(r[1])
        if kind == "module":
            return ExtV(r[1].name)
        if kind == "ext":
            if r[1] in EXT_CONST_ATOMS:
                return Num(EXT_CONST_ATOMS[r[1]])
            return ExtV(r[1])
        if kind == "const":
            m, expr = r[1]
            try:
                val = self.repo.const_value(m, expr)
                return _const_to_v(val)
            except KeyError:
                return self.eval_in(expr, m, {})
        return Top(f"unresolved {name}")

    def ev_Tuple(self, e, cc):
        items = []
        for x in e.elts:
            if isinstance(x, ast.Starred):
                v = self.eval(x.value, cc)
                if isinstance(v, TupleV):
                    items.extend(v.items)
                elif isinstance(v, ListV) and flat_elems(v.items) is not None:
                    items.extend(flat_elems(v.items))
                else:
                    return Top("starred in tuple")
            else:
                items.append(self.eval(x, cc))
        return TupleV(items)

    def ev_List(self, e, cc):
        lst = self.new_list()
        for x in e.elts:
            if isinstance(x, ast.Starred):
                v = self.eval(x.value, cc)
                self._splice_into(lst.items, v)
            else:
                lst.items.append(Elem(self.eval(x, cc)))
        return lst

    def _splice_into(self, items, v):
        if isinstance(v, ListV):
            items.extend(copy_items(v.items))
        elif isinstance(v, TupleV):
            items.extend(Elem(x) for x in v.items)
        elif isinstance(v, Grid) and v.ndim >= 1 and len(v.dims[0]) == 1:
            idx0, ext = v.dims[0][0]
            if v.ndim == 1 and isinstance(v.elem, Term) and v.elem.op == "piecewise":
                segs = self.transfer.segments(self, v)
                if segs is not None:
                    for st, ln, fn in segs:
                        if ln == Poly.const(1):
                            items.append(Elem(fn(Poly.const(0))))
                        else:
                            j = self.fresh_idx("i")
                            items.append(Loop(j, ln, [Elem(fn(Poly.atom(j)))], None, ("segment", v)))
                    return
            el = Grid(v.dims[1:], v.elem) if v.ndim > 1 else v.elem
            items.append(Loop(idx0, ext, [Elem(el)], None, ("grid", v)))
        elif isinstance(v, Grid) and v.ndim >= 1 and len(v.dims[0]) > 1:
            # product dimension: nested loops, major axis outermost
            el = Grid(v.dims[1:], v.elem) if v.ndim > 1 else v.elem
            cur = [Elem(el)]
            for a, e in reversed(v.dims[0]):
                cur = [Loop(a, e, cur, None, ("grid", v))]
            items.extend(cur)
        else:
            items.append(Splice(v))

    def ev_Set(self, e, cc):
        lst = self.new_list(kind="set")
        for x in e.elts:
            lst.items.append(Elem(self.eval(x, cc)))
        return lst

    def ev_Dict(self, e, cc):
        d = DictV()
        for k, v in zip(e.keys, e.values):
            if k is None:
                return Top("dict unpacking")
            kv = self.eval(k, cc)
            vv = self.eval(v, cc)
            if isinstance(kv, Const):
                d.d[kv.v] = vv
            elif isinstance(kv, Num) and kv.p.is_const():
                d.d[kv.p.as_const()] = vv
            else:
                d.stores.append((tuple(self.frames), kv, vv, None, e))
        d.complete = not d.stores
        return d

    def ev_JoinedStr(self, e, cc):
        parts = []
        symbolic = False
        for v in e.values:          # every field is evaluated (a failing lookup in a later field still raises)
            if isinstance(v, ast.Constant):
                parts.append(str(v.value))
            else:
                x = self.eval(v.value, cc)
                if isinstance(x, Const):
                    parts.append(str(x.v))
                elif isinstance(x, Num) and x.p.is_const():
                    c = x.p.as_const()
                    parts.append(str(int(c)) if c.denominator == 1 else str(float(c)))
                else:
                    symbolic = True
        if symbolic:
            return Term("fstring", [Const(src(e))])
        return Const("".join(parts))

    def ev_UnaryOp(self, e, cc):
        v = self.eval(e.operand, cc)
        if isinstance(e.op, ast.USub):
            return self.map_num(v, lambda p: -p, "neg")
        if isinstance(e.op, ast.UAdd):
            return v
        if isinstance(e.op, ast.Not):
            d = self.decide(v)
            if d is not None:
                return Const(not d)
            return CondV("not", v if isinstance(v, CondV) else CondV("truthy", v))
        if isinstance(e.op, ast.Invert):
            if isinstance(v, CondV):
                return CondV("not", v)
            if isinstance(v, Grid):
                return Grid(v.dims, CondV("not", v.elem if isinstance(v.elem, CondV) else CondV("truthy", v.elem)))
            if isinstance(v, Term):
                return Term("invert", [v])
        return Top(f"unary {type(e.op).__name__} on {type(v).__name__}")

    def ev_BinOp(self, e, cc):
        l = self.eval(e.left, cc)
        r = self.eval(e.right, cc)
        return self.binop(e.op, l, r, e)

    def ev_BoolOp(self, e, cc):
        kind = "and" if isinstance(e.op, ast.And) else "or"
        vals = []
        for x in e.values:
            v = self.eval(x, cc)
            d = self.decide(v)
            if kind == "and" and d is False:
                return v if not vals else Const(False)
            if kind == "or" and d is True:
                # python returns the value itself
                return v if not vals else (v if all(self.decide(p) is False for p in vals) else Const(True))
            if d is None:
                vals.append(v if isinstance(v, CondV) else CondV("truthy", v))
            else:
                last_decided = v
        if not vals:
            return v
        if len(vals) == 1:
            return vals[0]
        return CondV(kind, *vals)

    def ev_Compare(self, e, cc):
        left = self.eval(e.left, cc)
        parts = []
        for op, comp in zip(e.ops, e.comparators):
            right = self.eval(comp, cc)
            parts.append(self.compare(op, left, right, e))
            left = right
        if len(parts) == 1:
            return parts[0]
        ds = [self.decide(p) for p in parts]
        if all(d is True for d in ds):
            return Const(True)
        if any(d is False for d in ds):
            return Const(False)
        return CondV("and", *[p if isinstance(p, CondV) else CondV("truthy", p) for p in parts])

    def compare(self, op, l, r, node=None) -> V:
        opname = {ast.Lt: "<", ast.LtE: "<=", ast.Gt: ">", ast.GtE: ">=", ast.Eq: "==", ast.NotEq: "!="}.get(type(op))
        if isinstance(op, (ast.Is, ast.IsNot)):
            neg = isinstance(op, ast.IsNot)
            if isinstance(l, Const) and isinstance(r, Const):
                return Const((l.v is r.v or l.v == r.v) != neg)
            if isinstance(r, Const) and r.v is None:
                if isinstance(l, (Num, Grid, ListV, ObjV, TupleV, FuncV, ClassV, DictV, CondV)):
                    return Const(neg)
                if isinstance(l, Term) and l.op not in ("phi",):
                    return Const(neg)
            return CondV("is" if not neg else "isnot", l, r)
        if isinstance(op, (ast.In, ast.NotIn)):
            neg = isinstance(op, ast.NotIn)
            res = self._contains(l, r)
            if res is not None:
                return Const(res != neg)
            c = CondV("in", l, r)
            return CondV("not", c) if neg else c
        if opname is None:
            return Top("compare op")
        if isinstance(l, Const) and isinstance(r, Const) and opname in ("==", "!="):
            return Const((l.v == r.v) == (opname == "=="))
        if isinstance(l, (Const,)) and l.v is None and opname in ("<", "<=", ">", ">=") or \
                isinstance(r, Const) and r.v is None and opname in ("<", "<=", ">", ">="):
            self.raises.append(("TypeError", self.guards(), f"{self.where()}: ordering comparison with None"))
            return Top("ordering comparison with None")
        if isinstance(l, Const) and isinstance(r, Num) or isinstance(l, Num) and isinstance(r, Const):
            if opname == "==":
                return Const(False)
            if opname == "!=":
                return Const(True)
        if isinstance(l, Num) and isinstance(r, Num):
            c = CondV("cmp", opname, l.p, r.p)
            d = self._decide_cond(c)
            if d is not None:
                return Const(d)
            return c
        if isinstance(l, TupleV) and isinstance(r, TupleV) and opname in ("==", "!="):
            if len(l.items) != len(r.items):
                return Const(opname == "!=")
            parts = [self.compare(ast.Eq(), a, b) for a, b in zip(l.items, r.items)]
            ds = [self.decide(p) for p in parts]
            if all(d is True for d in ds):
                return Const(opname == "==")
            if any(d is False for d in ds):
                return Const(opname == "!=")
            return CondV("opaque", opname, l, r)
        if isinstance(l, Grid) or isinstance(r, Grid):
            return self.elementwise2(l, r, lambda a, b: self.compare(op, a, b), "cmp")
        if isinstance(l, Top):
            return l
        if isinstance(r, Top):
            return r
        return CondV("opaque", opname, l, r)

    def _contains(self, item, cont):
        if isinstance(cont, (TupleV,)):
            if isinstance(item, Const):
                vals = [x for x in cont.items]
                if all(isinstance(x, Const) for x in vals):
                    return any(x.v == item.v for x in vals)
            if isinstance(item, Num) and item.p.is_const() and all(isinstance(x, Num) and x.p.is_const() for x in cont.items):
                return any(x.p == item.p for x in cont.items)
        if isinstance(cont, Const) and isinstance(cont.v, (tuple, str)) and isinstance(item, Const):
            return item.v in cont.v
        if isinstance(cont, Const) and isinstance(cont.v, tuple) and isinstance(item, Num) and item.p.is_const():
            return any(Poly.const(x) == item.p for x in cont.v if isinstance(x, (int, float)))
        if isinstance(cont, ListV):
            fl = flat_elems(cont.items)
            if fl is not None and isinstance(item, Const) and all(isinstance(x, Const) for x in fl):
                return any(x.v == item.v for x in fl)
            if fl is not None and isinstance(item, Num) and item.p.is_const() and all(isinstance(x, Num) and x.p.is_const() for x in fl):
                return any(x.p == item.p for x in fl)
        if isinstance(cont, DictV) and isinstance(item, Const) and self.transfer.dict_stores_exact(cont):
            return item.v in cont.d
        if isinstance(cont, DictV) and isinstance(item, TupleV) and self.transfer.dict_key(item) is not None and self.transfer.dict_stores_exact(cont):
            return self.transfer.dict_key(item) in cont.d
        return None

    def ev_IfExp(self, e, cc):
        c = self.eval(e.test, cc)
        d = self.decide(c)
        if d is True:
            return self.eval(e.body, cc)
        if d is False:
            return self.eval(e.orelse, cc)
        a = self.eval(e.body, cc)
        b = self.eval(e.orelse, cc)
        if vkey(a) == vkey(b):
            return a
        cond = c if isinstance(c, CondV) else CondV("truthy", c)
        return Term("phi", [TupleV([cond, a]), TupleV([CondV("not", cond), b])])

    def ev_Lambda(self, e, cc):
        return LambdaV(e, cc.env, cc.module)

    def ev_Attribute(self, e, cc):
        base = self.eval(e.value, cc)
        return self.getattr(base, e.attr, e, cc)

    def getattr(self, base: V, name: str, node=None, cc=None) -> V:
        if isinstance(base, Top):
            return base
        h = self.hooks.attr(self, base, name, node)
        if h is not None:
            return h
        if isinstance(base, ObjV):
            if name in base.attrs:
                return base.attrs[name]
            if base.cls is not None:
                fi = base.cls.find_method(name)
                if fi is not None:
                    if "property" in fi.decorators():
                        return self.call_function(fi, [], {}, self_obj=base, node=node)
                    return FuncV(fi, self_obj=base)
                ca = base.cls.find_class_attr(name)
                if ca is not None:
                    return self.eval_in(ca, base.cls.module, {})
                # forwarding __getattr__
                ga = base.cls.find_method("__getattr__")
                if ga is not None:
                    tgt = _forward_target(ga)
                    if tgt and tgt in base.attrs:
                        return self.getattr(base.attrs[tgt], name, node, cc)
                    if tgt:
                        return Top(f"forwarding target self.{tgt} not initialised on {base}")
                self.raises.append(("AttributeError", self.guards(), f"{self.where()}: {base.cls.name}.{name}"))
                return Top(f"attribute {name} undefined on {base.cls.name}")
            r = self.transfer.obj_attr(self, base, name, node)
            if r is not None:
                return r
            return BoundExt(base, name)
        if isinstance(base, ExtV):
            dotted = base.dotted + "." + name
            r = self.repo.resolve_dotted(dotted)
            if r is not None:
                return self._resolved_to_value(r, dotted)
            return ExtV(dotted)
        if isinstance(base, ClassV):
            fi = base.ci.find_method(name)
            if fi is not None:
                return FuncV(fi, bound_cls=base.ci)
            ca = base.ci.find_class_attr(name)
            if ca is not None:
                return self.eval_in(ca, base.ci.module, {})
            return Top(f"class attribute {base.ci.name}.{name}")
        r = self.transfer.value_attr(self, base, name, node)
        if r is not None:
            return r
        return BoundExt(base, name)

    def ev_Call(self, e, cc):
        # super().__init__(...) / super().m(...)
        if isinstance(e.func, ast.Attribute) and isinstance(e.func.value, ast.Call) and \
                isinstance(e.func.value.func, ast.Name) and e.func.value.func.id == "super":
            return self._super_call(e, cc)
        fv = self.eval(e.func, cc)
        args: List[V] = []
        for a in e.args:
            if isinstance(a, ast.Starred):
                v = self.eval(a.value, cc)
                if isinstance(v, TupleV):
                    args.extend(v.items)
                elif isinstance(v, ListV) and flat_elems(v.items) is not None:
                    args.extend(flat_elems(v.items))
                else:
                    args.append(Term("starred", [v]))
            else:
                args.append(self.eval(a, cc))
        kwargs: Dict[str, V] = {}
        for k in e.keywords:
            if k.arg is None:
                v = self.eval(k.value, cc)
                if isinstance(v, DictV) and not v.stores:
                    kwargs.update({str(kk): vv for kk, vv in v.d.items()})
                else:
                    kwargs["**"] = v
            else:
                kwargs[k.arg] = self.eval(k.value, cc)
        return self.call_value(fv, args, kwargs, e, cc)

    def _super_call(self, e, cc):
        name = e.func.attr
        cur = cc.fi.cls if cc.fi is not None else None
        self_obj = cc.env.get("self")
        if cur is None or not isinstance(self_obj, ObjV) or self_obj.cls is None:
            return Top("super() outside a modelled method")
        sargs = e.func.value.args
        start_cls = cur
        if len(sargs) >= 1:
            sv = self.eval(sargs[0], cc)
            if isinstance(sv, ClassV):
                start_cls = sv.ci
        mro = self_obj.cls.mro()
        if start_cls not in mro:
            return Top("super(): class not in MRO")
        rest = mro[mro.index(start_cls) + 1:]
        target = None
        for c in rest:
            if name in c.methods:
                target = c.methods[name]
                break
        args = []
        for a in e.args:
            if isinstance(a, ast.Starred):
                v = self.eval(a.value, cc)
                if isinstance(v, TupleV):
                    args.extend(v.items)
                elif isinstance(v, ListV) and flat_elems(v.items) is not None:
                    args.extend(flat_elems(v.items))
                else:
                    args.append(Top("starred argument of unknown length"))
            else:
                args.append(self.eval(a, cc))
        kwargs = {}
        for k in e.keywords:
            if k.arg is None:
                v = self.eval(k.value, cc)
                if isinstance(v, DictV):
                    kwargs.update({str(kk): vv for kk, vv in v.d.items()})
            else:
                kwargs[k.arg] = self.eval(k.value, cc)
        if target is None:
            if name == "__init__":
                return Const(None)   # object.__init__ / ABC
            return Top(f"super().{name} not found")
        return self.call_value(FuncV(target, self_obj=self_obj), args, kwargs, e, cc)

    def call_value(self, fv: V, args, kwargs, node, cc) -> V:
        if isinstance(fv, Top):
            return fv
        h = self.hooks.call(self, fv, args, kwargs, node)
        if h is not None:
            return h
        if isinstance(fv, FuncV):
            if self.hooks.inline(self, fv.fi, fv.self_obj, args, kwargs):
                if fv.self_obj is not None:
                    return self.call_function(fv.fi, args, kwargs, self_obj=fv.self_obj, node=node)
                if fv.bound_cls is not None and "classmethod" in fv.fi.decorators():
                    return self.call_function(fv.fi, args, kwargs, node=node)
                if fv.fi.cls is not None and "staticmethod" not in fv.fi.decorators() and \
                        "classmethod" not in fv.fi.decorators() and fv.self_obj is None:
                    # unbound call Class.m(obj, ...)
                    if args:
                        return self.call_function(fv.fi, args[1:], kwargs, self_obj=args[0], node=node)
                return self.call_function(fv.fi, args, kwargs, node=node)
            return Top(f"call to {fv.fi.where} not inlined")
        if isinstance(fv, ClassV):
            return self.instantiate(fv.ci, args, kwargs, node)
        if isinstance(fv, LambdaV):
            lam = fv.node
            env = dict(fv.env)
            for a, v in zip(lam.args.args, args):
                env[a.arg] = v
            c2 = CallCtx(cc.fi if cc else None, fv.module, env)
            self.call_stack.append(c2)
            try:
                return self.eval(lam.body, c2)
            finally:
                self.call_stack.pop()
        if isinstance(fv, ExtV):
            r = self.transfer.call_ext(self, fv.dotted, args, kwargs, node, cc)
            if r is None:
                self.unresolved.append(f"{self.where()}: {fv.dotted}")
                return Top(f"external call {fv.dotted} not in transfer table")
            return r
        if isinstance(fv, BoundExt):
            h = self.hooks.method(self, fv.recv, fv.name, args, kwargs, node)
            if h is not None:
                return h
            r = self.transfer.call_method(self, fv.recv, fv.name, args, kwargs, node, cc)
            if r is None:
                self.unresolved.append(f"{self.where()}: .{fv.name} on {type(fv.recv).__name__}")
                return Top(f"method .{fv.name} on {vstr(fv.recv)[:60]} not in transfer table")
            return r
        return Top(f"call of {type(fv).__name__}")

    def instantiate(self, ci: ClassInfo, args, kwargs, node=None) -> V:
        obj = ObjV(cls=ci)
        init = ci.find_method("__init__")
        if init is not None:
            r = self.call_function(init, args, kwargs, self_obj=obj, node=node)
            if isinstance(r, Top):
                obj.attrs["__init_top__"] = r
        return obj

    # ---- subscripts
    def eval_index(self, sl, cc) -> V:
        if isinstance(sl, ast.Slice):
            return Term("slice", [self.eval(x, cc) if x is not None else Const(None) for x in (sl.lower, sl.upper, sl.step)])
        if isinstance(sl, ast.Tuple):
            return TupleV([self.eval_index(x, cc) for x in sl.elts])
        return self.eval(sl, cc)

    def ev_Subscript(self, e, cc):
        base = self.eval(e.value, cc)
        idx = self.eval_index(e.slice, cc)
        return self.subscript(base, idx, e)

    def subscript(self, base: V, idx: V, node) -> V:
        if isinstance(base, Top):
            return base
        if isinstance(idx, Top):
            return idx
        r = self.transfer.subscript(self, base, idx, node)
        if r is not None:
            return r
        return Top(f"subscript {vstr(base)[:50]}[{vstr(idx)[:40]}]")

    def ev_Slice(self, e, cc):
        return self.eval_index(e, cc)

    def ev_Starred(self, e, cc):
        return Term("starred", [self.eval(e.value, cc)])

    def ev_Yield(self, e, cc):
        v = self.eval(e.value, cc) if e.value is not None else Const(None)
        if cc.yields is not None:
            self.list_append(cc.yields, v)
        return Const(None)

    def ev_NamedExpr(self, e, cc):
        v = self.eval(e.value, cc)
        self.assign(e.target, v, cc)
        return v

    # ---- comprehensions
    def ev_ListComp(self, e, cc):
        return self.comprehension(e, cc, "list")

    def ev_GeneratorExp(self, e, cc):
        return self.comprehension(e, cc, "gen")

    def ev_SetComp(self, e, cc):
        return self.comprehension(e, cc, "set")

    def comprehension(self, e, cc, kind):
        out = self.new_list(kind=kind)
        saved = dict(cc.env)
        if "frames0" not in cc.__dict__:
            cc.frames0 = len(self.frames)

        def rec(gi):
            if gi == len(e.generators):
                self.list_append(out, self.eval(e.elt, cc))
                return
            g = e.generators[gi]
            it = self.eval(g.iter, cc)

            def body():
                conds = []
                for c in g.ifs:
                    cv = self.eval(c, cc)
                    d = self.decide(cv)
                    if d is True:
                        continue
                    if d is False:
                        return
                    conds.append(cv if isinstance(cv, CondV) else CondV("truthy", cv))
                frs = []
                for cnd in conds:
                    fr = Frame("guard", cond=cnd)
                    self.frames.append(fr)
                    frs.append(fr)
                try:
                    rec(gi + 1)
                finally:
                    for _ in frs:
                        self.frames.pop()
            # iterate a ListV with a general skeleton structurally
            if isinstance(it, ListV) and not _simple_list(it):
                self._map_skeleton(it.items, g.target, body, cc, out)
                return
            desc = self.iter_desc(it)
            if desc is None:
                self.list_container(out).append(Splice(Top(f"comprehension over {vstr(it)[:60]}")))
                return
            ext, fn, info = desc
            if fn is None:
                for x in info[1]:
                    self.assign(g.target, x, cc)
                    body()
                return
            idx = self.fresh_idx(_hint(g.target))
            fr = Frame("loop", idx=idx, extent=ext, info=info)
            self.frames.append(fr)
            try:
                self.assign(g.target, fn(Poly.atom(idx)), cc)
                body()
            finally:
                self.frames.pop()
        try:
            rec(0)
        finally:
            cc.env.clear()
            cc.env.update(saved)
        return out

    def _map_skeleton(self, items, target, body, cc, out):
        for it in items:
            if isinstance(it, Elem):
                self.assign(target, it.value, cc)
                body()
            elif isinstance(it, Loop):
                fr = Frame("loop", idx=it.idx, extent=it.extent, info=it.info)
                self.frames.append(fr)
                try:
                    self._map_skeleton(it.items, target, body, cc, out)
                finally:
                    self.frames.pop()
            elif isinstance(it, Guard):
                fr = Frame("guard", cond=it.cond)
                self.frames.append(fr)
                try:
                    self._map_skeleton(it.items, target, body, cc, out)
                finally:
                    self.frames.pop()
            elif isinstance(it, Rep):
                idx = self.fresh_idx("rep")
                fr = Frame("loop", idx=idx, extent=it.count, info=("rep",))
                self.frames.append(fr)
                try:
                    self._map_skeleton(it.items, target, body, cc, out)
                finally:
                    self.frames.pop()
            elif isinstance(it, Splice):
                if out is not None:
                    self.list_container(out).append(Splice(Term("map_over", [it.value])))
                else:
                    self.note(f"loop over list with unknown splice in {self.where()}")
                    self.events.append(("loop_over_splice", it.value, self.where()))

    # ------------------------------------------------------------------ arithmetic
    def map_num(self, v, fn, opname):
        if isinstance(v, Num):
            return Num(fn(v.p))
        if isinstance(v, Grid):
            return Grid(v.dims, self.map_num(v.elem, fn, opname))
        if isinstance(v, Top):
            return v
        if isinstance(v, Term):
            return Term(opname, [v])
        if isinstance(v, ObjV):
            return Term(opname, [v])
        if isinstance(v, Const) and isinstance(v.v, bool):
            return Num(fn(Poly.const(int(v.v))))
        return Top(f"{opname} on {type(v).__name__}")

    def binop(self, op, l, r, node=None) -> V:
        if isinstance(l, Top):
            return l
        if isinstance(r, Top):
            return r
        t = self.transfer.binop(self, op, l, r, node)
        if t is not None:
            return t
        return Top(f"binop {type(op).__name__} on {type(l).__name__},{type(r).__name__}")

    def elementwise2(self, l, r, fn, opname):
        """broadcast two values (Grid / scalar) and apply fn on elements"""
        if not isinstance(l, Grid) and not isinstance(r, Grid):
            return fn(l, r)
        if isinstance(l, Grid) and not isinstance(r, Grid):
            if isinstance(r, (Num, Const, CondV, Term)):
                return Grid(l.dims, fn(l.elem, r))
            return Top(f"{opname}: grid with {type(r).__name__}")
        if isinstance(r, Grid) and not isinstance(l, Grid):
            if isinstance(l, (Num, Const, CondV, Term)):
                return Grid(r.dims, fn(l, r.elem))
            return Top(f"{opname}: {type(l).__name__} with grid")
        # both grids: right-align dims
        ld, rd = l.dims, r.dims
        n = max(len(ld), len(rd))
        ld2 = [None] * (n - len(ld)) + list(ld)
        rd2 = [None] * (n - len(rd)) + list(rd)
        mapping = {}
        out_dims = []
        for a, b in zip(ld2, rd2):
            if a is None:
                out_dims.append(b)
            elif b is None:
                out_dims.append(a)
            else:
                ea = [x[1] for x in a]
                eb = [x[1] for x in b]
                if ea == eb:
                    for (ia, _), (ib, _) in zip(a, b):
                        if ia != ib:
                            mapping[ib] = Poly.atom(ia)
                    out_dims.append(a)
                elif _is_unit(b):
                    mapping[b[0][0]] = Poly.const(0)
                    out_dims.append(a)
                elif _is_unit(a):
                    mapping[a[0][0]] = Poly.const(0)
                    out_dims.append(b)
                else:
                    la = Poly.const(1)
                    for x in ea:
                        la = la * x
                    lb = Poly.const(1)
                    for x in eb:
                        lb = lb * x
                    if la == lb:
                        # same total length but different factorisation: common refinement (row-major mixed radix)
                        ref = _refine_axes(a, b)
                        if ref is not None:
                            axes, m2 = ref
                            mapping.update(m2)
                            out_dims.append(axes)
                            continue
                        return Top(f"{opname}: equal lengths but different index structure "
                                   f"({'*'.join(x.pretty() for x in ea)} vs {'*'.join(x.pretty() for x in eb)})")
                    self.events.append(("shape_mismatch", opname, l, r, self.where()))
                    return Top(f"shape mismatch in {opname}: {'*'.join(x.pretty() for x in ea)} vs "
                               f"{'*'.join(x.pretty() for x in eb)}")
        relem = subst(r.elem, mapping)
        lelem = subst(l.elem, mapping)
        return Grid(out_dims, fn(lelem, relem))


class _BranchExit(Exception):
    pass


def expand_const_loops(items, limit=8):
    """unroll loops with a small constant extent whose body is a flat element list"""
    out = []
    for it in items:
        if isinstance(it, Loop) and it.extent.is_const() and it.extent.as_const().denominator == 1 and \
                0 <= it.extent.as_const() <= limit:
            inner = expand_const_loops(it.items, limit)
            if all(isinstance(e, Elem) or (isinstance(e, Guard) and flat_elems(e.items) is not None) for e in inner):
                for k in range(int(it.extent.as_const())):
                    for e in inner:
                        if isinstance(e, Elem):
                            out.append(Elem(subst(e.value, {it.idx: Poly.const(k)})))
                        else:
                            out.append(Guard(subst(e.cond, {it.idx: Poly.const(k)}),
                                             [Elem(subst(x.value, {it.idx: Poly.const(k)})) for x in e.items], e.fid))
                continue
        out.append(it)
    return out


def _refine_axes(a, b):
    """two axis lists (major -> minor) of one numpy dimension with the same total length -> (common axes, {idx: Poly}) where an
    axis of one side whose extent is the product of consecutive axes of the other side is split row-major; None if impossible"""
    i = j = 0
    axes = []
    mapping = {}
    while i < len(a) and j < len(b):
        (ia, ea), (ib, eb) = a[i], b[j]
        if ea == eb:
            axes.append((ia, ea))
            if ia != ib:
                mapping[ib] = Poly.atom(ia)
            i += 1
            j += 1
            continue
        done = False
        for (X, x0, Y, y0, flip) in ((a, i, b, j, False), (b, j, a, i, True)):
            ix, ex = X[x0]
            prod = Poly.const(1)
            k = y0
            while k < len(Y):
                prod = prod * Y[k][1]
                k += 1
                if prod == ex:
                    # ix = sum_k iy_k * stride_k
                    comb = Poly.const(0)
                    for q in range(y0, k):
                        stride = Poly.const(1)
                        for q2 in range(q + 1, k):
                            stride = stride * Y[q2][1]
                        comb = comb + Poly.atom(Y[q][0]) * stride
                    mapping[ix] = comb
                    axes.extend(Y[y0:k])
                    if flip:
                        j += 1
                        i = k
                    else:
                        i += 1
                        j = k
                    done = True
                    break
            if done:
                break
        if not done:
            return None
    if i != len(a) or j != len(b):
        return None
    return axes, mapping


def _is_unit(dim):
    return len(dim) == 1 and dim[0][1] == Poly.const(1)


def _simple_list(lst: ListV) -> bool:
    items = lst.items
    if flat_elems(items) is not None:
        return True
    return len(items) == 1 and isinstance(items[0], Loop) and len(items[0].items) == 1 and isinstance(items[0].items[0], Elem)


def _walk_no_nested(fnode):
    st = list(fnode.body)
    while st:
        n = st.pop()
        yield n
        for c in ast.iter_child_nodes(n):
            if isinstance(c, (ast.FunctionDef, ast.AsyncFunctionDef, ast.Lambda, ast.ClassDef)):
                continue
            st.append(c)


def _assigned_names(stmts) -> set:
    out = set()
    for s in stmts:
        for n in ast.walk(s):
            if isinstance(n, (ast.Assign,)):
                for t in n.targets:
                    out |= _target_names(t)
            elif isinstance(n, (ast.AugAssign, ast.AnnAssign)):
                out |= _target_names(n.target)
            elif isinstance(n, (ast.For, ast.AsyncFor)):
                out |= _target_names(n.target)
            elif isinstance(n, ast.NamedExpr):
                out |= _target_names(n.target)
            elif isinstance(n, ast.With):
                for it in n.items:
                    if it.optional_vars is not None:
                        out |= _target_names(it.optional_vars)
    return out


def _target_names(t) -> set:
    if isinstance(t, ast.Name):
        return {t.id}
    if isinstance(t, (ast.Tuple, ast.List)):
        s = set()
        for x in t.elts:
            s |= _target_names(x)
        return s
    if isinstance(t, ast.Starred):
        return _target_names(t.value)
    return set()


def _root_name(e):
    while isinstance(e, (ast.Attribute, ast.Subscript)):
        e = e.value
    if isinstance(e, ast.Name):
        return e.id
    return None


def _as_load(t):
    import copy
    n = copy.copy(t)
    n.ctx = ast.Load()
    return n


def _hint(target):
    if isinstance(target, ast.Name):
        return target.id
    if isinstance(target, (ast.Tuple, ast.List)) and target.elts and isinstance(target.elts[0], ast.Name):
        return target.elts[0].id
    return "i"


def _atoms_of(v) -> set:
    if isinstance(v, Num):
        return v.p.all_atoms_deep()
    if isinstance(v, Poly):
        return v.all_atoms_deep()
    if isinstance(v, CondV):
        s = set()
        for a in v.args:
            if isinstance(a, (V, Poly)):
                s |= _atoms_of(a)
        return s
    if isinstance(v, TupleV):
        s = set()
        for a in v.items:
            s |= _atoms_of(a)
        return s
    if isinstance(v, Term):
        s = set()
        for a in list(v.args) + list(v.kw.values()):
            s |= _atoms_of(a)
        return s
    if isinstance(v, Grid):
        s = _atoms_of(v.elem)
        for d in v.dims:
            for a, e in d:
                s |= e.all_atoms_deep()
        return s
    return set()


atoms_of = _atoms_of


def _const_to_v(val) -> V:
    if isinstance(val, bool) or val is None or isinstance(val, str):
        return Const(val)
    if isinstance(val, (int, float)):
        return Num(Poly.const(val))
    if isinstance(val, tuple):
        if all(isinstance(x, (str, bool)) or x is None for x in val):
            return Const(val)
        return TupleV([_const_to_v(x) for x in val])
    if isinstance(val, dict) and all(isinstance(k_, (str, int, bool)) or k_ is None for k_ in val):
        d = DictV({k_: _const_to_v(v_) for k_, v_ in val.items()})
        d.complete = True            # a literal table: a key that is not listed is absent
        return d
    return Const(val)


def _forward_target(ga: FunctionInfo) -> Optional[str]:
    """__getattr__(self, name): return getattr(self.X, name)  ->  'X'"""
    for n in ast.walk(ga.node):
        if isinstance(n, ast.Return) and isinstance(n.value, ast.Call) and isinstance(n.value.func, ast.Name) and \
                n.value.func.id == "getattr" and len(n.value.args) == 2:
            a0 = n.value.args[0]
            if isinstance(a0, ast.Attribute) and isinstance(a0.value, ast.Name) and a0.value.id == "self":
                return a0.attr
    return None


forward_target = _forward_target

BUILTINS = {"len", "range", "enumerate", "zip", "list", "tuple", "set", "sorted", "int", "float", "str", "bool", "abs",
            "min", "max", "sum", "isinstance", "print", "any", "all", "dict", "type", "getattr", "hasattr", "map",
            "filter", "reversed", "round", "iter", "next", "super", "ValueError", "TypeError", "IndexError",
            "KeyError", "AttributeError", "NotImplementedError", "Exception", "object", "frozenset", "repr", "id",
            "open", "divmod", "pow"}

EXT_CONST_ATOMS = {
    "scipy.constants.k": Poly.sym("kB"),
    "scipy.constants.N_A": Poly.sym("N_A"),
    "scipy.constants.pi": Poly.sym("pi"),
    "numpy.pi": Poly.sym("pi"),
    "math.pi": Poly.sym("pi"),
    "scipy.constants.golden": Poly.sym("golden"),
    "scipy.constants.R": Poly.sym("kB") * Poly.sym("N_A"),
    "numpy.nan": Poly.sym("nan"),
    "numpy.inf": Poly.sym("inf"),
    "numpy.newaxis": None,
}
EXT_CONST_ATOMS = {k: v for k, v in EXT_CONST_ATOMS.items() if v is not None}
