"""E1 — repository model (pure ast; never imports molgri).

Parses /repo's *current working tree* on every run: molgri/**/*.py, workflow python files and the Snakefiles
(through sa.snake).  Provides modules, classes (MRO), functions, import resolution and constant folding of
module-level constants.
"""
from __future__ import annotations

import ast
import hashlib
import os
from dataclasses import dataclass, field
from typing import Dict, List, Optional, Tuple, Any

REPO = os.environ.get("VERIF_REPO", "/repo")


class AnalysisError(Exception):
    """Anything that makes a verdict impossible (vanished anchor, unmodelled construct ...)."""


def set_parents(tree: ast.AST):
    for node in ast.walk(tree):
        for ch in ast.iter_child_nodes(node):
            ch._parent = node  # type: ignore
    return tree


def src(node) -> str:
    try:
        return ast.unparse(node)
    except Exception:  # pragma: no cover
        return "<%s>" % type(node).__name__


def norm_stmt(node) -> str:
    """normalised statement text used as finding key (line independent)."""
    return " ".join(src(node).split())


class _Normaliser(ast.NodeTransformer):
    """semantics-preserving normal form of the analysed AST, so that syntactic rules see one shape for equivalent code:
         X = E; return X            ->  return E            (adjacent statements, X a plain name)
         if not C: B  else: A       ->  if C: A  else: B    (a real else branch, not an elif chain)
         x: T = E                   ->  x = E               (annotations carry no behaviour; class-level ones are kept by _index first)"""

    _counts = None

    def visit_FunctionDef(self, node):
        outer = self._counts
        c = {}
        for n in ast.walk(node):
            if isinstance(n, ast.Name):
                c[n.id] = c.get(n.id, 0) + 1
            elif isinstance(n, (ast.Global, ast.Nonlocal)):
                for nm in n.names:
                    c[nm] = c.get(nm, 0) + 100
            elif isinstance(n, ast.arg):
                c[n.arg] = c.get(n.arg, 0) + 100
        self._counts = c
        try:
            return self.generic_visit(node)
        finally:
            self._counts = outer

    visit_AsyncFunctionDef = visit_FunctionDef

    def _inline_temp(self, s, nxt):
        """X = E ; <simple statement using X once>   with X occurring nowhere else in the function  ->  statement with E in place of X"""
        if self._counts is None or not (isinstance(s, ast.Assign) and len(s.targets) == 1 and isinstance(s.targets[0], ast.Name)):
            return None
        x = s.targets[0].id
        if self._counts.get(x) != 2 or not isinstance(nxt, (ast.Assign, ast.Expr, ast.Return, ast.AugAssign, ast.AnnAssign)):
            return None
        if any(isinstance(n, (ast.Yield, ast.YieldFrom, ast.Await, ast.NamedExpr, ast.Lambda)) for n in ast.walk(s.value)):
            return None
        uses = [n for n in ast.walk(nxt) if isinstance(n, ast.Name) and n.id == x and isinstance(n.ctx, ast.Load)]
        if len(uses) != 1:
            return None
        # not under a comprehension / lambda of the using statement (would be evaluated repeatedly / lazily)
        for n in ast.walk(nxt):
            if isinstance(n, (ast.ListComp, ast.SetComp, ast.DictComp, ast.GeneratorExp, ast.Lambda)):
                inner = list(ast.walk(n))
                first_iter = n.generators[0].iter if not isinstance(n, ast.Lambda) else None
                if uses[0] in inner and not (first_iter is not None and uses[0] in list(ast.walk(first_iter))):
                    return None
        value = s.value

        class Sub(ast.NodeTransformer):
            def visit_Name(self, node):
                return value if node is uses[0] else node
        return Sub().visit(nxt)

    @staticmethod
    def _as_comprehension(init, loop):
        """T = [] ; for tgt in it: [if c: ...] T.append(e)    ->   T = [e for tgt in it if c ...]   (else None)"""
        if not (isinstance(init, ast.Assign) and len(init.targets) == 1 and isinstance(init.targets[0], ast.Name) and
                isinstance(init.value, ast.List) and not init.value.elts and isinstance(loop, ast.For) and not loop.orelse):
            return None
        t = init.targets[0].id
        body = loop.body
        conds = []
        while len(body) == 1 and isinstance(body[0], ast.If) and not body[0].orelse:
            conds.append(body[0].test)
            body = body[0].body
        if not (len(body) == 1 and isinstance(body[0], ast.Expr) and isinstance(body[0].value, ast.Call)):
            return None
        c = body[0].value
        if not (isinstance(c.func, ast.Attribute) and c.func.attr == "append" and isinstance(c.func.value, ast.Name) and c.func.value.id == t and
                len(c.args) == 1 and not c.keywords):
            return None
        names = {n.id for n in ast.walk(loop.iter) if isinstance(n, ast.Name)} | {n.id for x in conds + [c.args[0]] for n in ast.walk(x) if isinstance(n, ast.Name)}
        if t in names:
            return None
        comp = ast.ListComp(elt=c.args[0], generators=[ast.comprehension(target=loop.target, iter=loop.iter, ifs=conds, is_async=0)])
        return ast.copy_location(ast.Assign(targets=[ast.Name(id=t, ctx=ast.Store())], value=ast.copy_location(comp, loop)), init)

    @staticmethod
    def _split_parallel(stmts):
        """a, b = x, y   ->   a = x ; b = y     when no right-hand side reads one of the targets (no swap) and targets are plain names"""
        out = []
        for s in stmts:
            if isinstance(s, ast.Assign) and len(s.targets) == 1 and isinstance(s.targets[0], ast.Tuple) and isinstance(s.value, ast.Tuple) and \
                    len(s.targets[0].elts) == len(s.value.elts) >= 2 and all(isinstance(t, ast.Name) for t in s.targets[0].elts) and \
                    not any(isinstance(v, ast.Starred) for v in s.value.elts):
                tnames = {t.id for t in s.targets[0].elts}
                reads = {n.id for v in s.value.elts for n in ast.walk(v) if isinstance(n, ast.Name)}
                calls = any(isinstance(n, (ast.Call, ast.Yield, ast.Await, ast.NamedExpr)) for v in s.value.elts for n in ast.walk(v))
                if not (tnames & reads) and len(tnames) == len(s.targets[0].elts) and not calls:
                    for t, v in zip(s.targets[0].elts, s.value.elts):
                        out.append(ast.copy_location(ast.Assign(targets=[ast.Name(id=t.id, ctx=ast.Store())], value=v), s))
                    continue
            out.append(s)
        return out

    def _block(self, stmts):
        stmts = self._split_parallel(stmts)
        # explicit accumulation loops become comprehensions (one shape for both spellings)
        res = []
        k = 0
        while k < len(stmts):
            r = self._as_comprehension(stmts[k], stmts[k + 1]) if k + 1 < len(stmts) else None
            if r is not None:
                res.append(r)
                k += 2
            else:
                res.append(stmts[k])
                k += 1
        stmts = res
        out = []
        k = 0
        changed = True
        while changed:
            changed = False
            k = 0
            res = []
            while k < len(stmts):
                s = stmts[k]
                nxt = stmts[k + 1] if k + 1 < len(stmts) else None
                r = self._inline_temp(s, nxt) if nxt is not None else None
                if r is not None:
                    res.append(r)
                    k += 2
                    changed = True
                    continue
                res.append(s)
                k += 1
            stmts = res
        k = 0
        while k < len(stmts):
            s = stmts[k]
            nxt = stmts[k + 1] if k + 1 < len(stmts) else None
            if isinstance(s, ast.Assign) and len(s.targets) == 1 and isinstance(s.targets[0], ast.Name) and isinstance(nxt, ast.Return) and \
                    isinstance(nxt.value, ast.Name) and nxt.value.id == s.targets[0].id:
                out.append(ast.copy_location(ast.Return(value=s.value), s))
                k += 2
                continue
            out.append(s)
            k += 1
        return out

    def generic_visit(self, node):
        super().generic_visit(node)
        for f in ("body", "orelse", "finalbody"):
            b = getattr(node, f, None)
            if isinstance(b, list) and b and isinstance(b[0], ast.stmt):
                setattr(node, f, self._block(b))
        return node

    def visit_AnnAssign(self, node):
        # type hints do not change behaviour:  x: T = E  ->  x = E ;  bare  x: T  ->  pass
        self.generic_visit(node)
        if node.value is None:
            return ast.copy_location(ast.Pass(), node)
        return ast.copy_location(ast.Assign(targets=[node.target], value=node.value), node)

    def visit_If(self, node):
        self.generic_visit(node)
        if isinstance(node.test, ast.UnaryOp) and isinstance(node.test.op, ast.Not) and node.orelse and \
                not (len(node.orelse) == 1 and isinstance(node.orelse[0], ast.If)):
            node.test, node.body, node.orelse = node.test.operand, node.orelse, node.body
        return node


def normalise_tree(tree: ast.AST) -> ast.AST:
    t = _Normaliser().visit(tree)
    ast.fix_missing_locations(t)
    return t


@dataclass
class FunctionInfo:
    name: str
    qualname: str
    module: "ModuleInfo"
    node: ast.FunctionDef
    cls: Optional["ClassInfo"] = None

    @property
    def where(self):
        return f"{self.module.relpath}:{self.qualname}"

    def params(self) -> List[str]:
        a = self.node.args
        return [x.arg for x in a.posonlyargs + a.args]

    def defaults(self) -> Dict[str, ast.expr]:
        a = self.node.args
        pos = a.posonlyargs + a.args
        out = {}
        for arg, d in zip(pos[len(pos) - len(a.defaults):], a.defaults):
            out[arg.arg] = d
        for arg, d in zip(a.kwonlyargs, a.kw_defaults):
            if d is not None:
                out[arg.arg] = d
        return out

    def decorators(self) -> List[str]:
        return [src(d) for d in self.node.decorator_list]


@dataclass
class ClassInfo:
    name: str
    module: "ModuleInfo"
    node: ast.ClassDef
    base_exprs: List[ast.expr]
    methods: Dict[str, FunctionInfo] = field(default_factory=dict)
    class_attrs: Dict[str, ast.expr] = field(default_factory=dict)
    bases: List["ClassInfo"] = field(default_factory=list)   # resolved repo bases only

    @property
    def qualname(self):
        return f"{self.module.name}.{self.name}"

    def mro(self) -> List["ClassInfo"]:
        # C3 is not needed for this repository (single inheritance chains + ABC); do a DFS left-to-right w/o dups
        out: List[ClassInfo] = []

        def rec(c):
            if c in out:
                return
            out.append(c)
            for b in c.bases:
                rec(b)
        rec(self)
        return out

    def find_method(self, name: str) -> Optional[FunctionInfo]:
        for c in self.mro():
            if name in c.methods:
                return c.methods[name]
        return None

    def find_class_attr(self, name: str):
        for c in self.mro():
            if name in c.class_attrs:
                return c.class_attrs[name]
        return None

    def is_subclass_of(self, other: "ClassInfo") -> bool:
        return other in self.mro()

    def __hash__(self):
        return id(self)

    def __eq__(self, o):
        return self is o


@dataclass
class ModuleInfo:
    name: str            # dotted, e.g. molgri.space.fullgrid ; Snakefiles: workflow.run_grid
    path: str
    relpath: str
    source: str
    tree: ast.Module
    imports: Dict[str, str] = field(default_factory=dict)        # local name -> dotted target
    functions: Dict[str, FunctionInfo] = field(default_factory=dict)
    classes: Dict[str, ClassInfo] = field(default_factory=dict)
    consts: Dict[str, ast.expr] = field(default_factory=dict)    # module-level simple assignments (expr)
    is_snake: bool = False
    snake: Any = None

    def __hash__(self):
        return hash(self.name)

    def __eq__(self, o):
        return self is o


_NODEFAULT = object()
# (parameter, default) in positional order; _NODEFAULT = required.  Only what the analysed code uses.
LIB_SIGNATURES = {
    "numpy.unique": [("ar", _NODEFAULT), ("return_index", False), ("return_inverse", False), ("return_counts", False), ("axis", None)],
    "numpy.round": [("a", _NODEFAULT), ("decimals", 0)],
    "numpy.around": [("a", _NODEFAULT), ("decimals", 0)],
    "numpy.linalg.norm": [("x", _NODEFAULT), ("ord", None), ("axis", None), ("keepdims", False)],
    "numpy.sort": [("a", _NODEFAULT), ("axis", -1)],
    "numpy.argsort": [("a", _NODEFAULT), ("axis", -1)],
    "numpy.tile": [("A", _NODEFAULT), ("reps", _NODEFAULT)],
    "numpy.repeat": [("a", _NODEFAULT), ("repeats", _NODEFAULT), ("axis", None)],
    "numpy.sum": [("a", _NODEFAULT), ("axis", None)],
    "numpy.min": [("a", _NODEFAULT), ("axis", None)],
    "numpy.max": [("a", _NODEFAULT), ("axis", None)],
    "numpy.mean": [("a", _NODEFAULT), ("axis", None)],
    "numpy.argmin": [("a", _NODEFAULT), ("axis", None)],
    "numpy.argmax": [("a", _NODEFAULT), ("axis", None)],
    "numpy.concatenate": [("arrays", _NODEFAULT), ("axis", 0)],
    "numpy.diag": [("v", _NODEFAULT), ("k", 0)],
    "numpy.clip": [("a", _NODEFAULT), ("a_min", _NODEFAULT), ("a_max", _NODEFAULT)],
    "numpy.where": [("condition", _NODEFAULT), ("x", _NODEFAULT), ("y", _NODEFAULT)],
    "numpy.isclose": [("a", _NODEFAULT), ("b", _NODEFAULT), ("rtol", 1e-05), ("atol", 1e-08), ("equal_nan", False)],
    "numpy.allclose": [("a", _NODEFAULT), ("b", _NODEFAULT), ("rtol", 1e-05), ("atol", 1e-08), ("equal_nan", False)],
    "numpy.cross": [("a", _NODEFAULT), ("b", _NODEFAULT)],
    "numpy.dot": [("a", _NODEFAULT), ("b", _NODEFAULT)],
    "numpy.matmul": [("x1", _NODEFAULT), ("x2", _NODEFAULT)],
    "numpy.multiply": [("x1", _NODEFAULT), ("x2", _NODEFAULT)],
    "numpy.divide": [("x1", _NODEFAULT), ("x2", _NODEFAULT)],
    "numpy.linspace": [("start", _NODEFAULT), ("stop", _NODEFAULT), ("num", 50)],
    "numpy.full": [("shape", _NODEFAULT), ("fill_value", _NODEFAULT)],
    "numpy.nonzero": [("a", _NODEFAULT)],
    "numpy.reciprocal": [("x", _NODEFAULT)],
    "numpy.array": [("object", _NODEFAULT)],
    "numpy.asarray": [("a", _NODEFAULT)],
    "numpy.linalg.inv": [("a", _NODEFAULT)],
    "scipy.sparse.diags": [("diagonals", _NODEFAULT), ("offsets", 0)],
}


class Repo:
    def __init__(self, root: str = None):
        self.root = root or REPO
        self.modules: Dict[str, ModuleInfo] = {}
        self.consulted: Dict[str, str] = {}
        self._load()

    # ---------------------------------------------------------------- loading
    def _load(self):
        pkg = os.path.join(self.root, "molgri")
        if not os.path.isdir(pkg):
            raise AnalysisError(f"package directory {pkg} not found")
        for dirpath, dirnames, filenames in os.walk(pkg):
            dirnames[:] = [d for d in dirnames if d != "__pycache__"]
            for fn in sorted(filenames):
                if fn.endswith(".py"):
                    p = os.path.join(dirpath, fn)
                    rel = os.path.relpath(p, self.root)
                    name = rel[:-3].replace(os.sep, ".")
                    if name.endswith(".__init__"):
                        name = name[:-9]
                    self._add_module(name, p, rel)
        wf = os.path.join(self.root, "workflow")
        if os.path.isdir(wf):
            for fn in sorted(os.listdir(wf)):
                p = os.path.join(wf, fn)
                if fn.endswith(".py"):
                    self._add_module("workflow." + fn[:-3], p, os.path.relpath(p, self.root))
        for m in self.modules.values():
            self._link_classes(m)
        self._normalise_calls()

    def _normalise_calls(self):
        """second normalisation pass (needs the whole repository): in calls of module-level repository functions, keyword
        arguments that name the next positional parameters become positional — `f(array=x)` and `f(x)` are one shape."""
        for m in self.modules.values():
            if m.is_snake:
                continue
            changed = False
            for node in ast.walk(m.tree):
                if not (isinstance(node, ast.Call) and isinstance(node.func, (ast.Name, ast.Attribute)) and node.keywords):
                    continue
                if any(isinstance(a, ast.Starred) for a in node.args) or any(k.arg is None for k in node.keywords):
                    continue
                try:
                    r = self.resolve_expr(m, node.func) if isinstance(node.func, ast.Name) or (
                        isinstance(node.func.value, ast.Name) and node.func.value.id in m.imports) else None
                except Exception:
                    r = None
                if not (r and r[0] == "func" and r[1].cls is None):
                    # library functions with a known signature: explicit defaults are dropped, leading keywords become positional
                    try:
                        d_ = self.dotted_of(m, node.func)
                    except Exception:
                        d_ = None
                    sig = LIB_SIGNATURES.get(d_ or "")
                    if sig is not None:
                        params = [p_ for p_, _ in sig]
                        dflt = dict(sig)
                        kws = []
                        for k in node.keywords:
                            dv = dflt.get(k.arg, _NODEFAULT)
                            if dv is not _NODEFAULT and isinstance(k.value, ast.Constant) and k.value.value == dv and type(k.value.value) is type(dv):
                                changed = True
                                continue            # spelled-out default
                            kws.append(k)
                        kw = {k.arg: k for k in kws}
                        pos = list(node.args)
                        # required parameters become positional; optional ones stay keywords (the form the rules read)
                        while len(pos) < len(params) and params[len(pos)] in kw and dflt[params[len(pos)]] is _NODEFAULT:
                            pos.append(kw.pop(params[len(pos)]).value)
                        if len(pos) != len(node.args) or len(kws) != len(node.keywords):
                            node.args = pos
                            node.keywords = [k for k in kws if k.arg in kw]
                            changed = True
                    continue
                a = r[1].node.args
                if a.vararg is not None or a.posonlyargs:
                    continue
                params = [x.arg for x in a.args]
                kw = {k.arg: k for k in node.keywords}
                pos = list(node.args)
                while len(pos) < len(params) and params[len(pos)] in kw:
                    pos.append(kw.pop(params[len(pos)]).value)
                if len(pos) != len(node.args):
                    node.args = pos
                    node.keywords = [k for k in node.keywords if k.arg in kw]
                    changed = True
            if changed:
                set_parents(m.tree)

    def _add_module(self, name, path, rel, source=None, tree=None, is_snake=False):
        if source is None:
            with open(path, "r", encoding="utf-8") as f:
                source = f.read()
        self.consulted[rel] = hashlib.sha256(source.encode()).hexdigest()[:16]
        if tree is None:
            try:
                tree = ast.parse(source, filename=path)
            except SyntaxError as e:
                raise AnalysisError(f"cannot parse {rel}: {e}")
        tree = normalise_tree(tree)
        set_parents(tree)
        m = ModuleInfo(name=name, path=path, relpath=rel, source=source, tree=tree, is_snake=is_snake)
        self._index(m)
        self.modules[name] = m
        return m

    def _index(self, m: ModuleInfo):
        for node in ast.walk(m.tree):
            if isinstance(node, ast.Import):
                for a in node.names:
                    m.imports.setdefault(a.asname or a.name.split(".")[0], a.name if a.asname else a.name.split(".")[0])
            elif isinstance(node, ast.ImportFrom):
                base = node.module or ""
                if node.level:
                    parts = m.name.split(".")
                    base = ".".join(parts[: len(parts) - node.level] + ([base] if base else []))
                for a in node.names:
                    m.imports.setdefault(a.asname or a.name, f"{base}.{a.name}")
        for node in m.tree.body:
            if isinstance(node, (ast.FunctionDef, ast.AsyncFunctionDef)):
                m.functions[node.name] = FunctionInfo(node.name, node.name, m, node)
            elif isinstance(node, ast.ClassDef):
                ci = ClassInfo(node.name, m, node, list(node.bases))
                for b in node.body:
                    if isinstance(b, (ast.FunctionDef, ast.AsyncFunctionDef)):
                        # a property's setter / deleter carries the getter's name: it must not replace the getter in the table
                        acc = [d.attr for d in b.decorator_list if isinstance(d, ast.Attribute) and d.attr in ("setter", "deleter")
                               and isinstance(d.value, ast.Name) and d.value.id == b.name]
                        if acc and b.name in ci.methods:
                            key = f"{b.name}.{acc[0]}"
                            ci.methods[key] = FunctionInfo(key, f"{node.name}.{key}", m, b, ci)
                            continue
                        ci.methods[b.name] = FunctionInfo(b.name, f"{node.name}.{b.name}", m, b, ci)
                    elif isinstance(b, ast.Assign) and len(b.targets) == 1 and isinstance(b.targets[0], ast.Name):
                        ci.class_attrs[b.targets[0].id] = b.value
                    elif isinstance(b, ast.AnnAssign) and isinstance(b.target, ast.Name) and b.value is not None:
                        ci.class_attrs[b.target.id] = b.value
                m.classes[node.name] = ci
            elif isinstance(node, ast.Assign) and len(node.targets) == 1 and isinstance(node.targets[0], ast.Name):
                m.consts[node.targets[0].id] = node.value
            elif isinstance(node, ast.AnnAssign) and isinstance(node.target, ast.Name) and node.value is not None:
                m.consts[node.target.id] = node.value

    def _link_classes(self, m: ModuleInfo):
        for ci in m.classes.values():
            ci.bases = []
            for b in ci.base_exprs:
                r = self.resolve_expr(m, b)
                if r and r[0] == "class":
                    ci.bases.append(r[1])

    # ---------------------------------------------------------------- lookup
    def module(self, name: str) -> ModuleInfo:
        if name not in self.modules:
            raise AnalysisError(f"anchor vanished: module {name}")
        return self.modules[name]

    def cls(self, modname: str, cname: str) -> ClassInfo:
        m = self.module(modname)
        if cname not in m.classes:
            raise AnalysisError(f"anchor vanished: class {modname}.{cname}")
        return m.classes[cname]

    def func(self, modname: str, qual: str) -> FunctionInfo:
        m = self.module(modname)
        if "." in qual:
            c, f = qual.split(".", 1)
            ci = self.cls(modname, c)
            fi = ci.find_method(f)
            if fi is None:
                raise AnalysisError(f"anchor vanished: method {modname}.{qual}")
            return fi
        if qual not in m.functions:
            # maybe re-exported from elsewhere
            r = self.resolve_name(m, qual)
            if r and r[0] == "func":
                return r[1]
            raise AnalysisError(f"anchor vanished: function {modname}.{qual}")
        return m.functions[qual]

    def has_func(self, modname, qual) -> bool:
        try:
            self.func(modname, qual)
            return True
        except AnalysisError:
            return False

    def resolve_dotted(self, dotted: str, depth=0):
        """dotted path -> ('func', fi) | ('class', ci) | ('const', (module, expr)) | ('module', m) | ('ext', dotted)"""
        if depth > 8:
            return ("ext", dotted)
        parts = dotted.split(".")
        for k in range(len(parts), 0, -1):
            mn = ".".join(parts[:k])
            if mn in self.modules:
                m = self.modules[mn]
                rest = parts[k:]
                if not rest:
                    return ("module", m)
                head = rest[0]
                if head in m.functions and len(rest) == 1:
                    return ("func", m.functions[head])
                if head in m.classes:
                    ci = m.classes[head]
                    if len(rest) == 1:
                        return ("class", ci)
                    if len(rest) == 2:
                        fi = ci.find_method(rest[1])
                        if fi:
                            return ("func", fi)
                        ca = ci.find_class_attr(rest[1])
                        if ca is not None:
                            return ("const", (ci.module, ca))
                    return None
                if head in m.consts and len(rest) == 1:
                    return ("const", (m, m.consts[head]))
                if head in m.imports:
                    return self.resolve_dotted(".".join([m.imports[head]] + rest[1:]), depth + 1)
                return None
        if parts[0] in ("molgri", "workflow"):
            return None
        return ("ext", dotted)

    def resolve_name(self, m: ModuleInfo, name: str):
        if name in m.functions:
            return ("func", m.functions[name])
        if name in m.classes:
            return ("class", m.classes[name])
        if name in m.consts:
            return ("const", (m, m.consts[name]))
        if name in m.imports:
            return self.resolve_dotted(m.imports[name])
        return None

    def dotted_of(self, m: ModuleInfo, expr: ast.expr) -> Optional[str]:
        """np.linalg.norm -> 'numpy.linalg.norm' (through the module's imports); None if not a pure dotted name"""
        parts = []
        e = expr
        while isinstance(e, ast.Attribute):
            parts.append(e.attr)
            e = e.value
        if not isinstance(e, ast.Name):
            return None
        parts.append(e.id)
        parts.reverse()
        head = parts[0]
        if head in m.imports:
            return ".".join([m.imports[head]] + parts[1:])
        if head in m.functions or head in m.classes or head in m.consts:
            return ".".join([m.name] + parts)
        return None

    def resolve_expr(self, m: ModuleInfo, expr: ast.expr):
        d = self.dotted_of(m, expr)
        if d is None:
            return None
        return self.resolve_dotted(d)

    # ---------------------------------------------------------------- constants
    def const_value(self, m: ModuleInfo, expr: ast.expr, depth=0):
        """constant folding of module-level constants; returns python value or raises KeyError"""
        if depth > 10:
            raise KeyError("depth")
        if isinstance(expr, ast.Constant):
            return expr.value
        if isinstance(expr, (ast.Tuple, ast.List)):
            return tuple(self.const_value(m, e, depth + 1) for e in expr.elts)
        if isinstance(expr, ast.UnaryOp) and isinstance(expr.op, ast.USub):
            return -self.const_value(m, expr.operand, depth + 1)
        if isinstance(expr, ast.BinOp):
            l = self.const_value(m, expr.left, depth + 1)
            r = self.const_value(m, expr.right, depth + 1)
            if isinstance(expr.op, ast.Add):
                return l + r
            if isinstance(expr.op, ast.Sub):
                return l - r
            if isinstance(expr.op, ast.Mult):
                return l * r
            if isinstance(expr.op, ast.Div):
                return l / r
            if isinstance(expr.op, ast.Pow):
                return l ** r
            raise KeyError(src(expr))
        if isinstance(expr, ast.Dict) and all(k is not None for k in expr.keys):
            return {self.const_value(m, k, depth + 1): self.const_value(m, v, depth + 1) for k, v in zip(expr.keys, expr.values)}
        if isinstance(expr, ast.Set):
            return frozenset(self.const_value(m, e, depth + 1) for e in expr.elts)
        if isinstance(expr, ast.Subscript) and not isinstance(expr.slice, ast.Slice):
            base = self.const_value(m, expr.value, depth + 1)
            key = self.const_value(m, expr.slice, depth + 1)
            try:
                return base[key]
            except Exception:
                raise KeyError(src(expr))
        if isinstance(expr, ast.Call):
            # constructors over foldable data and dict views (module-level tables are often derived from one dict)
            if isinstance(expr.func, ast.Name) and expr.func.id in ("tuple", "list", "sorted", "set", "frozenset", "dict", "len") and \
                    len(expr.args) == 1 and not expr.keywords:
                a = self.const_value(m, expr.args[0], depth + 1)
                try:
                    v = {"tuple": tuple, "list": tuple, "sorted": lambda x: tuple(sorted(x)), "set": frozenset, "frozenset": frozenset,
                         "dict": dict, "len": len}[expr.func.id](a)
                    return v
                except Exception:
                    raise KeyError(src(expr))
            if isinstance(expr.func, ast.Name) and expr.func.id == "zip" and expr.args and not expr.keywords:
                seqs = [self.const_value(m, a_, depth + 1) for a_ in expr.args]
                try:
                    return tuple(zip(*seqs))
                except Exception:
                    raise KeyError(src(expr))
            if isinstance(expr.func, ast.Attribute) and expr.func.attr in ("keys", "values", "items") and not expr.args:
                base = self.const_value(m, expr.func.value, depth + 1)
                if isinstance(base, dict):
                    return tuple(getattr(base, expr.func.attr)())
            raise KeyError(src(expr))
        if isinstance(expr, (ast.GeneratorExp, ast.ListComp, ast.SetComp)) and len(expr.generators) == 1 and not expr.generators[0].ifs:
            g = expr.generators[0]
            seq = self.const_value(m, g.iter, depth + 1)
            out = []
            for item in seq:
                env = {}
                if isinstance(g.target, ast.Name):
                    env[g.target.id] = item
                elif isinstance(g.target, ast.Tuple) and all(isinstance(t, ast.Name) for t in g.target.elts) and len(g.target.elts) == len(item):
                    env = {t.id: v for t, v in zip(g.target.elts, item)}
                else:
                    raise KeyError(src(expr))
                if isinstance(expr.elt, ast.Name) and expr.elt.id in env:
                    out.append(env[expr.elt.id])
                else:
                    raise KeyError(src(expr))
            return tuple(out)
        if isinstance(expr, ast.DictComp) and len(expr.generators) == 1 and not expr.generators[0].ifs:
            g = expr.generators[0]
            seq = self.const_value(m, g.iter, depth + 1)
            out = {}
            for item in seq:
                if isinstance(g.target, ast.Name):
                    env = {g.target.id: item}
                elif isinstance(g.target, ast.Tuple) and all(isinstance(t, ast.Name) for t in g.target.elts) and len(g.target.elts) == len(item):
                    env = {t.id: v for t, v in zip(g.target.elts, item)}
                else:
                    raise KeyError(src(expr))
                if isinstance(expr.key, ast.Name) and expr.key.id in env and isinstance(expr.value, ast.Name) and expr.value.id in env:
                    out[env[expr.key.id]] = env[expr.value.id]
                else:
                    raise KeyError(src(expr))
            return out
        if isinstance(expr, (ast.Name, ast.Attribute)):
            r = self.resolve_expr(m, expr) if isinstance(expr, ast.Attribute) else self.resolve_name(m, expr.id)
            if r and r[0] == "const":
                return self.const_value(r[1][0], r[1][1], depth + 1)
            if r and r[0] == "ext":
                if r[1] in EXT_CONSTS:
                    return EXT_CONSTS[r[1]]
            raise KeyError(src(expr))
        raise KeyError(src(expr))

    def module_const(self, modname: str, name: str):
        m = self.module(modname)
        if name not in m.consts:
            r = self.resolve_name(m, name)
            if r and r[0] == "const":
                return self.const_value(r[1][0], r[1][1])
            raise AnalysisError(f"anchor vanished: constant {modname}.{name}")
        try:
            return self.const_value(m, m.consts[name])
        except KeyError as e:
            raise AnalysisError(f"constant {modname}.{name} is not foldable: {e}")

    # ---------------------------------------------------------------- iteration helpers
    def all_functions(self, prefix: str = "molgri"):
        for m in self.modules.values():
            if not m.name.startswith(prefix):
                continue
            for f in m.functions.values():
                yield f
            for c in m.classes.values():
                for f in c.methods.values():
                    yield f

    def subclasses(self, ci: ClassInfo) -> List[ClassInfo]:
        out = []
        for m in self.modules.values():
            for c in m.classes.values():
                if c is not ci and ci in c.mro():
                    out.append(c)
        return out


import math
EXT_CONSTS = {
    "scipy.constants.pi": math.pi,
    "numpy.pi": math.pi,
    "math.pi": math.pi,
    "scipy.constants.golden": (1 + 5 ** 0.5) / 2,
}


def find_nodes(tree, typ, pred=None):
    out = []
    for n in ast.walk(tree):
        if isinstance(n, typ) and (pred is None or pred(n)):
            out.append(n)
    return out


def enclosing_function(node) -> Optional[ast.AST]:
    n = getattr(node, "_parent", None)
    while n is not None and not isinstance(n, (ast.FunctionDef, ast.AsyncFunctionDef, ast.Lambda)):
        n = getattr(n, "_parent", None)
    return n


def enclosing_stmt(node) -> ast.stmt:
    n = node
    while n is not None and not isinstance(n, ast.stmt):
        n = getattr(n, "_parent", None)
    return n
