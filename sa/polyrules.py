"""OWN / ORD rules on molgri/space/polytopes.py shared by C08 (prefix stability, caches) and C18 (index permanence)."""
from __future__ import annotations

import ast

from .model import Repo, AnalysisError, src, norm_stmt, enclosing_function
from .astutil import normaliser_functions
from .rules.ordkind import OrdAnalysis, ASC

PO = "molgri.space.polytopes"


def _is_self_attr(n, attr=None):
    return isinstance(n, ast.Attribute) and isinstance(n.value, ast.Name) and n.value.id == "self" and (attr is None or n.attr == attr)


def _func_of(m, node):
    f = enclosing_function(node)
    names = []
    while f is not None:
        names.append(getattr(f, "name", "<lambda>"))
        f = enclosing_function(f)
    cls = None
    p = getattr(node, "_parent", None)
    while p is not None:
        if isinstance(p, ast.ClassDef):
            cls = p.name
            break
        p = getattr(p, "_parent", None)
    return (cls + "." if cls else "") + ".".join(reversed(names))


def _is_index_store(n):
    if isinstance(n, (ast.Assign, ast.AugAssign)):
        tgts = n.targets if isinstance(n, ast.Assign) else [n.target]
        return any(isinstance(t, ast.Subscript) and isinstance(t.slice, ast.Constant) and t.slice.value == "central_index" for t in tgts)
    if isinstance(n, ast.Call):
        if any(k.arg == "central_index" for k in n.keywords):
            return True
        if src(n.func).endswith("set_node_attributes") and any(isinstance(a, ast.Constant) and a.value == "central_index" for a in n.args):
            return True
    return False


def index_writers(ctx, repo: Repo, pid: str):
    """central_index is written only on the path of Polytope._end_of_divison (that method or private steps called from nowhere else);
    returns the spliced view of _end_of_divison (helpers inlined) for the assignment rule"""
    from .astutil import helper_closure, splice_self_calls
    from .model import set_parents
    m = repo.module(PO)
    ci = repo.cls(PO, "Polytope")
    fi = ci.methods.get("_end_of_divison")
    if fi is None:
        raise AnalysisError("anchor vanished: Polytope._end_of_divison")
    closure = {f"Polytope.{x}" for x in helper_closure(ci, {"_end_of_divison"})}
    writers = [(n, _func_of(m, n)) for n in ast.walk(m.tree) if _is_index_store(n)]
    ctx.instance("OWN", max(1, len(writers)))
    where = f"{m.relpath}:Polytope._end_of_divison"
    if not writers:
        ctx.inconclusive("OWN", f"{pid}.index.writers", "no assignment of permanent indices (central_index) found", where)
        return None
    bad = [w for w in writers if w[1] not in closure]
    for n, fn in bad:
        ctx.violate("OWN", f"{pid}.index.writers", "a second writer of the permanent node index exists: indices assigned at an earlier level can "
                    "change after further subdivision (prefix stability / index permanence lost)", f"{m.relpath}:{fn}", norm_stmt(n)[:200],
                    witness=f"central_index written in {fn}; the only legitimate writer is Polytope._end_of_divison (and private steps called "
                            "only from it)")
    if not bad:
        ctx.ok("OWN", f"{pid}.index.writers", "the permanent index is written only on the path of Polytope._end_of_divison "
               f"({len(writers)} store, in {sorted({w[1] for w in writers})})", where)
    view = splice_self_calls(ci, fi.node)
    set_parents(view)
    stores = [n for n in ast.walk(view) if _is_index_store(n) and isinstance(n, ast.Assign)]
    return (view, stores[0]) if stores else None


def index_assignment(ctx, repo: Repo, pid: str, store):
    from .astutil import Canon, helper_closure
    ci = repo.cls(PO, "Polytope")
    fi = ci.methods.get("_end_of_divison")
    if fi is None:
        raise AnalysisError("anchor vanished: Polytope._end_of_divison")
    ctx.analysed(fi)
    where = fi.where
    ctx.instance("OWN", 4)
    if store is None:
        ctx.inconclusive("OWN", f"{pid}.index.value", "index store not recognised", where)
        return
    view, store = store
    # names assigned once in the (spliced) method, protected: loop variables
    loop = getattr(store, "_parent", None)
    while loop is not None and not isinstance(loop, ast.For):
        loop = getattr(loop, "_parent", None)
    loop_vars = {x.id for x in ast.walk(loop.target) if isinstance(x, ast.Name)} if loop is not None else set()
    cn = Canon(Canon.single_defs(view.body, exclude=loop_vars))
    MAXCI = "self.current_max_ci"
    v = store.value
    lst = None
    verdict = None        # True ok / False wrong / None unknown
    key_ok = False
    if loop is not None and isinstance(loop.iter, ast.Call) and isinstance(loop.iter.func, ast.Name) and loop.iter.func.id == "enumerate" and \
            isinstance(loop.target, ast.Tuple) and len(loop.target.elts) == 2 and isinstance(loop.target.elts[0], ast.Name) and loop.iter.args:
        ivar = loop.target.elts[0].id
        nvar = loop.target.elts[1].id if isinstance(loop.target.elts[1], ast.Name) else None
        lst = loop.iter.args[0]
        start = {k.arg: k.value for k in loop.iter.keywords}.get("start", loop.iter.args[1] if len(loop.iter.args) > 1 else None)
        key_ok = nvar is not None and nvar in {x.id for x in ast.walk(store.targets[0]) if isinstance(x, ast.Name)}
        uses_i = ivar in {x.id for x in ast.walk(v) if isinstance(x, ast.Name)}
        # the stored value as a polynomial in the position i, the running maximum M and the number of new nodes n
        from .alg import Poly
        I_, M_, N_ = Poly.sym("i"), Poly.sym("M"), Poly.sym("n")
        ltxt0 = src(lst)

        def lin(e):
            e = cn.expand(e)
            if isinstance(e, ast.Constant) and isinstance(e.value, int) and not isinstance(e.value, bool):
                return Poly.const(e.value)
            if isinstance(e, ast.Name):
                return I_ if e.id == ivar else None
            if _is_self_attr(e, "current_max_ci"):
                return M_
            if isinstance(e, ast.Call) and isinstance(e.func, ast.Name) and e.func.id == "len" and e.args and \
                    src(e.args[0]) in (ltxt0, cn.text(lst)):
                return N_
            if isinstance(e, ast.BinOp) and isinstance(e.op, (ast.Add, ast.Sub, ast.Mult)):
                a_, b_ = lin(e.left), lin(e.right)
                if a_ is None or b_ is None:
                    return None
                return a_ + b_ if isinstance(e.op, ast.Add) else (a_ - b_ if isinstance(e.op, ast.Sub) else a_ * b_)
            if isinstance(e, ast.UnaryOp) and isinstance(e.op, ast.USub):
                a_ = lin(e.operand)
                return None if a_ is None else Poly.const(0) - a_
            return None
        pv = lin(v)
        if start is not None:
            # enumerate(L, start=S): the loop counter already carries the offset S
            ps = lin(start)
            pv = None if (pv is None or ps is None) else pv - I_ + (ps + I_)
        if not uses_i:
            verdict = False
        elif pv is not None:
            verdict = (pv == M_ + I_)
    if verdict is True and key_ok:
        ctx.ok("OWN", f"{pid}.index.value", "the i-th new node of a level receives index current_max_ci + i (all indices of a level lie above "
               "every earlier level's)", where, norm_stmt(store))
    elif verdict is False or (verdict is True and not key_ok):
        ctx.violate("OWN", f"{pid}.index.value", "new nodes do not receive current_max_ci + position: level ordering of the permanent "
                    "indices is lost", where, norm_stmt(store), witness=f"value {src(v)}; key is the enumerated node: {key_ok}")
    else:
        ctx.inconclusive("OWN", f"{pid}.index.value", "index assignment loop not recognised", where, norm_stmt(store))
    # the enumerated list: nodes of the current level only
    if lst is not None:
        le = cn.expand(lst)
        comp = le if isinstance(le, ast.ListComp) else None
        if comp is not None:
            conds = [cn.expand(c) for g in comp.generators for c in g.ifs]
            on_level = "level" in src(comp.generators[0].iter)
            eq_cur = any(isinstance(c, ast.Compare) and len(c.ops) == 1 and isinstance(c.ops[0], ast.Eq) and
                         any(_is_self_attr(x, "current_level") for x in [c.left] + c.comparators) for c in conds)
            other_cmp = any(isinstance(c, ast.Compare) and not (len(c.ops) == 1 and isinstance(c.ops[0], ast.Eq)) and
                            any(_is_self_attr(x, "current_level") for x in ast.walk(c)) for c in conds)
            if on_level and eq_cur and not other_cmp:
                ctx.ok("OWN", f"{pid}.index.level", "only the nodes created at the current level receive an index (existing indices are never "
                       "rewritten)", where, src(comp)[:160])
            elif on_level and (other_cmp or not conds):
                ctx.violate("OWN", f"{pid}.index.level", "indices are (re)assigned to nodes that are not restricted to the current level: "
                            "earlier indices change on subdivision", where, src(comp)[:200], witness="selection is not `level == self.current_level`")
            else:
                ctx.inconclusive("OWN", f"{pid}.index.level", "selection of new nodes not recognised", where, witness=src(comp)[:160])
        else:
            ctx.inconclusive("OWN", f"{pid}.index.level", "selection of new nodes not recognised", where, witness=src(le)[:160])
        # running maximum grows by the number of new nodes, afterwards
        ltxt = src(lst)
        upd = [a for a in ast.walk(view) if isinstance(a, (ast.Assign, ast.AugAssign)) and
               any(_is_self_attr(t, "current_max_ci") for t in (a.targets if isinstance(a, ast.Assign) else [a.target]))]
        after = [a for a in upd if a.lineno >= store.lineno and a is not store]
        good_upd = None
        if len(upd) == 1 and after:
            a0 = upd[0]
            if isinstance(a0, ast.AugAssign) and isinstance(a0.op, ast.Add):
                pu = lin(a0.value)
                good_upd = None if pu is None else (pu == N_)
            elif isinstance(a0, ast.Assign):
                pu = lin(a0.value)
                good_upd = None if pu is None else (pu == M_ + N_)
        if good_upd:
            ctx.ok("OWN", f"{pid}.index.max", "the running maximum grows by the number of new nodes after the assignment", where, norm_stmt(upd[0]))
        elif good_upd is False or len(upd) != 1 or not after:
            ctx.violate("OWN", f"{pid}.index.max", "the running maximum index is not advanced by exactly the number of new nodes after the "
                        "assignment: indices collide or leave gaps", where, norm_stmt(upd[0]) if upd else "self.current_max_ci += len(new_nodes)",
                        witness=f"{len(upd)} update(s): {[norm_stmt(x) for x in upd]}")
        else:
            # recognised-wrong form: the maximum is taken from a CALL COUNTER - an attribute that some method bumps by one on every call
            # without testing that the node is new.  `G.add_node` on an existing key adds nothing (shared edge mid-points / face centres
            # of the cube and hypercube are "created" 2-4 times), so the counter runs ahead of the number of nodes and leaves gaps.
            counter = None
            a0 = upd[0]
            if isinstance(a0, ast.Assign) and isinstance(a0.value, ast.Attribute) and isinstance(a0.value.value, ast.Name) and a0.value.value.id == "self":
                cname = a0.value.attr
                pm_ = repo.module(PO)
                for ci_ in pm_.classes.values():
                    for fm_ in ci_.methods.values():
                        for n_ in ast.walk(fm_.node):
                            if isinstance(n_, ast.AugAssign) and _is_self_attr(n_.target, cname) and isinstance(n_.op, ast.Add) and \
                                    isinstance(n_.value, ast.Constant) and n_.value.value == 1:
                                guarded = False
                                q_ = getattr(n_, "_parent", None)
                                while q_ is not None and q_ is not fm_.node:
                                    if isinstance(q_, ast.If) and ("not in" in src(q_.test) or "has_node" in src(q_.test)):
                                        guarded = True
                                    q_ = getattr(q_, "_parent", None)
                                if not guarded:
                                    counter = (fm_, n_)
            if counter is not None:
                ctx.violate("OWN", f"{pid}.index.max", "the running maximum index is taken from a counter of CALLS of the node-adding routine, not "
                            "from the number of nodes: a mid-point shared by several divided edges is added more than once (add_node on an "
                            "existing key adds nothing), the counter runs ahead and permanent indices are no longer 0..n-1 (cube and "
                            "hypercube, from the second subdivision)", where, norm_stmt(upd[0]),
                            witness=f"{counter[0].qualname}: {norm_stmt(counter[1])} on every call")
            else:
                ctx.inconclusive("OWN", f"{pid}.index.max", "update of the running maximum not recognised", where, norm_stmt(upd[0]))
    lev = [a for a in ast.walk(view) if isinstance(a, ast.AugAssign) and _is_self_attr(a.target, "current_level")]
    ok_lev = len(lev) == 1 and isinstance(lev[0].op, ast.Add) and isinstance(lev[0].value, ast.Constant) and lev[0].value.value == 1
    lev_assign = [a for a in ast.walk(view) if isinstance(a, ast.Assign) and any(_is_self_attr(t, "current_level") for t in a.targets)]
    if ok_lev:
        ctx.ok("OWN", f"{pid}.index.levelstep", "the level counter advances by one after the indices of the level are assigned", where, norm_stmt(lev[0]))
    elif lev_assign and all(src(a.value).replace(" ", "") in ("self.current_level+1", "1+self.current_level") for a in lev_assign):
        ctx.ok("OWN", f"{pid}.index.levelstep", "the level counter advances by one", where, norm_stmt(lev_assign[0]))
    elif not lev and not lev_assign:
        ctx.violate("OWN", f"{pid}.index.levelstep", "the level counter is not advanced at the end of a division: the next level's nodes are "
                    "tagged with the old level and re-indexed", where, witness="no update of self.current_level")
    else:
        ctx.violate("OWN", f"{pid}.index.levelstep", "the level counter does not advance by exactly one", where,
                    witness=str([norm_stmt(x) for x in lev + lev_assign]))
    # other writers of current_max_ci / current_level
    m = repo.module(PO)
    allowed = {f"Polytope.{x}" for x in helper_closure(ci, {"_end_of_divison"})} | {"Polytope.__init__"}
    others = []
    for n in ast.walk(m.tree):
        if isinstance(n, (ast.Assign, ast.AugAssign)):
            tgts = n.targets if isinstance(n, ast.Assign) else [n.target]
            for t in tgts:
                if _is_self_attr(t) and t.attr in ("current_max_ci", "current_level"):
                    fn = _func_of(m, n)
                    if fn not in allowed:
                        others.append((n, fn))
    ctx.check(not others, "OWN", f"{pid}.index.counters", "the level counter and the running maximum are written only by __init__ and "
              "on the path of _end_of_divison", where, norm_stmt(others[0][0]) if others else "", witness=str([o[1] for o in others]))


def node_adding(ctx, repo: Repo, pid: str):
    """G.add_node only in _add_polytope_point with level=current level and projection = normalised node"""
    m = repo.module(PO)
    adds = []
    for n in ast.walk(m.tree):
        if isinstance(n, ast.Call) and isinstance(n.func, ast.Attribute) and n.func.attr in ("add_node", "add_nodes_from") and \
                src(n.func.value) == "self.G":
            adds.append((n, _func_of(m, n)))
    ctx.instance("OWN", max(1, len(adds)))
    where = f"{m.relpath}:Polytope._add_polytope_point"
    if not adds:
        ctx.inconclusive("OWN", f"{pid}.nodes.adder", "no node-adding site found", where)
        return
    bad = [a for a in adds if a[1] != "Polytope._add_polytope_point"]
    for n, fn in bad:
        ctx.violate("OWN", f"{pid}.nodes.adder", "nodes are added to the polytope graph outside _add_polytope_point (without level / "
                    "projection bookkeeping)", f"{m.relpath}:{fn}", src(n)[:160], witness=fn)
    for n, fn in adds:
        if fn != "Polytope._add_polytope_point":
            continue
        kw = {k.arg: k.value for k in n.keywords}
        key = n.args[0] if n.args else None
        pt = None
        if isinstance(key, ast.Call) and isinstance(key.func, ast.Name) and key.func.id == "tuple" and key.args:
            pt = src(key.args[0])
        proj = kw.get("projection")
        okp = isinstance(proj, ast.Call) and isinstance(proj.func, ast.Name) and proj.func.id in normaliser_functions(repo) and \
            len(proj.args) == 1 and src(proj.args[0]) == pt and not proj.keywords
        if okp:
            ctx.ok("OWN", f"{pid}.nodes.projection", "every node's projection is the node itself scaled to unit length (set at the only "
                   "node-adding site)", where, src(n)[:160])
        else:
            is_norm_call = isinstance(proj, ast.Call) and isinstance(proj.func, ast.Name) and proj.func.id in normaliser_functions(repo)
            definite = proj is None or (pt is not None and src(proj) == pt) or \
                (is_norm_call and (proj.keywords or len(proj.args) != 1 or (pt is not None and src(proj.args[0]) != pt)))
            if definite:
                ctx.violate("OWN", f"{pid}.nodes.projection", "projection stored with a node is not that node scaled to unit length", where,
                            src(n)[:200], witness=f"projection={src(proj) if proj is not None else None}, node={pt}")
            else:
                ctx.inconclusive("OWN", f"{pid}.nodes.projection", "projection expression not recognised as the normalised node", where,
                                 witness=f"projection={src(proj)[:100]}, node={pt}")
        lv = kw.get("level")
        ctx.check(lv is not None and _is_self_attr(lv, "current_level"), "OWN", f"{pid}.nodes.level", "new nodes are tagged with the current "
                  "level (so that exactly they receive the next block of indices)", where, src(n)[:160], witness=src(lv) if lv is not None else "no level")
    # nodes are never removed from self.G
    rem = []
    for n in ast.walk(m.tree):
        if isinstance(n, ast.Call) and isinstance(n.func, ast.Attribute) and n.func.attr in ("remove_node", "remove_nodes_from", "clear") and \
                src(n.func.value) == "self.G":
            rem.append((n, _func_of(m, n)))
    # ... nor through a helper that removes nodes from the graph it is given, called with (an alias of) self.G
    from .astutil import Canon
    removers = {}
    for fname, fi_ in m.functions.items():
        params_ = fi_.params()
        for n in ast.walk(fi_.node):
            if isinstance(n, ast.Call) and isinstance(n.func, ast.Attribute) and n.func.attr in ("remove_node", "remove_nodes_from", "clear") and \
                    isinstance(n.func.value, ast.Name) and n.func.value.id in params_:
                removers[fname.split(".")[-1]] = params_.index(n.func.value.id)
    for ci_ in m.classes.values():
        for fi_ in ci_.methods.values():
            cn_ = Canon(Canon.single_defs(fi_.node.body))
            for n in ast.walk(fi_.node):
                if isinstance(n, ast.Call) and isinstance(n.func, ast.Name) and n.func.id in removers and len(n.args) > removers[n.func.id]:
                    a_ = n.args[removers[n.func.id]]
                    if cn_.text(a_).replace(" ", "") == "self.G":
                        rem.append((n, fi_.where))
    ctx.instance("OWN", 1 + len(removers))
    ctx.check(not rem, "OWN", f"{pid}.nodes.never_removed", "nodes are never removed from the polytope graph (node count identifies the "
              "subdivision state; cached sorted node arrays stay valid)", f"{m.relpath}", src(rem[0][0]) if rem else "", witness=str([r[1] for r in rem]))


def sorted_prefix(ctx, repo: Repo, pid: str):
    """get_nodes(N) = first N rows of the index-sorted node array; half-hypercube selection sorted by index"""
    ci = repo.cls(PO, "Polytope")
    gs = ci.methods.get("_get_attributes_array_sorted_by_index")
    gn = ci.methods.get("get_nodes")
    if gs is None or gn is None:
        raise AnalysisError("anchor vanished: Polytope.get_nodes / _get_attributes_array_sorted_by_index")
    ctx.analysed(gs)
    ctx.analysed(gn)
    ctx.instance("ORD", 3)
    # the sort may sit in a private helper that only _get_attributes_array_sorted_by_index calls
    from .astutil import helper_closure
    scope_fns = [gs] + [ci.find_method(h_) for h_ in sorted(helper_closure(ci, ["_get_attributes_array_sorted_by_index"]) - {"_get_attributes_array_sorted_by_index"})
                        if ci.find_method(h_) is not None]
    for f_ in scope_fns[1:]:
        ctx.analysed(f_)
    sorts = [(f_, n) for f_ in scope_fns for n in ast.walk(f_.node) if isinstance(n, ast.Call) and isinstance(n.func, ast.Name) and n.func.id == "sorted"]
    ok = None
    why = "no sorted(...) call"
    for f_, s in sorts:
        kw = {k.arg: k.value for k in s.keywords}
        key = kw.get("key")
        rev = kw.get("reverse")
        # the key as an expression: a lambda body, or the single return of a named function defined next to the call
        kbody = None
        if isinstance(key, ast.Lambda):
            kbody = key.body
        elif isinstance(key, ast.Name):
            defs_ = [d_ for d_ in ast.walk(f_.node) if isinstance(d_, ast.FunctionDef) and d_.name == key.id and d_ is not f_.node]
            if not defs_ and f_.module.functions.get(key.id) is not None:
                defs_ = [f_.module.functions[key.id].node]
            if len(defs_) == 1:
                rets_ = [r_ for r_ in ast.walk(defs_[0]) if isinstance(r_, ast.Return) and r_.value is not None]
                if len(rets_) == 1:
                    kbody = rets_[0].value
        rev_ok = rev is None or (isinstance(rev, ast.Constant) and rev.value is False)
        on_nodes = "self.G.nodes" in src(s.args[0]) if s.args else False
        why = f"key={src(key) if key is not None else None}, reverse={src(rev) if rev is not None else None}"
        if not on_nodes:
            continue
        if key is None or (kbody is not None and "central_index" not in src(kbody)) or (rev is not None and isinstance(rev, ast.Constant) and rev.value is True):
            ok = False
        elif kbody is not None and rev_ok:
            ok = True
        else:
            ok = None
        last = (f_, s)
    if ok:
        ctx.ok("ORD", f"{pid}.sorted.key", "node arrays are sorted ascending by the permanent index", last[0].where, src(last[1])[:160])
    elif ok is False:
        ctx.violate("ORD", f"{pid}.sorted.key", "node arrays are not sorted ascending by the permanent index", last[0].where, src(last[1])[:200], witness=why)
    else:
        ctx.inconclusive("ORD", f"{pid}.sorted.key", "sorting of the node array not recognised", gs.where, witness=why)
    # get_nodes: [:N] of that array
    sl = [n for n in ast.walk(gn.node) if isinstance(n, ast.Subscript) and isinstance(n.slice, ast.Slice) and isinstance(n.value, ast.Call)
          and "_get_attributes_array_sorted_by_index" in src(n.value.func)]
    okp = len(sl) == 1 and sl[0].slice.lower is None and isinstance(sl[0].slice.upper, ast.Name) and sl[0].slice.upper.id == "N" and sl[0].slice.step is None
    if okp:
        ctx.ok("ORD", f"{pid}.prefix", "get_nodes(N) is the [:N] prefix of the index-sorted array: the N-point grid is a prefix of every "
               "larger one", gn.where, src(sl[0])[:120])
    elif sl:
        ctx.violate("ORD", f"{pid}.prefix", "get_nodes(N) is not the first N rows of the index-sorted array", gn.where, src(sl[0])[:160],
                    witness=src(sl[0].slice))
    else:
        ctx.inconclusive("ORD", f"{pid}.prefix", "prefix selection in get_nodes not recognised", gn.where)
    # cache keyed by node count (the store may sit in a helper of _get_attributes_array_sorted_by_index: scope_fns)
    stores = [(f_, n) for f_ in scope_fns for n in ast.walk(f_.node) if isinstance(n, ast.Assign) and _is_self_attr(n.targets[0], "current_nodes")]
    tests = [(f_, n) for f_ in scope_fns for n in ast.walk(f_.node) if isinstance(n, ast.Compare) and "self.current_nodes[1]" in src(n)]
    ctx.instance("OWN")
    if not stores and not tests:
        ctx.ok("OWN", f"{pid}.cache.key", "no cache of sorted nodes (recomputed on every call)", gs.where)
    else:
        verdict, why_ = None, f"{len(stores)} store(s), {len(tests)} validity test(s)"
        if len(stores) == 1 and len(tests) == 1 and isinstance(stores[0][1].value, ast.Tuple) and len(stores[0][1].value.elts) == 2 and \
                len(tests[0][1].ops) == 1 and isinstance(tests[0][1].ops[0], (ast.Eq, ast.NotEq)):
            f_s, st_ = stores[0]
            f_t, t_ = tests[0]
            cnt = src(st_.value.elts[1])
            # the count that is stored and compared is the current number of nodes (a local or a parameter bound to it by the caller)
            def is_count(fn_, name_):
                defs_ = [a for a in ast.walk(fn_.node) if isinstance(a, ast.Assign) and isinstance(a.targets[0], ast.Name) and a.targets[0].id == name_]
                if defs_:
                    return "number_of_nodes" in src(defs_[0].value)
                if name_ in fn_.params():
                    k_ = fn_.params().index(name_) - (1 if fn_.params()[:1] == ["self"] else 0)
                    for g_ in scope_fns:
                        for c_ in ast.walk(g_.node):
                            if isinstance(c_, ast.Call) and isinstance(c_.func, ast.Attribute) and c_.func.attr == fn_.name.split(".")[-1]:
                                a_ = c_.args[k_] if k_ < len(c_.args) else next((kw.value for kw in c_.keywords if kw.arg == name_), None)
                                if a_ is not None and (("number_of_nodes" in src(a_)) or (isinstance(a_, ast.Name) and is_count(g_, a_.id))):
                                    return True
                return "number_of_nodes" in name_
            cnt_ok = is_count(f_s, cnt) and cnt in src(t_)
            # the store must lie on the branch where the counts DIFFER
            holder = getattr(t_, "_parent", None)
            while holder is not None and not isinstance(holder, ast.If):
                holder = getattr(holder, "_parent", None)
            if holder is not None and cnt_ok and f_s is f_t:
                in_body = any(st_ is x for b in holder.body for x in ast.walk(b))
                in_else = any(st_ is x for b in holder.orelse for x in ast.walk(b))
                # direct test or negated test
                neg = isinstance(holder.test, ast.UnaryOp) and isinstance(holder.test.op, ast.Not)
                differ_is_body = isinstance(t_.ops[0], ast.NotEq) != neg
                if (differ_is_body and in_body) or (not differ_is_body and in_else):
                    verdict = True
                elif (differ_is_body and in_else) or (not differ_is_body and in_body):
                    verdict, why_ = False, "the array is re-computed and stored when the counts are EQUAL and the old one re-used when they differ"
                elif not in_body and not in_else:
                    # early-return form:  if equal: return cached ... ; <store>
                    ret_cached = any(isinstance(x, ast.Return) for b in (holder.orelse if differ_is_body else holder.body) for x in ast.walk(b))
                    verdict = True if ret_cached and st_.lineno > holder.lineno else None
            elif not cnt_ok:
                verdict, why_ = False, f"the stored / compared count `{cnt}` is not the current number of nodes"
        elif stores and not tests:
            verdict, why_ = False, "the cached array is stored but never validated"
        if verdict is None and len(stores) > 1:
            from .astutil import Canon
            for f_s, st_ in stores:
                ve = Canon(Canon.single_defs(f_s.node.body)).expand(st_.value)
                # definitions of the stored names in the SAME block as the store (the branch that refreshes the cache)
                blk = getattr(st_, "_parent", None)
                sibs = []
                for fld in ("body", "orelse"):
                    b_ = getattr(blk, fld, None)
                    if isinstance(b_, list) and st_ in b_:
                        sibs = b_
                names_ = {n_.id for n_ in ast.walk(ve) if isinstance(n_, ast.Name)}
                txt = src(ve) + " ".join(src(a.value) for a in sibs if isinstance(a, ast.Assign) and len(a.targets) == 1 and
                                         isinstance(a.targets[0], ast.Name) and a.targets[0].id in names_)
                if "self.current_nodes" in txt:
                    verdict, why_ = False, ("the new cache content is assembled from the OLD cached array plus a part of the nodes: correct only if "
                                            "exactly the assumed nodes were added since the cache was filled (e.g. one division), otherwise nodes are "
                                            "missing from the sorted array and the wrong array stays cached")
        if verdict:
            ctx.ok("OWN", f"{pid}.cache.key", "the sorted-node cache is stored together with, and validated against, the current node count",
                   stores[0][0].where, norm_stmt(stores[0][1]))
        elif verdict is False:
            ctx.violate("OWN", f"{pid}.cache.key", "the sorted-node cache is not validated against the node count it was computed for: a stale "
                        "node order survives a subdivision", gs.where, norm_stmt(stores[0][1]) if stores else src(tests[0][1]), witness=why_)
        else:
            ctx.inconclusive("OWN", f"{pid}.cache.key", "validation of the sorted-node cache not recognised", gs.where, witness=why_)

def half_hypercube(ctx, repo: Repo, pid: str):
    ci = repo.cls(PO, "Cube4DPolytope")
    fi = ci.methods.get("get_half_of_hypercube")
    if fi is None:
        raise AnalysisError("anchor vanished: Cube4DPolytope.get_half_of_hypercube")
    ctx.analysed(fi)
    where = fi.where
    oa = OrdAnalysis(repo, fi).run()
    rets = [n for n in ast.walk(fi.node) if isinstance(n, ast.Return) and n.value is not None]
    ctx.instance("ORD", 2)
    if len(rets) != 1:
        ctx.inconclusive("ORD", f"{pid}.half.return", "expected one return", where)
        return
    r = rets[0].value
    # self.get_nodes(projection=projection)[IDX][:N]
    ok = isinstance(r, ast.Subscript) and isinstance(r.slice, ast.Slice) and isinstance(r.value, ast.Subscript)
    if not ok:
        ctx.inconclusive("ORD", f"{pid}.half.return", "half-hypercube selection idiom not recognised", where, src(r)[:200])
        return
    idx = r.value.slice
    k = oa.expr_kind.get(id(idx))
    if k is not None and k.order == ASC:
        ctx.ok("ORD", f"{pid}.half.sorted", "the half-hypercube selection indexes the node array with ascending permanent indices "
               "(index order preserved)", where, src(r)[:160], derived=k.why)
    elif k is not None and k.order in ("UNORDERED", "DESC"):
        ctx.violate("ORD", f"{pid}.half.sorted", "half-hypercube nodes are not returned in index order", where, src(r)[:160], witness=f"{k.order} ({k.why})")
    else:
        from .rules.ordkind import unordered_construction
        if k is not None and unordered_construction(k):
            ctx.violate("ORD", f"{pid}.half.sorted", "the selected indices are never sorted before they index the node array", where,
                        src(r)[:160], witness=f"{k.order} ({k.why})")
        else:
            ctx.inconclusive("ORD", f"{pid}.half.sorted", "order of the selected indices not derivable", where, witness=str(k))
    ctx.check(isinstance(r.slice.upper, ast.Name) and r.slice.upper.id == "N" and r.slice.lower is None, "ORD", f"{pid}.half.prefix",
              "the N-point rotation grid is the [:N] prefix of the index-ordered half selection", where, src(r)[:160], witness=src(r.slice))
    txt = src(fi.node)
    ctx.instance("SELECT")
    from .astutil import hemisphere_predicates
    preds = hemisphere_predicates(repo)
    used = [(n, neg) for n, neg in _filter_calls(fi.node) if n in preds]
    if not preds or not used:
        ctx.inconclusive("SELECT", f"{pid}.half.predicate", "canonical-hemisphere filter not recognised in the half selection", where,
                         witness=f"predicates {sorted(preds)}")
    else:
        good = all((preds[n] == 1) != neg for n, neg in used)
        ctx.check(good, "SELECT", f"{pid}.half.predicate", "nodes are selected by the canonical-hemisphere test on their projections "
                  "(positive polarity: the same half as the rotation grid's upper indices)", where, witness=f"filters {used}")


def _filter_calls(fn_node):
    """(function name, negated?) of the calls used as comprehension filters / if-tests in a function"""
    out = []
    tests = []
    for n in ast.walk(fn_node):
        if isinstance(n, (ast.ListComp, ast.GeneratorExp, ast.SetComp)):
            for g in n.generators:
                tests += g.ifs
        elif isinstance(n, ast.If):
            tests.append(n.test)
    for t in tests:
        neg = False
        while isinstance(t, ast.UnaryOp) and isinstance(t.op, ast.Not):
            neg, t = not neg, t.operand
        if isinstance(t, ast.Call) and isinstance(t.func, ast.Name):
            out.append((t.func.id, neg))
    # boolean-mask selection:  mask = np.array([pred(p) for p in X]) ; X[mask]  /  X[~mask]
    def mask_pred(v):
        while isinstance(v, ast.Call) and src(v.func).split(".")[-1] in ("array", "asarray", "list", "fromiter") and v.args:
            v = v.args[0]
        if isinstance(v, (ast.ListComp, ast.GeneratorExp)) and len(v.generators) == 1 and not v.generators[0].ifs:
            e = v.elt
            neg = False
            while isinstance(e, ast.UnaryOp) and isinstance(e.op, ast.Not):
                neg, e = not neg, e.operand
            if isinstance(e, ast.Call) and isinstance(e.func, ast.Name):
                return e.func.id, neg
        return None
    masks = {}
    for n in ast.walk(fn_node):
        if isinstance(n, ast.Assign) and len(n.targets) == 1 and isinstance(n.targets[0], ast.Name):
            mp = mask_pred(n.value)
            if mp is not None:
                masks[n.targets[0].id] = mp
    for n in ast.walk(fn_node):
        if isinstance(n, ast.Subscript):
            sl = n.slice
            inv = False
            while isinstance(sl, ast.UnaryOp) and isinstance(sl.op, (ast.Invert, ast.Not)):
                inv, sl = not inv, sl.operand
            if isinstance(sl, ast.Call) and src(sl.func).split(".")[-1] == "logical_not" and sl.args:
                inv, sl = not inv, sl.args[0]
            if isinstance(sl, ast.Name) and sl.id in masks:
                fn_, neg = masks[sl.id]
                out.append((fn_, neg != inv))
            elif mask_pred(sl) is not None:
                fn_, neg = mask_pred(sl)
                out.append((fn_, neg != inv))
    return out


# ---------------------------------------------------------------------------------------------------------------------
def _tol_value(repo, m, e):
    """numeric value of a tolerance expression if it is a compile-time constant, else None"""
    if e is None:
        return None
    if isinstance(e, ast.Constant) and isinstance(e.value, (int, float)) and not isinstance(e.value, bool):
        return float(e.value)
    s = src(e).replace(" ", "")
    if s in ("np.finfo(float).eps", "np.finfo(np.float64).eps", "numpy.finfo(float).eps", "sys.float_info.epsilon", "np.spacing(1)", "np.spacing(1.0)"):
        return 2.220446049250313e-16
    if s in ("np.finfo(np.float32).eps",):
        return 1.1920929e-07
    if isinstance(e, ast.BinOp) and isinstance(e.op, (ast.Mult, ast.Div, ast.Pow)):
        a, b = _tol_value(repo, m, e.left), _tol_value(repo, m, e.right)
        if a is None or b is None:
            return None
        try:
            return a * b if isinstance(e.op, ast.Mult) else (a / b if isinstance(e.op, ast.Div) else a ** b)
        except (ZeroDivisionError, OverflowError):
            return None
    if isinstance(e, ast.UnaryOp) and isinstance(e.op, ast.USub):
        a = _tol_value(repo, m, e.operand)
        return -a if a is not None else None
    if isinstance(e, (ast.Name, ast.Attribute)):
        try:
            v = repo.const_value(m, e)
            return float(v) if isinstance(v, (int, float)) and not isinstance(v, bool) else None
        except (KeyError, AnalysisError, TypeError):
            return None
    return None


TOL_FLOOR = 1e-12


def float_tolerances(ctx, repo: Repo, pid: str, fnames=("_add_edges_of_len",)):
    """FLOATTOL: coordinates of level-k nodes are k-fold recursive midpoints, so computed distances carry rounding error that grows
    with the level; a comparison of such a distance with the expected edge length that is exact (==) or uses tolerances below
    1e-12 behaves like exact equality and silently drops edges (hence nodes) of the lattice from some level on."""
    m = repo.module(PO)
    n_sites = 0
    for ci in m.classes.values():
        for fi in ci.methods.values():
            if fi.name not in fnames:
                continue
            ctx.analysed(fi)
            float_names = set()
            for n in ast.walk(fi.node):
                if isinstance(n, ast.Assign) and len(n.targets) == 1 and isinstance(n.targets[0], ast.Name) and isinstance(n.value, ast.Call) and \
                        (repo.dotted_of(fi.module, n.value.func) or src(n.value.func)).split(".")[-1] in ("norm", "dist_on_sphere", "sqrt", "dist", "euclidean"):
                    float_names.add(n.targets[0].id)
            for n in ast.walk(fi.node):
                if isinstance(n, ast.Call) and (repo.dotted_of(fi.module, n.func) or "") in ("numpy.isclose", "numpy.allclose", "math.isclose"):
                    d = repo.dotted_of(fi.module, n.func)
                    n_sites += 1
                    ctx.instance("FLOATTOL")
                    kw = {k.arg: k.value for k in n.keywords}
                    if d == "math.isclose":
                        r_e, a_e, r_def, a_def = kw.get("rel_tol"), kw.get("abs_tol"), 1e-9, 0.0
                    else:
                        r_e = kw.get("rtol", n.args[2] if len(n.args) > 2 else None)
                        a_e = kw.get("atol", n.args[3] if len(n.args) > 3 else None)
                        r_def, a_def = 1e-5, 1e-8
                    r_v = r_def if r_e is None else _tol_value(repo, fi.module, r_e)
                    a_v = a_def if a_e is None else _tol_value(repo, fi.module, a_e)
                    if r_v is None or a_v is None:
                        ctx.inconclusive("FLOATTOL", f"{pid}.edge_tolerance", "tolerance of the edge-length test is not a compile-time constant",
                                         fi.where, src(n)[:120])
                    elif max(r_v, a_v) < TOL_FLOOR:
                        ctx.violate("FLOATTOL", f"{pid}.edge_tolerance", "the edge-length criterion compares a computed distance with the expected "
                                    "length at (near) machine precision: rounding error of recursively halved coordinates exceeds it from some "
                                    "subdivision level on, edges are silently not created and the level's node set is incomplete", fi.where,
                                    src(n)[:140], witness=f"rtol={r_v:g}, atol={a_v:g} (< {TOL_FLOOR:g})")
                    else:
                        ctx.ok("FLOATTOL", f"{pid}.edge_tolerance", f"edge-length test is tolerance based (rtol={r_v:g}, atol={a_v:g})", fi.where, src(n)[:120])
                if isinstance(n, ast.Compare) and len(n.ops) == 1 and isinstance(n.ops[0], (ast.Gt, ast.GtE, ast.Lt, ast.LtE)):
                    # an EXACT ordering test of a computed coordinate quantity against the edge length, used to skip a pair before the
                    # tolerant test is reached
                    sides = [n.left] + n.comparators
                    params_ = set(fi.params())
                    has_len = any(isinstance(x, ast.Name) and x.id in params_ and "len" in x.id for s_ in sides for x in ast.walk(s_))
                    computed = any(isinstance(x, ast.Call) and src(x.func).split(".")[-1] in ("max", "abs", "norm", "amax", "sum", "sqrt", "dot")
                                   for s_ in sides for x in ast.walk(s_)) or any(isinstance(o, ast.Name) and o.id in float_names for o in sides)
                    par_ = getattr(n, "_parent", None)
                    skips = isinstance(par_, ast.If) and any(isinstance(x, (ast.Continue, ast.Break)) for b_ in par_.body for x in ast.walk(b_))
                    if has_len and computed and skips:
                        n_sites += 1
                        ctx.instance("FLOATTOL")
                        ctx.violate("FLOATTOL", f"{pid}.edge_tolerance", "an exact ordering test of a computed coordinate difference against the edge "
                                    "length rejects pairs BEFORE the tolerant test: for coordinates that are not exactly representable the "
                                    "difference can exceed the length by one ulp, the edge (hence the lattice points on it) is silently lost", fi.where,
                                    src(n)[:140], witness="|dx| computed as 0.5257311121191337 vs edge_len 0.5257311121191336 -> pair skipped")
                if isinstance(n, ast.Compare) and len(n.ops) == 1 and isinstance(n.ops[0], (ast.Eq, ast.NotEq)):
                    ops_ = [n.left] + n.comparators
                    if any(isinstance(o, ast.Name) and o.id in float_names for o in ops_):
                        n_sites += 1
                        ctx.instance("FLOATTOL")
                        ctx.violate("FLOATTOL", f"{pid}.edge_tolerance", "a computed distance is compared with `==`: exact equality of rounded "
                                    "floating-point values drops edges of the lattice", fi.where, src(n)[:120], witness="exact comparison")
    if n_sites == 0:
        ctx.inconclusive("FLOATTOL", f"{pid}.edge_tolerance", "no edge-length comparison found in the edge-adding routine", f"{m.relpath}:Polytope._add_edges_of_len")


def second_neighbour_search(ctx, repo: Repo, pid: str):
    """CANDIDATES: the candidate partners for new edges are ALL second neighbours of a node: the walk over the direct neighbours
    must not be filtered (a pruned walk loses the partners that are reachable only through the pruned nodes)."""
    m = repo.module(PO)
    fi = m.functions.get("second_neighbours")
    if fi is None:
        raise AnalysisError("anchor vanished: polytopes.second_neighbours")
    ctx.analysed(fi)
    ctx.instance("CANDIDATES")
    params = fi.params()
    gname, nname = (params + ["graph", "node"])[:2]

    def is_direct(e):
        """graph.neighbors(node) / graph[node] / graph.adj[node], possibly wrapped in list()/set()/tuple()/iter()"""
        while isinstance(e, ast.Call) and isinstance(e.func, ast.Name) and e.func.id in ("list", "set", "tuple", "iter", "sorted", "frozenset") and e.args:
            e = e.args[0]
        if isinstance(e, ast.Call) and isinstance(e.func, ast.Attribute) and e.func.attr in ("neighbors", "adj", "__getitem__") and \
                src(e.func.value) == gname and e.args and src(e.args[0]) == nname:
            return True
        if isinstance(e, ast.Subscript) and src(e.value) in (gname, gname + ".adj") and src(e.slice) == nname:
            return True
        return False
    defs = {}
    for n in ast.walk(fi.node):
        if isinstance(n, ast.Assign) and len(n.targets) == 1 and isinstance(n.targets[0], ast.Name):
            defs.setdefault(n.targets[0].id, []).append(n.value)
    direct_names = {k for k, vs in defs.items() if all(is_direct(v) for v in vs)}

    def classify(e, depth=0):
        """'full' | 'filtered' | None for an expression that is iterated as the set of intermediate nodes"""
        if depth > 4:
            return None
        if is_direct(e):
            return "full"
        if isinstance(e, ast.Name):
            if e.id in direct_names:
                return "full"
            vs = defs.get(e.id)
            if vs:
                ks = [classify(v, depth + 1) for v in vs]
                if any(k == "filtered" for k in ks):
                    return "filtered"
                if all(k == "full" for k in ks):
                    return "full"
            return None
        if isinstance(e, (ast.ListComp, ast.GeneratorExp, ast.SetComp)) and len(e.generators) == 1:
            g = e.generators[0]
            base = classify(g.iter, depth + 1)
            if base is None:
                return None
            if g.ifs:
                return "filtered"
            if isinstance(e.elt, ast.Name) and isinstance(g.target, ast.Name) and e.elt.id == g.target.id:
                return base
            return None
        if isinstance(e, ast.Subscript) and isinstance(e.slice, ast.Slice):
            b = classify(e.value, depth + 1)
            return "filtered" if b else None
        return None
    verdicts = []
    # iteration sites whose loop variable is used as the intermediate node:  graph.neighbors(v) / graph[v]
    for n in ast.walk(fi.node):
        gens = []
        if isinstance(n, (ast.ListComp, ast.GeneratorExp, ast.SetComp)):
            gens = [(g.target, g.iter, g.ifs, n) for g in n.generators]
        elif isinstance(n, ast.For):
            gens = [(n.target, n.iter, [], n)]
        for tg, it_, ifs, holder in gens:
            if not isinstance(tg, ast.Name):
                continue
            v = tg.id
            used_as_intermediate = any(
                (isinstance(c, ast.Call) and isinstance(c.func, ast.Attribute) and c.func.attr == "neighbors" and src(c.func.value) == gname and
                 c.args and src(c.args[0]) == v) or
                (isinstance(c, ast.Subscript) and src(c.value) in (gname, gname + ".adj") and src(c.slice) == v)
                for c in ast.walk(holder))
            if not used_as_intermediate:
                continue
            k = classify(it_)
            if k == "full" and ifs:
                k = "filtered"
            if k == "full" and isinstance(holder, ast.For):
                # a `continue`/`if` on the intermediate node at the top of the loop body is a filter as well
                for st in holder.body[:2]:
                    if isinstance(st, ast.If) and v in {x.id for x in ast.walk(st.test) if isinstance(x, ast.Name)} and \
                            any(isinstance(y, ast.Continue) for y in ast.walk(st)):
                        k = "filtered"
            verdicts.append((k, src(it_)[:80]))
    if not verdicts:
        ctx.inconclusive("CANDIDATES", f"{pid}.second_neighbours", "walk over the direct neighbours not recognised", fi.where)
    elif any(k == "filtered" for k, _ in verdicts):
        ctx.violate("CANDIDATES", f"{pid}.second_neighbours", "the search for second neighbours walks only through SOME of the direct neighbours: "
                    "partners that are reachable only through a skipped node never become candidates, their edges and the midpoints "
                    "on them are missing from the next level", fi.where, "for neighbor_list in [graph.neighbors(n) for n in ...]",
                    witness=str([t for k, t in verdicts if k == "filtered"]))
    elif all(k == "full" for k, _ in verdicts):
        ctx.ok("CANDIDATES", f"{pid}.second_neighbours", "second neighbours are collected through every direct neighbour", fi.where,
               derived=str([t for _, t in verdicts]))
    else:
        ctx.inconclusive("CANDIDATES", f"{pid}.second_neighbours", "intermediate-node set of the second-neighbour walk not recognised", fi.where,
                         witness=str(verdicts))


def subdivision_unconditional(ctx, repo: Repo, pid: str):
    """DOM: every call of divide_edges performs one subdivision: in Polytope.divide_edges the node-adding step and the index-assigning
    step, and in every override the call of super().divide_edges(), are executed on every path (top level of the body, no earlier
    return).  A request that is silently ignored (level cap, early return) leaves the polytope one level behind what the caller - and
    the grid that asks for N points - expects."""
    m = repo.module(PO)
    n_sites = 0
    bad = []
    repeat_bad = []
    for ci in m.classes.values():
        fi = ci.methods.get("divide_edges")
        if fi is None:
            continue
        ctx.analysed(fi)
        required = ["_add_mid_edge_nodes", "_end_of_divison"] if ci.name == "Polytope" else ["super().divide_edges"]
        body = [s_ for s_ in fi.node.body if not (isinstance(s_, ast.Expr) and isinstance(s_.value, ast.Constant))]
        # a repeat count:  def divide_edges(self, n_times=1): for _ in range(n_times): <one subdivision>   - the loop body is the unit
        params_ = [a.arg for a in fi.node.args.args][1:]
        if len(body) == 1 and isinstance(body[0], ast.For) and not body[0].orelse and isinstance(body[0].iter, ast.Call) and \
                src(body[0].iter.func) == "range" and len(body[0].iter.args) == 1 and isinstance(body[0].iter.args[0], ast.Name) and \
                body[0].iter.args[0].id in params_:
            body = list(body[0].body)
        # sibling agreement on the repeat count: an override that hands its count on to super().divide_edges(n) lets the base class do all
        # n subdivisions in one go - every step of its own then runs once per REQUEST instead of once per subdivision
        for s_ in body:
            if isinstance(s_, ast.Expr) and isinstance(s_.value, ast.Call) and src(s_.value.func) == "super().divide_edges" and \
                    (s_.value.args or s_.value.keywords):
                fwd = [a_ for a_ in list(s_.value.args) + [k_.value for k_ in s_.value.keywords] if isinstance(a_, ast.Name) and a_.id in params_]
                own = [x_ for x_ in body if x_ is not s_ and any(isinstance(c_, ast.Call) and isinstance(c_.func, ast.Attribute) and
                                                                 isinstance(c_.func.value, ast.Name) and c_.func.value.id == "self"
                                                                 for c_ in ast.walk(x_))]
                if fwd and own:
                    repeat_bad.append((fi, fwd[0].id, own[0]))
        top_calls = {}
        for k_, s_ in enumerate(body):
            if isinstance(s_, ast.Expr) and isinstance(s_.value, ast.Call):
                t_ = src(s_.value.func)
                for r_ in required:
                    if t_ == r_ or t_ == "self." + r_:
                        top_calls[r_] = k_
        for r_ in required:
            n_sites += 1
            anywhere = [c for c in ast.walk(fi.node) if isinstance(c, ast.Call) and src(c.func) in (r_, "self." + r_)]
            if r_ in top_calls:
                # no return / raise-free exit before it
                early = [x for s_ in body[:top_calls[r_]] for x in ast.walk(s_) if isinstance(x, ast.Return)]
                if early:
                    bad.append((fi, r_, "a `return` can be reached before the call", early[0]))
            elif anywhere:
                bad.append((fi, r_, "the call is nested in a compound statement (executed only under a condition)", anywhere[0]))
            else:
                bad.append((fi, r_, "the call is missing", None))
    ctx.instance("DOM", max(1, n_sites))
    if n_sites == 0:
        ctx.inconclusive("DOM", f"{pid}.subdivide.always", "no divide_edges method found", m.relpath)
        return
    for fi, r_, why, node in [b_ for b_ in bad if not b_[2].startswith("a `return`")]:
        # restructured (step inlined / guarded): not judged
        ctx.inconclusive("DOM", f"{pid}.subdivide.always", f"{fi.qualname}: `{r_}()` is not a top-level statement of divide_edges ({why})", fi.where,
                         witness=why)
    for fi, r_, why, node in [b_ for b_ in bad if b_[2].startswith("a `return`")]:
        ctx.violate("DOM", f"{pid}.subdivide.always", f"{fi.qualname}: `{r_}()` is not executed on every call of divide_edges ({why}): a "
                    "subdivision request can be silently ignored, the polytope then holds the lattice of the previous level while callers count "
                    "on the next one", fi.where, norm_stmt(getattr(node, "_parent", node))[:160] if node is not None else "", witness=why)
    for fi, prm, own in repeat_bad:
        ctx.instance("DOM")
        ctx.violate("DOM", f"{pid}.subdivide.repeat", f"{fi.qualname} hands its repeat count `{prm}` on to super().divide_edges(), which performs all "
                    "the subdivisions in one call, while its own step (the extra edges that make the next subdivision put points on them) runs "
                    "once per request: from the second subdivision of a multi-step request on those edges are missing and the lattice lacks "
                    "points", fi.where, norm_stmt(own)[:140], witness=f"own step outside a loop over range({prm})")
    if not bad:
        ctx.ok("DOM", f"{pid}.subdivide.always", f"every divide_edges implementation ({n_sites} required steps) performs its subdivision "
               "unconditionally", m.relpath)


def face_criterion_agreement(ctx, repo: Repo, pid: str):
    """sibling agreement of every routine that adds same-face edges: "on the same face" means the face sets of the two nodes
    INTERSECT (Polytope._find_face).  An edge node carries two faces, a face-interior node one: a routine that compares the sets for
    equality never connects them, and the lattice of the next level misses the points on those edges."""
    m = repo.module(PO)
    sites = []
    for ci in m.classes.values():
        for fi in ci.methods.values():
            if "only_face" not in fi.params():
                continue
            adds = [c for c in ast.walk(fi.node) if isinstance(c, ast.Call) and isinstance(c.func, ast.Attribute) and c.func.attr == "add_edge"]
            if not adds:
                continue
            tests = [n for n in ast.walk(fi.node) if isinstance(n, ast.If) and any(isinstance(x, ast.Name) and x.id == "only_face" for x in ast.walk(n.test))]
            sites.append((fi, tests))
    ctx.instance("CANDIDATES", max(1, len(sites)))
    if not sites:
        ctx.inconclusive("CANDIDATES", f"{pid}.face_criterion", "no edge-adding routine with a same-face option found", m.relpath)
        return
    from .astutil import Canon
    verdicts = []
    for fi, tests in sites:
        ctx.analysed(fi)
        cn = Canon(Canon.single_defs(fi.node.body))
        for t in tests:
            te = cn.expand(t.test)
            txt = src(te)
            uses_find = any(isinstance(c, ast.Call) and isinstance(c.func, ast.Attribute) and c.func.attr == "_find_face" for c in ast.walk(te))
            inter = any(isinstance(c, ast.Call) and isinstance(c.func, ast.Attribute) and c.func.attr in ("intersection", "isdisjoint") for c in ast.walk(te)) or \
                any(isinstance(b_, ast.BinOp) and isinstance(b_.op, ast.BitAnd) for b_ in ast.walk(te))
            eq = [c for c in ast.walk(te) if isinstance(c, ast.Compare) and len(c.ops) == 1 and isinstance(c.ops[0], (ast.Eq, ast.NotEq)) and
                  "face" in src(c).lower()]
            if uses_find or inter:
                verdicts.append((fi, t, "ok", txt))
            elif eq:
                verdicts.append((fi, t, "eq", src(eq[0])))
            else:
                verdicts.append((fi, t, "?", txt))
    bad = [v for v in verdicts if v[2] == "eq"]
    unk = [v for v in verdicts if v[2] == "?"]
    for fi, t, _, txt in bad:
        ctx.violate("CANDIDATES", f"{pid}.face_criterion", f"{fi.qualname} decides 'same face' by EQUALITY of the two nodes' face sets; the other "
                    "routines (and the node-creation step) use a non-empty INTERSECTION (_find_face): an edge node {A,B} and an interior node {A} "
                    "are never connected, the points that the next subdivision puts on those edges are missing", fi.where, txt[:160],
                    witness="faces {A, B} vs {A}: share face A, sets differ")
    for fi, t, _, txt in unk:
        ctx.inconclusive("CANDIDATES", f"{pid}.face_criterion", f"{fi.qualname}: same-face test not recognised", fi.where, witness=txt[:160])
    if not bad and not unk:
        ctx.ok("CANDIDATES", f"{pid}.face_criterion", f"all {len(sites)} same-face edge routines use the shared-face (intersection) criterion", m.relpath)
