"""C01 — SqRA rate matrix: formula shape of Q decided by abstract interpretation of SQRA.get_rate_matrix (KERNEL)."""
from __future__ import annotations

from fractions import Fraction

from ..alg import Poly
from ..interp import Interp, Hooks
from ..values import *
from .. import transfer as T
import ast
from ..model import AnalysisError, src

META = {
    "explanation": "Static analysis (abstract interpretation over an exact monomial/role/sign/coefficient domain) of "
                   "SQRA.get_rate_matrix on /repo's current source: derives the symbolic value of every stored "
                   "off-diagonal entry and of the diagonal and compares it with the formula of the property. Decides "
                   "the formula shape for all n, patterns, energies, T, D; does not decide floating-point rounding.",
    "decided": ["O1 degrees of D,S,h,V are (1,1,-1,-1) and nothing else multiplies the entries",
                "O2 volume gather and positive energy term share the row role; negative term the column role",
                "O3 coefficient 1000/(2*kB*N_A*T) exactly; one-sided cap clamp_hi(.,500); rounding only at >=12 decimals",
                "O4 S and h data vectors divided in the same entry order (same conversion chain)",
                "O5 diagonal = minus the row sums (axis=1) of exactly the returned off-diagonal data, at (i,i), i<n, added"],
    "not_decided": ["floating-point rounding error", "overflow beyond the cap", "that inputs really share a pattern"],
    "trusted": [T.TABLE_VERSION, "python-subset semantics of sa.interp", "scipy.sparse: tocoo/tocsr keep values per entry; "
                "A+B adds entries position-wise"],
    "assumptions": ["inputs S,h share one sparsity pattern and storage form (precondition of the property)",
                    "floats treated as reals", "assert statements enabled"],
}

CAP = Poly.const(500)


def input_sparse(interp, name, pattern="P", fmt="csr"):
    o = T.new_sparse(Term("input", [Const(name)]), pattern, ("in",), None, fmt=fmt)
    idx, ext = T.sparse_entry_dim(interp, o)
    o.attrs["data"] = Grid([[(idx, ext)]], Num(Poly.app("at", name, Poly.atom(idx))))
    return o


def canon(p: Poly) -> Poly:
    """rename entry-index atoms to one canonical atom and drop the conversion chain from row/col role atoms"""
    m = {}
    for a in p.all_atoms_deep():
        if a[0] == "sym" and a[1].startswith("e<"):
            m[a] = Poly.sym("e")
    p = p.subs(m)
    m2 = {}
    for a in p.all_atoms_deep():
        if a[0] == "app" and a[1] in ("row", "col"):
            m2[a] = Poly.app(a[1], "e")
    return p.subs(m2)


def strip_conv(t):
    """frozen sparse term -> (underlying origin term, data snapshot)"""
    data = t.kw.get("data")
    org = t.args[0]
    while isinstance(org, Term) and org.op in ("tocsr", "tocoo", "tocsc", "copy", "astype"):
        o = org.args[0]
        if isinstance(o, ObjV):
            org = o.origin
            obj = o
        else:
            break
    return org, data


def structural_deviations(ctx, fi, where) -> bool:
    """definite deviations that are visible in the statement structure of get_rate_matrix (decided before the kernel derivation):
    value-dependent pruning of stored entries; an energy difference that is replaced on a data-dependent branch"""
    import ast as _a
    from ..astutil import Canon
    from ..model import src, norm_stmt
    found = False
    # (a) entries removed / zeroed by value:  X.data[<comparison>] = c ,  X.eliminate_zeros() / prune() after such a store
    for n in _a.walk(fi.node):
        if isinstance(n, _a.Assign) and len(n.targets) == 1 and isinstance(n.targets[0], _a.Subscript):
            t = n.targets[0]
            if isinstance(t.value, _a.Attribute) and t.value.attr == "data" and any(isinstance(c, _a.Compare) for c in _a.walk(t.slice)) and \
                    isinstance(n.value, _a.Constant) and n.value.value == 0:
                ctx.instance("KERNEL")
                ctx.violate("KERNEL", "C01.prune", "stored rates are set to zero by a value threshold: the returned pattern is no longer the "
                            "pattern of the inputs and small but non-zero rates (and their contribution to the diagonal) are lost", where,
                            norm_stmt(n)[:140], witness=f"mask {src(t.slice)[:80]}")
                found = True
    # (b) every definition of the energy difference that reaches the exponential is E[row] - E[col] (either sign): a definition
    #     without the energies (zeros, a constant) on a data-dependent branch replaces the physics by a shortcut
    defs = {}
    for n in _a.walk(fi.node):
        if isinstance(n, _a.Assign) and len(n.targets) == 1 and isinstance(n.targets[0], _a.Name):
            defs.setdefault(n.targets[0].id, []).append(n)
    for name, ds in defs.items():
        with_e = [d for d in ds if src(d.value).count("self.energies[") >= 2 and isinstance(d.value, _a.BinOp) and isinstance(d.value.op, _a.Sub)]
        if not with_e:
            continue
        for d in ds:
            if d in with_e or name in {x.id for x in _a.walk(d.value) if isinstance(x, _a.Name)}:
                continue
            if "energies" in src(d.value):
                continue
            # d defines the difference without the energies: on which condition?
            par = getattr(d, "_parent", None)
            cond = src(par.test)[:100] if isinstance(par, _a.If) else "unconditionally"
            ctx.instance("KERNEL")
            ctx.violate("KERNEL", "C01.exponent.shortcut", "on one branch the energy difference that enters the exponential is not E_i - E_j of "
                        "the pair but a substitute: pairs with a small relative (but physically relevant) difference get the wrong rate", where,
                        norm_stmt(d)[:140], witness=f"branch condition: {cond}")
            found = True
    return found


def _has_op(v, op, depth=0):
    """does the value contain a Term with this operator (bounded walk over Term arguments / tuples / lists)"""
    if depth > 12:
        return False
    if isinstance(v, Term):
        if v.op == op or v.op.endswith("." + op):
            return True
        return any(_has_op(a_, op, depth + 1) for a_ in list(v.args) + list(v.kw.values()))
    if isinstance(v, (tuple, list)):
        return any(_has_op(a_, op, depth + 1) for a_ in v)
    if op == "cumsum":
        # the kernel keeps a running sum of a one-dimensional array in closed form (`psum` / `psum_of` atoms inside a Grid element)
        if isinstance(v, Grid):
            return _has_op(v.elem, op, depth + 1)
        if isinstance(v, Num):
            return any(a_[0] == "app" and a_[1] in ("psum", "psum_of") for a_ in v.p.all_atoms_deep())
    for attr in ("items", "elts", "elems"):
        xs = getattr(v, attr, None)
        if isinstance(xs, (tuple, list)):
            return any(_has_op(getattr(a_, "value", a_), op, depth + 1) for a_ in xs)
    return False

def integer_safe_division(ctx, repo):
    """DTYPE: the formula divides by V_i (and h_ij) whatever dtype the caller's arrays have: `/` and `/=` are true division in numpy.
    `np.reciprocal`, `//` and a negative integer power keep an INTEGER dtype (1/V becomes 0 for every V >= 2, or raises): recognised
    wrong unless the operand was converted to float first."""
    fi = repo.func("molgri.molecules.transitions", "SQRA.get_rate_matrix")
    ci = repo.cls("molgri.molecules.transitions", "SQRA")
    from ..astutil import Canon
    cn = Canon(Canon.single_defs(fi.node.body))
    init = ci.find_method("__init__")
    converted = set()
    if init is not None:
        for n in ast.walk(init.node):
            if isinstance(n, ast.Assign) and len(n.targets) == 1 and isinstance(n.targets[0], ast.Attribute) and \
                    isinstance(n.targets[0].value, ast.Name) and n.targets[0].value.id == "self":
                t_ = src(n.value).replace(" ", "")
                if "dtype=float" in t_ or "astype(float)" in t_ or "float64" in t_:
                    converted.add(n.targets[0].attr)

    def is_float(e):
        t_ = src(e).replace(" ", "")
        if "dtype=float" in t_ or "astype(float)" in t_ or "float64" in t_ or "np.float_" in t_:
            return True
        if any(isinstance(x, ast.Constant) and isinstance(x.value, float) for x in ast.walk(e)) and isinstance(e, ast.BinOp):
            return True
        if any(isinstance(x, ast.BinOp) and isinstance(x.op, ast.Div) for x in ast.walk(e)):
            return True
        if isinstance(e, ast.Attribute) and isinstance(e.value, ast.Name) and e.value.id == "self" and e.attr in converted:
            return True
        return False
    sites, bad, unk = 0, [], []
    for n in ast.walk(fi.node):
        arg = None
        form = None
        if isinstance(n, ast.Call) and (repo.dotted_of(fi.module, n.func) or "") == "numpy.reciprocal" and n.args:
            arg, form = n.args[0], "np.reciprocal"
            if any(k.arg == "dtype" for k in n.keywords):
                arg = None
        elif isinstance(n, (ast.BinOp, ast.AugAssign)) and isinstance(n.op, ast.FloorDiv):
            arg, form = (n.right if isinstance(n, ast.BinOp) else n.value), "//"
        elif isinstance(n, ast.BinOp) and isinstance(n.op, ast.Pow) and isinstance(n.right, ast.UnaryOp) and isinstance(n.right.op, ast.USub) and \
                isinstance(n.right.operand, ast.Constant) and isinstance(n.right.operand.value, int):
            arg, form = n.left, "** -k"
        if arg is None:
            continue
        e = cn.expand(arg)
        state = [x for x in ast.walk(e) if isinstance(x, ast.Attribute) and isinstance(x.value, ast.Name) and x.value.id == "self" and
                 x.attr in ("volumes", "distances", "surfaces", "energies")]
        if not state:
            continue
        sites += 1
        if is_float(e):
            continue
        bad.append((n, form, src(e)[:80]))
    ctx.instance("COEF", max(1, sites))
    for n, form, what in bad:
        ctx.violate("COEF", "C01.O1.dtype", f"`{form}` keeps the dtype of its operand: for volumes (distances) handed over as an INTEGER array "
                    "the reciprocal is computed in integer arithmetic (1/V = 0 for every V >= 2), so whole rows of the rate matrix vanish; "
                    "`/` and `/=` promote to float", fi.where, src(n)[:120], witness=f"operand {what} is stored as the caller passed it")
    if not bad:
        ctx.ok("COEF", "C01.O1.dtype", "the divisions by V and h are true divisions (no dtype-preserving reciprocal / floor division / negative "
               "integer power of a caller-supplied array)", fi.where)


def run(ctx, repo, tier):
    for fmt in ("csr", "coo"):
        run_context(ctx, repo, tier, fmt)
    integer_safe_division(ctx, repo)
    ctx.require_instances("KERNEL", 20, "kernel statements interpreted (two storage forms)")
    ctx.trust(*META["trusted"])
    ctx.assume(*META["assumptions"])


def run_context(ctx, repo, tier, fmt):
    fi = repo.func("molgri.molecules.transitions", "SQRA.get_rate_matrix")
    ci = repo.cls("molgri.molecules.transitions", "SQRA")
    ctx.analysed(fi)
    where = fi.where
    interp = Interp(repo, Hooks())
    n = Poly.sym("n")
    self_obj = ObjV(cls=ci)
    S = input_sparse(interp, "S", fmt=fmt)
    h = input_sparse(interp, "h", fmt=fmt)
    before = {"S": vkey(S.attrs["data"]), "h": vkey(h.attrs["data"])}
    self_obj.attrs.update({"energies": T.vec(interp, "E", n), "volumes": T.vec(interp, "V", n),
                           "distances": h, "surfaces": S})
    # constructor wiring: SQRA(energies, volumes, distances, surfaces) stores each argument under its own name
    init = ci.find_method("__init__")
    if init is not None:
        ctx.analysed(init)
        probe = ObjV(cls=ci)
        i2 = Interp(repo, Hooks())
        marks = {k: Const(f"<{k}>") for k in ("energies", "volumes", "distances", "surfaces")}
        i2.call_function(init, [], dict(marks), self_obj=probe)
        for k, v in marks.items():
            got = probe.attrs.get(k)
            ctx.instance("KERNEL")
            ctx.check(isinstance(got, Const) and got.v == v.v, "FLOW", f"C01.init.{k}",
                      f"SQRA.__init__ stores argument `{k}` as self.{k}", init.where, f"self.{k} = ...",
                      witness=f"self.{k} holds {vstr(got) if got is not None else 'nothing'}")
    E0, V0 = self_obj.attrs["energies"], self_obj.attrs["volumes"]
    res = interp.call_function(fi, [Num(Poly.sym("D")), Num(Poly.sym("T"))], {}, self_obj=self_obj)
    # ---------------- O6: the inputs are not modified by the call (history independence: a second call sees the same S, h, V, E)
    ctx.instance("KERNEL")
    changed = []
    for nm_, ob_ in (("surfaces", S), ("distances", h)):
        if vkey(ob_.attrs.get("data")) != before["S" if nm_ == "surfaces" else "h"] or ob_.stores or \
                self_obj.attrs.get(nm_) is not ob_:
            changed.append(nm_)
    if self_obj.attrs.get("energies") is not E0 or self_obj.attrs.get("volumes") is not V0:
        changed.append("energies/volumes")
    if changed:
        ctx.violate("KERNEL", f"C01.O6.{fmt}", f"get_rate_matrix overwrites its own input ({', '.join(changed)}) when the matrices are given "
                    f"in {fmt} form: a conversion that returns the same object is followed by an in-place update, so the second call on "
                    "the same object computes from the previous call's rates", fi.where, "transition_matrix.data = ... / transition_matrix.data *= ...",
                    witness=f"{changed[0]}.data after the call: {vstr(self_obj.attrs[changed[0]].attrs.get('data'))[:200] if changed[0] in ('surfaces', 'distances') else ''}")
    else:
        ctx.ok("KERNEL", f"C01.O6.{fmt}", f"inputs are left unmodified ({fmt} storage form): the result is a function of the inputs, not of "
               "earlier calls", fi.where)
    for f in interp.functions_entered:
        ctx.analysed(f)
    ctx.call_sites += len(interp.functions_entered)
    ctx.unresolved.extend(interp.unresolved)
    ctx.notes.extend(interp.notes)
    ctx.extra["derived_result"] = vstr(res)[:1500]

    if structural_deviations(ctx, fi, where):
        return
    if not T.is_sparse(res):
        reason = contains_top(res) or f"result is {vstr(res)[:200]}"
        ctx.inconclusive("KERNEL", "C01.result", "return value of get_rate_matrix is not a recognised sparse term", where,
                         witness=reason)
        return
    org = res.origin
    M = Dg = None
    diag_sign = +1
    if isinstance(org, Term) and org.op in ("spadd", "spsub"):
        a, b = org.args
        oa, da = strip_conv(a)
        ob, db = strip_conv(b)
        # which one is the diagonal?
        def is_diag(o):
            return isinstance(o, Term) and o.op in ("triplets", "diags")
        if is_diag(ob) and not is_diag(oa):
            M, Mdata, Dg = a, da, ob
            if org.op == "spsub":
                diag_sign = -1
        elif is_diag(oa) and not is_diag(ob) and org.op == "spadd":
            M, Mdata, Dg = b, db, oa
    if M is None:
        r = contains_top(res.origin)
        ctx.inconclusive("KERNEL", "C01.result.form", "result is not `offdiag + diagonal` in a recognised form", where,
                         construct=vstr(org)[:300], witness=r or "unrecognised assembly")
        return
    if not isinstance(Mdata, Grid) or not isinstance(Mdata.elem, Num):
        reason = contains_top(Mdata) or ""
        if "shape mismatch" in reason and reason.count("nnz(P") >= 2:
            ctx.violate("KERNEL", "C01.O4", "S and h data vectors are combined in different entry orders (the conversion "
                        "chains applied to surfaces and distances before `.data` differ)", where,
                        construct="transition_matrix.data /= <distances>.data", witness=reason)
            return
        from ..voro import find_terms
        ratio = [t for t in find_terms(Mdata, lambda t_: t_.op == "div") if len(t.args) == 2 and
                 all(find_terms(a, lambda u: u.op == "exp") or (isinstance(a, Term) and a.op == "exp") for a in t.args)] if isinstance(Mdata, (Term, Grid)) else []
        if not ratio and isinstance(Mdata, (Term, Grid)):
            # the same quotient written inside one entry expression:  exp(-E[col]/2RT) * exp(-E[row]/2RT)^-1  (possibly wrapped in a cap)
            from ..alg import atom_str as _astr

            def _grids(v, seen, out):
                if id(v) in seen:
                    return out
                seen.add(id(v))
                if isinstance(v, Grid):
                    out.append(v)
                    _grids(v.elem, seen, out)
                elif isinstance(v, Term):
                    for a_ in list(v.args) + list(v.kw.values()):
                        _grids(a_, seen, out)
                return out
            for g_ in _grids(Mdata, set(), []):
                if not isinstance(g_.elem, Num):
                    continue
                for mono in g_.elem.p.terms:
                    ex = [(a_, e_) for a_, e_ in mono if a_[0] == "app" and a_[1] == "exp" and "at(E" in _astr(a_)]
                    if any(e_ < 0 for _, e_ in ex) and any(e_ > 0 for _, e_ in ex):
                        ratio = [g_]
        if ratio:
            ctx.violate("KERNEL", "C01.O2.ratio", "the Boltzmann factor is formed as a QUOTIENT of per-cell exponentials instead of the exponential "
                        "of the (capped) energy difference: for energies far from the reference the single exponentials under/overflow "
                        "(0/0, inf/inf) although E_i - E_j is small, and the cap no longer bounds the argument of exp", where,
                        "np.exp(..)[col] / np.exp(..)[row]", witness=vstr(ratio[0])[:300])
            return
        ctx.inconclusive("KERNEL", "C01.data", "off-diagonal data vector not derived", where,
                         witness=contains_top(Mdata) or vstr(Mdata)[:300])
        return
    q = canon(Mdata.elem.p)
    ctx.extra["derived_offdiag_entry"] = q.pretty()
    if q.has_top():
        ev = [e for e in interp.events if e[0] == "shape_mismatch"]
        reasons = "; ".join(q.top_reasons())
        if "shape mismatch" in reasons and "nnz" in reasons:
            ctx.violate("KERNEL", "C01.O4", "S and h data vectors are combined in different entry orders", where,
                        construct="transition_matrix.data /= <distances>.data", witness=reasons)
        else:
            ctx.inconclusive("KERNEL", "C01.entry", "entry value contains unmodelled parts", where, witness=reasons)
        return

    # ---------------- O1/O2/O3 on the entry monomial
    if not q.is_monomial():
        ctx.violate("KERNEL", "C01.O1", "stored entry is not a single product term", where, construct="transition_matrix.data",
                    witness=f"derived entry = {q.pretty()}")
        return
    coef, atoms = q.single_term()
    e = Poly.sym("e")
    at = lambda name, idx: ("app", "at", name, idx)
    aD = ("sym", "D")
    aS = at("S", e)
    ah = at("h", e)
    aVrow = at("V", Poly.app("row", "e"))
    aVcol = at("V", Poly.app("col", "e"))
    exp_arg = Poly.const(0)
    other = {}
    for a, k in atoms.items():
        if a[0] == "app" and a[1] == "exp":
            exp_arg = exp_arg + a[2] * k
        elif a[0] == "app" and a[1] in ("exp2", "expm1", "log", "sqrt"):
            other[a] = k
        else:
            other[a] = k
    expected = {aD: 1, aS: 1, ah: -1, aVrow: -1}
    ctx.instance("KERNEL", 5)
    # role of V
    if aVcol in other and aVrow not in other:
        ctx.violate("KERNEL", "C01.O2.volume_role", "entries are divided by the volume of the COLUMN cell (V_j), the "
                    "property needs V_i (row)", where, construct="self.volumes[transition_matrix.<role>]",
                    witness=f"derived entry = {q.pretty()}")
    ok1 = True
    for a, k in expected.items():
        got = other.get(a, 0)
        if got != k:
            ok1 = False
            ctx.violate("KERNEL", f"C01.O1.{'DShV'[list(expected).index(a)]}", f"degree of {Poly.atom(a).pretty()} in "
                        f"the stored entry must be {k}", where, construct="transition_matrix.data",
                        witness=f"derived degree {got}; entry = {q.pretty()}")
    extra = {a: k for a, k in other.items() if a not in expected and not (a == aVcol)}
    if extra:
        ok1 = False
        ctx.violate("KERNEL", "C01.O1.extra", "an additional factor multiplies the stored entries", where,
                    construct="transition_matrix.data",
                    witness="extra factors: " + ", ".join(f"{Poly.atom(a).pretty()}^{k}" for a, k in extra.items()))
    if coef != 1:
        ok1 = False
        ctx.violate("COEF", "C01.O1.coef", "numeric prefactor of the stored entry must be 1", where,
                    construct="transition_matrix.data", witness=f"derived coefficient {coef}")
    if ok1:
        ctx.ok("KERNEL", "C01.O1", "entry = D^1 * S^1 * h^-1 * V[row]^-1 * exp(.), nothing else", where,
               derived=q.pretty())

    # exponent
    Erow = Poly.app("at", "E", Poly.app("row", "e"))
    Ecol = Poly.app("at", "E", Poly.app("col", "e"))
    diff = Erow - Ecol
    k_spec = Poly.const(1000) / (Poly.const(2) * Poly.sym("kB") * Poly.sym("N_A") * Poly.sym("T"))
    spec_arg = k_spec * Poly.app("clamp_hi", diff, CAP)
    ctx.instance("KERNEL", 3)
    if exp_arg.is_zero():
        has_other_fn = [a for a in atoms if a[0] == "app" and a[1] in ("exp2", "expm1")]
        ctx.violate("KERNEL", "C01.O2.exp", "no exponential Boltzmann factor in the stored entry" +
                    (f" (found {has_other_fn[0][1]} instead of exp)" if has_other_fn else ""), where,
                    construct="transition_matrix.data *= np.exp(...)", witness=f"entry = {q.pretty()}")
    elif exp_arg == spec_arg:
        ctx.ok("KERNEL", "C01.O2", "exponent = +E[row] - E[col] (same role as the volume), capped", where,
               derived=exp_arg.pretty())
        ctx.ok("COEF", "C01.O3", "coefficient 1000/(2 kB N_A T), one-sided cap at 500", where, derived=exp_arg.pretty())
        # the exponential that is actually EVALUATED must not be larger than the factor itself: sqrt(exp(2x)) equals exp(x), but the
        # intermediate overflows at half the energy range (and underflows to 0 at half the range on the other side) although the
        # value of the entry is an ordinary double; the documented cap keeps exp(x) finite, not exp(2x)
        wide = []
        for a, k in atoms.items():
            if a[0] == "app" and a[1] == "exp" and a[2] != spec_arg:
                r_ = a[2] / spec_arg
                if r_.is_const() and abs(r_.as_const()) > 1:
                    wide.append((a, k, r_.as_const()))
        ctx.instance("COEF")
        if wide:
            a, k, r_ = wide[0]
            ctx.violate("COEF", "C01.O3.range", f"the Boltzmann factor is obtained as the power {k} of an exponential whose argument is {r_} "
                        "times the exponent of the entry: that intermediate overflows to inf (and underflows to 0) at a fraction of the energy "
                        "range for which the entry itself is representable, so pairs below the documented 500 kJ/mol cap give inf / nan rows "
                        "at low temperature and the rate into a very high cell becomes exactly 0", where, "np.sqrt(np.exp(...))",
                        witness=f"evaluated: exp({a[2].pretty()[:120]}) ** {k}")
        else:
            ctx.ok("COEF", "C01.O3.range", "the exponential that is evaluated is the factor of the entry itself (no wider intermediate)", where)
    else:
        # diagnose
        diagnosed = False
        if exp_arg.is_monomial():
            c2, at2 = exp_arg.single_term()
            two = [a for a in at2 if a[0] == "app" and a[1] == "clamp"]
            if two:
                diagnosed = True
                ctx.violate("COEF", "C01.O3.cap", "the cap is two-sided: energy differences below the lower bound are raised to it, so the "
                            "entry of the uphill direction of a pair more than 500 kJ/mol apart is not D*S/(h*V)*exp((E_i-E_j)/(2RT)); "
                            "the documented overflow cap limits the difference from above only", where, "np.clip(diff_energies, lo, hi)",
                            witness=f"exponent = {exp_arg.pretty()[:200]}")
            clamp = [a for a in at2 if a[0] == "app" and a[1] in ("clamp_hi", "clamp_sym")]
            lin = None
            if clamp:
                inner, cap = clamp[0][2], clamp[0][3]
                kk = exp_arg / Poly.atom(clamp[0])
                if inner == -diff:
                    diagnosed = True
                    ctx.violate("KERNEL", "C01.O2.sign", "energy difference has the wrong sign/role: exponent uses "
                                "E[col]-E[row] while the entry is divided by V[row]", where,
                                construct="diff_energies = ...", witness=f"exponent = {exp_arg.pretty()}")
                elif inner != diff:
                    diagnosed = True
                    ctx.violate("KERNEL", "C01.O2.diff", "exponent is not built from E[row]-E[col]", where,
                                construct="diff_energies = ...", witness=f"inner = {inner.pretty()}")
                if cap != CAP:
                    diagnosed = True
                    ctx.violate("COEF", "C01.O3.cap", "cap constant differs from the documented 500 kJ/mol", where,
                                construct="np.where(diff < c, diff, c)", witness=f"cap = {cap.pretty()}")
                if kk != k_spec:
                    diagnosed = True
                    ctx.violate("COEF", "C01.O3.coef", "coefficient of the exponent must be 1000/(2*kB*N_A*T)", where,
                                construct="pi_exponent = ...", witness=f"derived {kk.pretty()} expected {k_spec.pretty()}")
        if not diagnosed:
            # un-capped linear form?
            if exp_arg == k_spec * diff:
                ctx.violate("KERNEL", "C01.O3.nocap", "the documented one-sided overflow cap at 500 is missing", where,
                            construct="np.exp(pi_exponent)", witness=f"exponent = {exp_arg.pretty()}")
            elif exp_arg.has_top():
                ctx.inconclusive("KERNEL", "C01.O2", "exponent not derived", where, witness="; ".join(exp_arg.top_reasons()))
            else:
                ctx.violate("KERNEL", "C01.O2.form", "exponent differs from k*clamp_hi(E[row]-E[col], 500)", where,
                            construct="np.exp(pi_exponent)",
                            witness=f"derived {exp_arg.pretty()} ; expected {spec_arg.pretty()}")

    # ---------------- O4 alignment is implied by successful unification; record it
    ctx.instance("KERNEL")
    ctx.ok("KERNEL", "C01.O4", "S.data and h.data are divided under the same entry order (conversion chains agree)", where,
           derived="chains unify: both data vectors indexed by the same entry index")

    # ---------------- O5 diagonal
    ctx.instance("KERNEL", 4)
    nV = n
    if Dg.op == "triplets":
        vals, rows, cols = Dg.args
        shape = Dg.kw.get("shape")
    else:  # diags(vals)
        vals = Dg.args[0] if Dg.args else None
        rows = cols = None
        shape = None
        k_off = Dg.kw.get("offsets", Dg.args[1] if len(Dg.args) > 1 else Num(0))
        if not (isinstance(k_off, Num) and k_off.p.is_zero()):
            ctx.violate("KERNEL", "C01.O5.offset", "diagonal matrix is not on the main diagonal", where,
                        construct="diags(...)", witness=vstr(k_off))
    # sign
    sign = diag_sign
    v = vals
    scale_bad = None
    while isinstance(v, Term):
        if v.op in ("neg", "negative"):
            sign = -sign
            v = v.args[0]
        elif v.op in ("ravel", "flatten", "squeeze", "asarray", "array", "m.ravel", "m.flatten", "m.squeeze", "m.A1", "attr.A1"):
            v = v.args[0]          # shape-only
        elif v.op in ("mult", "div") and len(v.args) == 2 and any(isinstance(a_, Num) and a_.p.is_const() for a_ in v.args):
            c_ = [a_ for a_ in v.args if isinstance(a_, Num) and a_.p.is_const()][0]
            o_ = [a_ for a_ in v.args if a_ is not c_][0]
            if v.op == "div" and v.args[1] is not c_:
                break
            cv = c_.p.as_const()
            if cv in (1, -1):
                sign = sign * (1 if cv == 1 else -1)
            else:
                scale_bad = cv
            v = o_
        else:
            break
    if scale_bad is not None:
        ctx.violate("KERNEL", "C01.O5.scale", "the diagonal is a multiple other than -1 of the row sums: rows do not sum to zero", where,
                    construct="diagonal values", witness=f"factor {scale_bad}")
    if isinstance(v, Term) and v.op == "spsum":
        ax = v.kw["axis"].v
        fs = v.args[0]
        sdata = fs.kw.get("data")
        if sign != -1:
            ctx.violate("KERNEL", "C01.O5.sign", "diagonal must be MINUS the row sum", where,
                        construct="diagonal values", witness=f"derived sign {'+' if sign > 0 else '-'}")
        else:
            ctx.ok("KERNEL", "C01.O5.sign", "diagonal carries minus the sums", where)
        if ax != 1:
            ctx.violate("KERNEL", "C01.O5.axis", "sums must run along axis=1 (row sums; the row role of V)", where,
                        construct="transition_matrix.sum(axis=...)", witness=f"axis={ax}")
        else:
            ctx.ok("KERNEL", "C01.O5.axis", "sums along axis 1 (row sums)", where)
        if isinstance(sdata, Grid) and isinstance(sdata.elem, Num) and canon(sdata.elem.p) == q:
            ctx.ok("KERNEL", "C01.O5.same_data", "row sums are taken over exactly the data that is returned", where)
        else:
            got = canon(sdata.elem.p).pretty() if isinstance(sdata, Grid) and isinstance(sdata.elem, Num) else vstr(sdata)[:200]
            ctx.violate("KERNEL", "C01.O5.same_data", "the returned off-diagonal data differs from the data whose row "
                        "sums form the diagonal (a factor was applied before/after summing)", where,
                        construct="sums = transition_matrix.sum(axis=1)", witness=f"summed: {got} ; returned: {q.pretty()}")
    elif isinstance(v, Term) and v.op == "reduceat":
        ctx.violate("KERNEL", "C01.O5.vals", "row sums are taken with ufunc.reduceat over the CSR row pointer: for a row without stored "
                    "entries reduceat returns the first entry of the NEXT row (or raises IndexError for the last row) instead of 0, so a "
                    "cell without neighbours gets a non-zero diagonal and its row does not sum to zero", where,
                    "np.add.reduceat(matrix.data, matrix.indptr[:-1])", witness=vstr(v)[:200])
    elif isinstance(v, Term) and v.op == "sub" and len(v.args) == 2 and all(_has_op(a_, "cumsum") for a_ in v.args):
        ctx.violate("KERNEL", "C01.O5.vals", "row sums are formed as differences of ONE running sum over all stored rates: equal to the row sums "
                    "only in exact arithmetic; in floating point each difference carries the rounding error of the whole prefix, so when earlier "
                    "rows hold much larger rates (energy walls) later diagonals are 0.0 or garbage and rows do not sum to zero", where,
                    "running[indptr[1:]] - running[indptr[:-1]]", witness="absolute error of row i ~ eps * sum of all rates stored before row i; "
                    "rates span exp(+-E/2RT): prefix 1e50, row sum 1e3 -> diagonal 0.0")
    else:
        r = contains_top(vals)
        ctx.inconclusive("KERNEL", "C01.O5.vals", "diagonal values are not recognised as (minus) the row sums of the matrix", where,
                         construct="diagonal values", witness=r or vstr(vals)[:300])
    if rows is not None:
        def is_arange_n(g):
            return isinstance(g, Grid) and g.ndim == 1 and len(g.dims[0]) == 1 and g.dims[0][0][1] == nV and \
                isinstance(g.elem, Num) and g.elem.p == Poly.atom(g.dims[0][0][0])
        if is_arange_n(rows) and is_arange_n(cols) and vkey(rows) == vkey(cols):
            ctx.ok("KERNEL", "C01.O5.place", "diagonal entries placed at (i,i) for i in [0,n)", where)
        else:
            r = contains_top(rows) or contains_top(cols)
            (ctx.inconclusive if r else ctx.violate)("KERNEL", "C01.O5.place", "diagonal entries are not placed at (i,i), i<n",
                                                     where, construct="coo_array((-sums, (rows, cols)))",
                                                     witness=r or f"rows={vstr(rows)[:120]} cols={vstr(cols)[:120]}")
        if isinstance(shape, TupleV) and len(shape.items) == 2 and all(isinstance(x, Num) and x.p == nV for x in shape.items):
            ctx.ok("KERNEL", "C01.O5.shape", "diagonal matrix has shape (n,n)", where)
        elif shape is not None and not (isinstance(shape, Const) and shape.v is None):
            ctx.violate("KERNEL", "C01.O5.shape", "diagonal matrix shape is not (n,n)", where, construct="shape=...",
                        witness=vstr(shape))
    # raises / asserts inside the kernel
    for kind, guards, w in interp.raises:
        ctx.notes.append(f"raise {kind} at {w}")
