"""C02 — full-grid matrices: product of position and rotation geometry (LAYOUT / MIRROR / DEG / FOLD / TRUTH)."""
from __future__ import annotations

import ast
from fractions import Fraction

from ..alg import Poly
from ..interp import Interp
from ..values import *
from .. import transfer as T
from ..fgmodel import GeoHooks, build_fullgrid, FG
from ..spterm import underlying, show
from ..rules.layout import block_diag
from ..rules.fold import check_fold
from ..model import AnalysisError, src, norm_stmt

META = {
    "explanation": "FullGrid._get_N_N (through the three public getters) and get_total_volumes are interpreted abstractly over the "
                   "abstractly constructed grid object with symbolic n_b>=4 (and n_b=1), n_o>=4, n_t>=2 and symbolic factor f. The "
                   "same-rotation family is derived as three positionally aligned lists whose row/column index polynomials and "
                   "values are compared with the property; the same-position family is the rotation block repeated on the block "
                   "diagonal (polynomial identity on the periodic block list); factor powers are checked per family; the rotation "
                   "block must be the antipode-folded half-sphere matrix whose construction is checked by the FOLD/TRUTH rules.",
    "decided": ["same-rotation entries: (n_b*i+k, n_b*j+k) <- P[i][j]*f^p for every stored position entry, k in [0,n_b)",
                "p = 0 / 2 / 1 for adjacency / borders / distances; the rotation family carries no factor",
                "same-position entries: rotation block on the diagonal blocks [p*n_b,(p+1)*n_b) for every position p",
                "rows, columns and values of the emitted entries are positionally aligned and equivariant (symmetry follows from "
                "the symmetry of P and of the rotation block)", "shape (n,n) with n = n_b*n_o*n_t",
                "volumes: index pos*n_b+rot, value = position volume * f^3 * rotation volume",
                "rotation block = folded + extracted half-sphere matrix; antipode map total (TRUTH), value-copying fold, one index list"],
    "not_decided": ["strict positivity / finiteness of entries", "whether the value-dependent filter `if el:` drops a stored zero entry",
                    "the unit-sphere and rotation-sphere geometry itself (C03, C04, C15)"],
    "trusted": [T.TABLE_VERSION, "summaries of sa/fgmodel.py", "scipy.sparse.bmat block placement; A+B adds entries"],
    "assumptions": ["rotation block is symmetric with empty diagonal (C03, C04); the position matrix P is re-checked here with the C05 rules"],
}

n_b, n_o, n_t, f = Poly.sym("n_b"), Poly.sym("n_o"), Poly.sym("n_t"), Poly.sym("f")
GETTERS = {"adjacency": "get_full_adjacency", "border_len": "get_full_borders", "center_distances": "get_full_distances"}
POWER = {"adjacency": 0, "border_len": 2, "center_distances": 1}


def analyse(ctx, repo, prop, nb_ctx):
    small = isinstance(nb_ctx, int)          # thorough tier: tiny rotation grids (estimated cell model), n_b in {2, 3}
    nb_val = n_b if nb_ctx == "sym" else Poly.const(nb_ctx if small else 1)
    hooks = GeoHooks(repo, nb_val, n_o, n_t, bounds={"n_b": 4, "n_o": 4, "n_t": 2},
                     b_alg="cube4D" if (nb_ctx == "sym" or small) else "zero4D", o_alg="ico")
    interp = Interp(repo, hooks, max_depth=20)
    fg = build_fullgrid(repo, interp, Const("b"), Const("o"), Const("t"), factor=Num(f))
    getter = GETTERS[prop]
    res = interp.call_value(interp.getattr(fg, getter), [], {}, None, None)
    for fn_ in interp.functions_entered:
        ctx.analysed(fn_)
    ctx.call_sites += len(interp.functions_entered)
    where = "molgri/space/fullgrid.py:FullGrid._get_N_N"
    tag = f"C02.{prop}.{'nb' if nb_ctx == 'sym' else ('nb%d' % nb_ctx if small else 'nb1')}"
    N = nb_val * n_o * n_t
    org, _ = underlying(res)
    if not (isinstance(org, Term) and org.op == "spadd"):
        r_ = contains_top(res) or contains_top(org)
        ctx.inconclusive("KERNEL", f"{tag}.form", "result is not `same-position family + same-rotation family`", where,
                         witness=r_ or show(res)[:300])
        return
    trip = bm = None
    for part in org.args:
        o_, _ = underlying(part)
        if isinstance(o_, Term) and o_.op == "triplets":
            trip = o_
        elif isinstance(o_, Term) and o_.op == "bmat":
            bm = o_
    if trip is None or bm is None:
        # n_b = 1: the full grid IS the position grid; a shortcut may return the position-grid matrix itself — then the metric
        # factor of the property must still be applied (f^p)
        def is_position_matrix(o):
            parts_ = [underlying(x)[0] for x in o.args] if isinstance(o, Term) and o.op == "spadd" else []
            has_ray = any(isinstance(x, Term) and x.op == "spadd" and all(isinstance(underlying(y)[0], Term) and underlying(y)[0].op == "diags"
                                                                           for y in x.args) for x in parts_)
            has_lat = any(isinstance(x, Term) and x.op == "bmat" for x in parts_)
            return has_ray and has_lat
        if nb_ctx == "one" and is_position_matrix(org):
            has_f = ("sym", "f") in _sym_atoms(org)
            p_exp = POWER[prop]
            ctx.instance("DEG")
            if p_exp == 0 or has_f:
                (ctx.ok if p_exp == 0 else ctx.inconclusive)("DEG", f"{tag}.shortcut", "single rotation: the position-grid matrix is returned directly"
                                                              + ("" if p_exp == 0 else " with a factor whose power is not derived"), where)
            else:
                ctx.violate("DEG", f"{tag}.shortcut", f"single rotation: the bare position-grid matrix is returned, the metric factor f^{p_exp} of "
                            f"{prop} is not applied (volumes still carry f^3): entries are off by f^{p_exp}", where,
                            "return position_adjacency", witness="no factor f in the returned matrix")
            return
        ctx.inconclusive("KERNEL", f"{tag}.form", "the two families were not recognised", where, witness=show(res)[:300])
        return
    # ------------------------------------------------------------ same-rotation family
    vals, rows, cols = trip.args
    shape = trip.kw.get("shape")
    ctx.instance("LAYOUT", 4)
    ctx.check(isinstance(shape, TupleV) and len(shape.items) == 2 and all(isinstance(x, Num) and x.p == N for x in shape.items), "LAYOUT",
              f"{tag}.rot.shape", "same-rotation family has shape (n, n), n = n_b*n_o*n_t", where, "coo_array(..., shape=(n_total, n_total))",
              witness=vstr(shape))
    if not all(isinstance(x, ListV) for x in (vals, rows, cols)):
        ctx.inconclusive("LAYOUT", f"{tag}.rot.lists", "row/column/value lists not derived", where, witness=vstr(trip)[:300])
        return
    top = contains_top(vals) or contains_top(rows) or contains_top(cols)
    if top:
        ctx.inconclusive("LAYOUT", f"{tag}.rot.lists", "row/column/value lists contain unmodelled parts", where, witness=top)
        return

    def unwrap(items):
        """[Loop i [Loop j [Guard g [Loop k [Elem v]]]]] -> (loops, guards, value)"""
        loops, guards = [], []
        cur = items
        while len(cur) == 1 and isinstance(cur[0], (Loop, Guard)):
            if isinstance(cur[0], Loop):
                loops.append(cur[0])
            else:
                guards.append(cur[0])
            cur = cur[0].items
        if len(cur) == 1 and isinstance(cur[0], Elem):
            # loop indices are renamed by nesting depth: lists built by different (vectorised) expressions name their axes independently,
            # what has to agree is the nest itself (extents, guards) and what is emitted at position (i, j, k)
            from ..interp import subst as subst_v
            # an axis of extent 1 commutes with every other axis: it is moved innermost before the comparison
            loops = [l for l in loops if l.extent != Poly.const(1)] + [l for l in loops if l.extent == Poly.const(1)]
            ren = {l.idx: Poly.atom(("idx", f"L{d_}")) for d_, l in enumerate(loops)}
            loops2 = [Loop(("idx", f"L{d_}"), l.extent.subs(ren) if hasattr(l.extent, "subs") else l.extent) for d_, l in enumerate(loops)]
            guards2 = [Guard(subst_v(g.cond, ren)) for g in guards]
            return loops2, guards2, subst_v(cur[0].value, ren)
        return None
    ur, uc, uv = unwrap(rows.items), unwrap(cols.items), unwrap(vals.items)
    if ur is None or uc is None or uv is None:
        ctx.inconclusive("LAYOUT", f"{tag}.rot.skeleton", "emission lists are not a single nested loop with one element", where,
                         witness=items_str(rows.items)[:300])
        return
    sk = lambda u: ([(l.idx, l.extent) for l in u[0]], [vkey(g.cond) for g in u[1]])
    aligned = sk(ur) == sk(uc) == sk(uv)
    ctx.check(aligned, "PAIR", f"{tag}.rot.aligned", "rows, columns and values are emitted by the same loops under the same guards "
              "(positional correspondence)", where, "row.append / col.append / values.append", witness=f"{sk(ur)} | {sk(uc)} | {sk(uv)}")
    loops, guards, _ = ur
    if len(loops) != 3:
        ctx.inconclusive("LAYOUT", f"{tag}.rot.loops", "expected loops over (i, j, k)", where, witness=f"{len(loops)} loops")
        return
    li, lj, lk = loops
    i, j, k = Poly.atom(li.idx), Poly.atom(lj.idx), Poly.atom(lk.idx)
    M = n_o * n_t
    ctx.check(li.extent == M and lj.extent == M and lk.extent == nb_val, "LAYOUT", f"{tag}.rot.extents", "loops run over all position pairs "
              "(i, j) and all rotations k", where, witness=f"extents {li.extent.pretty()}, {lj.extent.pretty()}, {lk.extent.pretty()}")
    rv, cv, vv = ur[2], uc[2], uv[2]
    okr = isinstance(rv, Num) and rv.p == nb_val * i + k
    okc = isinstance(cv, Num) and cv.p == nb_val * j + k
    ctx.instance("MIRROR", 2)
    if okr and okc:
        ctx.ok("MIRROR", f"{tag}.rot.index", "entry of position pair (i,j) and rotation k goes to (n_b*i+k, n_b*j+k): same rotation on both "
               "sides, one index map for rows and columns (equivariant emission)", where, derived=f"({vstr(rv)}, {vstr(cv)})")
    else:
        ctx.violate("MIRROR", f"{tag}.rot.index", "same-rotation entries are not placed at (n_b*i+k, n_b*j+k)", where,
                    "row.append(n_b * i + k); col.append(n_b * j + k)", witness=f"derived ({vstr(rv)}, {vstr(cv)})")
    # value = P[i][j] * f^p
    ents = [a for a in (vv.p.atoms() if isinstance(vv, Num) else []) if a[0] == "app" and a[1] == "entry"]
    p_exp = POWER[prop]
    okv = isinstance(vv, Num) and len(ents) == 1 and vv.p == Poly.atom(ents[0]) * f ** p_exp and ents[0][3] == i and ents[0][4] == j
    ctx.instance("DEG")
    if okv:
        ctx.ok("DEG", f"{tag}.rot.value", f"value = P[i][j] * f^{p_exp} (the position-grid entry itself, scaled with the factor power of "
               f"{prop})", where, derived=vstr(vv))
    else:
        if isinstance(vv, Num) and len(ents) == 1 and ents[0][3] == i and ents[0][4] == j and (vv.p / Poly.atom(ents[0])).atoms() <= {("sym", "f")}:
            got = (vv.p / Poly.atom(ents[0]))
            ctx.violate("DEG", f"{tag}.rot.value", f"wrong power of the metric factor on the same-rotation family of {prop}: the two "
                        "families that are added have different dimensions", where, "my_factor = ...",
                        witness=f"derived factor {got.pretty()} expected f^{p_exp}")
        else:
            ctx.violate("MIRROR", f"{tag}.rot.value", "stored value is not the position-grid entry P[i][j] (times the factor power)", where,
                        "values.append(el)", witness=f"derived {vstr(vv)[:200]}")
    # guard: only truthiness of that same entry (pattern filter); recorded, not judged
    gtxt = "; ".join(vstr(g.cond) for g in guards)
    ctx.notes.append(f"[{prop}] pattern filter reads the value: {gtxt}")
    # a scan restricted to a band of the position matrix (|j - i| <= w) is the full scan iff the band contains the support of P:
    # in the flat numbering i = n_o*shell + direction (decided by C02.position.*) neighbours are at most one shell apart, |j - i| <= n_o,
    # and the same-ray neighbour sits at exactly +-n_o
    from ..interp import atoms_of as _atoms_of
    band, rest_g = [], []
    for g_ in guards:
        c_ = g_.cond
        if isinstance(c_, CondV) and c_.kind == "cmp" and c_.args[0] in (">=", ">", "<", "<=") and \
                all(a_[0] in ("idx", "sym") for a_ in _atoms_of(c_)) and {li.idx, lj.idx} & set(_atoms_of(c_)):
            band.append(g_)
        else:
            rest_g.append(g_)
    if band:
        ctx.instance("LAYOUT")
        lows, ups, odd = [], [], []
        for g_ in band:
            op_, a_, b_ = g_.cond.args[0], g_.cond.args[1], g_.cond.args[2]
            d_ = a_ - b_                                   # d_ op 0
            w_ = d_ - (j - i)
            if not ({li.idx, lj.idx, lk.idx} & set(w_.all_atoms_deep())):
                # (j - i) + w_ op 0
                if op_ in (">=", ">"):
                    lows.append(w_ - (1 if op_ == ">" else 0))        # j - i >= -w
                else:
                    ups.append(-w_ - (1 if op_ == "<" else 0))        # j - i <= w
                continue
            w_ = d_ + (j - i)
            if not ({li.idx, lj.idx, lk.idx} & set(w_.all_atoms_deep())):
                # -(j - i) + w_ op 0
                if op_ in (">=", ">"):
                    ups.append(w_ - (1 if op_ == ">" else 0))
                else:
                    lows.append(-w_ - (1 if op_ == "<" else 0))
                continue
            odd.append(vstr(g_.cond))
        narrow = None
        undecided = list(odd)
        for side, ws in (("below", lows), ("above", ups)):
            for w_ in ws:
                slack = w_ - n_o
                if all(c__ >= 0 for c__ in slack.terms.values()) and not slack.has_top() and \
                        all(a__[0] == "sym" for a__ in slack.all_atoms_deep()):
                    continue
                syms = sorted({a__ for a__ in slack.all_atoms_deep() if a__[0] == "sym"})
                found = None
                if all(a__[0] == "sym" for a__ in slack.all_atoms_deep()) and len(syms) <= 3:
                    import itertools
                    for vals_ in itertools.product((1, 2, 3, 4, 5, 6, 50, 1000), repeat=len(syms)):
                        env_ = dict(zip(syms, vals_))
                        if env_.get(("sym", "n_t"), 2) < 2:
                            continue
                        v_ = slack.subs({k_: Poly.const(x_) for k_, x_ in env_.items()})
                        if v_.is_const() and v_.as_const() < 0:
                            found = ", ".join(f"{k_[1]}={x_}" for k_, x_ in env_.items())
                            break
                if found:
                    narrow = narrow or f"band reaches {w_.pretty()} {side} the diagonal; with {found} the same-ray neighbour at distance n_o lies outside"
                else:
                    undecided.append(f"band width {w_.pretty()} ({side}) against n_o")
        if narrow:
            ctx.violate("LAYOUT", f"{tag}.rot.band", "the scan of the position matrix is restricted to a band that is narrower than one shell "
                        "(n_o cells): position neighbours outside the band (every radial neighbour, far in-shell neighbours) are silently "
                        "dropped from the same-rotation family", where, "for j, el in enumerate(line):", witness=narrow)
        elif undecided:
            ctx.inconclusive("LAYOUT", f"{tag}.rot.band", "band restriction of the scan not decided", where, witness="; ".join(undecided)[:300])
        else:
            ctx.ok("LAYOUT", f"{tag}.rot.band", "the scan is restricted to a band of at least one shell (n_o cells) on either side of the "
                   "diagonal, which contains every position neighbour (spherical position mode)", where,
                   derived="; ".join(vstr(g_.cond) for g_ in band))
        guards = rest_g
    if guards:
        g0 = guards[0].cond
        from ..interp import atoms_of
        ent = Poly.atom(ents[0]) if len(ents) == 1 else None
        okg = len(guards) == 1 and isinstance(g0, CondV) and g0.kind == "truthy" and isinstance(g0.args[0], Num) and \
            ent is not None and g0.args[0].p == ent
        if not okg and len(guards) == 1 and isinstance(g0, CondV) and g0.kind == "cmp" and ent is not None:
            # `el != 0`
            op_, a_, b_ = g0.args[0], g0.args[1], g0.args[2]
            okg = op_ == "!=" and ((a_ == ent and b_.is_zero()) or (b_ == ent and a_.is_zero()))
        from ..interp import subst
        esym = ("sym", "P_ij")
        gat = set()
        for g_ in guards:
            gat |= set(atoms_of(subst(g_.cond, {ents[0]: Poly.atom(esym)}))) if ent is not None else set(atoms_of(g_.cond))
        only_entry = ent is not None and gat == {esym}
        thr = None
        if only_entry and len(guards) == 1 and isinstance(g0, CondV) and g0.kind == "cmp":
            op_, a_, b_ = g0.args[0], g0.args[1], g0.args[2]
            other = b_ if a_ == ent else (a_ if b_ == ent else None)
            if other is not None and other.is_const() and op_ in (">", ">=", "<", "<=") and other.as_const() != 0:
                thr = (op_, other.as_const())
        if okg:
            ctx.ok("MIRROR", f"{tag}.rot.guard", "an entry is emitted iff the position-grid entry P[i][j] is stored/non-zero: the "
                   "filter does not depend on k or on the side (i,j)/(j,i) other than through P", where, "if el:")
        elif thr is not None:
            ctx.violate("MIRROR", f"{tag}.rot.guard", "stored position-grid entries are filtered by a value threshold: neighbours whose "
                        f"{prop} value does not pass `{thr[0]} {thr[1]}` are missing from the same-rotation family", where, "if el:", witness=gtxt)
        elif only_entry:
            ctx.inconclusive("MIRROR", f"{tag}.rot.guard", "the emission filter reads only the position-grid entry but is not a plain non-zero "
                             "test", where, witness=gtxt)
        else:
            ctx.violate("MIRROR", f"{tag}.rot.guard", "the emission filter depends on something other than the position-grid entry P[i][j] "
                        "(k or the side (i,j)/(j,i)): some of the n_b copies / one of the two directions may be dropped", where, "if el:",
                        witness=gtxt)
    # P is the position matrix of the same property
    if ents:
        Pobj = getattr(interp, "dense_of", {}).get(ents[0][2])
        po, _ = underlying(Pobj) if Pobj is not None else (None, None)
        calls = [c for c in hooks.geo_calls if c[0] == "O" and "sel_property" in c[2]]
        props = {c[2]["sel_property"].v for c in calls if isinstance(c[2]["sel_property"], Const)}
        ctx.instance("FLOW")
        ctx.check(props == {prop}, "FLOW", f"{tag}.rot.source", f"P is the position-grid matrix of the same property ({prop})", where,
                  "self.position_grid._get_N_N_position_array(sel_property=sel_property)", witness=f"direction-grid properties used: {sorted(props)}")
    # ------------------------------------------------------------ same-position family
    bd = block_diag(ctx, interp, bm, where, tag + ".pos")
    if bd is not None:
        A, m = bd
        ctx.check(m == M, "LAYOUT", f"{tag}.pos.count", "one rotation block per position cell (n_t*n_o diagonal blocks)", where,
                  witness=f"{m.pretty()} blocks")
        if small:
            # estimated cell model of the tiny rotation grid: every pair of distinct cells is adjacent (block = 1 - I), no metric factor
            sh = T.sparse_shape(interp, A) if isinstance(A, (ObjV, Term)) else None
            if sh is None:
                ctx.inconclusive("LAYOUT", f"{tag}.pos.blockshape", "shape of the tiny rotation block not derived", where)
            else:
                ctx.check(sh == (nb_val, nb_val), "LAYOUT", f"{tag}.pos.blockshape", f"tiny rotation grid: ({nb_ctx}, {nb_ctx}) block", where, witness=str(sh))
            ao, _ = underlying(A) if isinstance(A, (ObjV, Term)) else (None, None)
            txt = vstr(ao) if ao is not None else vstr(A)
            ctx.instance("FLOW")
            if contains_top(ao if ao is not None else A):
                ctx.inconclusive("FLOW", f"{tag}.pos.source", "rotation block of the tiny grid not derived", where, witness=contains_top(ao if ao is not None else A))
            else:
                ctx.check("f" not in {a_[1] for a_ in _sym_atoms(ao)} , "FLOW", f"{tag}.pos.source", "the block of the estimated cell model "
                          "carries no metric factor", where, witness=txt[:150])
        elif nb_ctx == "sym":
            ao, aobj = underlying(A) if isinstance(A, (ObjV, Term)) else (None, None)
            nm = ao.args[0].v if isinstance(ao, Term) and ao.op == "input" else None
            ctx.instance("FLOW")
            ctx.check(nm == f"B_{prop}", "FLOW", f"{tag}.pos.source", f"the diagonal block is the rotation grid's {prop} matrix, without "
                      "metric factor", where, "orientation_adjacency = ...", witness=f"block: {vstr(ao)[:150] if ao is not None else vstr(A)[:150]}")
            if nm == f"B_{prop}":
                cargs = ao.kw.get("args")
                ou = cargs.d.get("only_upper") if isinstance(cargs, DictV) else None
                io = cargs.d.get("include_opposing_neighbours") if isinstance(cargs, DictV) else None
                ctx.instance("FOLD")
                ctx.check(isinstance(ou, Const) and ou.v is True and isinstance(io, Const) and io.v is True, "FOLD", f"{tag}.pos.folded",
                          "the rotation block is requested folded (include_opposing_neighbours=True) and restricted to the N "
                          "rotations (only_upper=True)", where, "_calculate_N_N_array(sel_property=...)", witness=f"only_upper={vstr(ou)}, include_opposing_neighbours={vstr(io)}")
                sh = T.sparse_shape(interp, aobj) if aobj is not None else None
                ctx.check(sh == (nb_val, nb_val), "LAYOUT", f"{tag}.pos.blockshape", "rotation block has shape (n_b, n_b)", where,
                          witness=str(sh))
        else:
            # n_b = 1: a 1x1 empty block
            sh = T.sparse_shape(interp, A) if isinstance(A, (ObjV, Term)) else None
            ctx.check(sh == (Poly.const(1), Poly.const(1)), "LAYOUT", f"{tag}.pos.blockshape", "single rotation: 1x1 block", where, witness=str(sh))


def _sym_atoms(v):
    """symbol atoms occurring anywhere in a value"""
    from ..voro import find_terms
    out = set()
    def num(x):
        if isinstance(x, Num):
            for a_ in x.p.all_atoms_deep():
                if a_[0] == "sym":
                    out.add(a_)
    num(v)
    if isinstance(v, (Term, ObjV, Grid, ListV, TupleV)):
        for t in find_terms(v, lambda t_: True):
            for a in t.args:
                num(a)
    return out


def _atoms_polys(v):
    from ..interp import atoms_of
    out = set()
    def rec(x):
        if isinstance(x, Num):
            for a_ in x.p.atoms():
                out.add(Poly.atom(a_))
        elif T._is_pw(x):
            for p in x.args:
                rec(p.items[2])
    rec(v)
    return out


def volumes_check(ctx, repo, pid="C02"):
    """6D volumes: cell order pos*n_b + rot and value = position volume * f^3 * rotation volume (shared with C14)"""
    # ------------------------------------------------------------ volumes
    hooks = GeoHooks(repo, n_b, n_o, n_t, bounds={"n_b": 4, "n_o": 4, "n_t": 2}, b_alg="cube4D", o_alg="ico")
    interp = Interp(repo, hooks, max_depth=20)
    fg = build_fullgrid(repo, interp, Const("b"), Const("o"), Const("t"), factor=Num(f))
    vol = interp.call_value(interp.getattr(fg, "get_total_volumes"), [], {}, None, None)
    pg = fg.attrs.get("position_grid")
    pvol = interp.call_value(interp.getattr(pg, "get_all_position_volumes"), [], {}, None, None)
    vw = "molgri/space/fullgrid.py:FullGrid.get_total_volumes"
    ctx.instance("LAYOUT", 2)
    # flatten the loop nest of the volume list
    nest = []
    cur = vol.items if isinstance(vol, ListV) else []
    while len(cur) == 1 and isinstance(cur[0], Loop):
        nest.append(cur[0])
        cur = cur[0].items
    if isinstance(vol, ListV) and nest and len(cur) == 1 and isinstance(cur[0], Elem) and not contains_top(vol):
        exts = [l.extent for l in nest]
        last = nest[-1]
        outer = Poly.const(1)
        for e_ in exts[:-1]:
            outer = outer * e_
        ok = len(nest) >= 2 and last.extent == n_b and outer == n_o * n_t
        # the inner (fastest) index must be the rotation, the outer ones the position in shell-major order
        val = cur[0].value
        uses_rot_inner = Poly.app("at", "vol_b", Poly.atom(last.idx)) in _atoms_polys(val)
        ok = ok and uses_rot_inner
        plain = isinstance(val, Num) or (T._is_pw(val) and all(isinstance(p_.items[2], Num) for p_ in val.args))
        if not plain and not ok:
            ctx.inconclusive("LAYOUT", f"{pid}.volumes.layout", "volume element has a form the layout rule does not read", vw, witness=vstr(val)[:300])
        else:
          ctx.check(ok, "LAYOUT", f"{pid}.volumes.layout", "volumes are listed position-major, rotation-minor: index pos*n_b + rot (same cell "
                  "order as the matrices and the grid array)", vw, "for o_rot in pos_volumes: for b_rot in ori_volumes:",
                    witness=f"loop extents (major -> minor): {[e_.pretty() for e_ in exts]}; rotation index is the fastest: {uses_rot_inner}")
        lo, li_ = nest[0], last
        if ok and len(nest) == 2 and isinstance(pvol, Grid) and len(pvol.dims) == 1:
            pel = None
            d = interp.iter_desc(pvol)
            if d is not None:
                pel = d[1](Poly.atom(lo.idx))
            vb = Poly.app("at", "vol_b", Poly.atom(li_.idx))

            def scale(v):
                if isinstance(v, Num):
                    return Num(v.p * f ** 3 * vb)
                if T._is_pw(v):
                    return Term("piecewise", [TupleV([p.items[0], p.items[1], scale(p.items[2])]) for p in v.args], v.kw)
                return Top("scale")
            exp = scale(pel) if pel is not None else None
            same = exp is not None and vkey(exp) == vkey(val)
            ctx.instance("DEG")
            if same:
                ctx.ok("DEG", f"{pid}.volumes.value", "6D volume = position-cell volume * f^3 * rotation-cell volume", vw, derived=vstr(val)[:200])
            else:
                r_ = contains_top(val)
                fp = set()
                def collect(v):
                    if isinstance(v, Num):
                        for mm in v.p.terms:
                            fp.add(dict(mm).get(("sym", "f"), Fraction(0)))
                    elif T._is_pw(v):
                        for p in v.args:
                            collect(p.items[2])
                collect(val)
                (ctx.inconclusive if r_ else ctx.violate)("DEG", f"{pid}.volumes.value", "6D volume is not position volume * f^3 * rotation "
                                                          "volume", vw, "all_volumes.append(o_rot*(self.factor**3)*b_rot)",
                                                          witness=r_ or f"factor powers found {sorted(map(str, fp))}; derived {vstr(val)[:250]}")
        elif ok:
            # other loop structure with the right order: check the factor power only
            fp = set()
            def collect2(v):
                if isinstance(v, Num):
                    for mm in v.p.terms:
                        fp.add(dict(mm).get(("sym", "f"), Fraction(0)))
                elif T._is_pw(v):
                    for p in v.args:
                        collect2(p.items[2])
            collect2(val)
            ctx.instance("DEG")
            ctx.check(fp == {Fraction(3)}, "DEG", f"{pid}.volumes.value", "6D volume carries the metric factor to the third power", vw,
                      witness=f"factor powers {sorted(map(str, fp))}")
    else:
        r_ = contains_top(vol)
        ctx.inconclusive("LAYOUT", f"{pid}.volumes.layout", "volume list not derived as a product loop", vw, witness=r_ or vstr(vol)[:300])
    bcalls = [c for c in hooks.geo_calls if c[0] == "B" and c[1].endswith("get_voronoi_volumes")]
    ctx.instance("FLOW")
    if len(bcalls) >= 1:
        ctx.ok("FLOW", f"{pid}.volumes.rotsource", "rotation-cell volumes come from the rotation grid's Voronoi model", vw)
    elif hooks.geo_calls and not contains_top(vol):
        ctx.violate("FLOW", f"{pid}.volumes.rotsource", "rotation-cell volumes do not come from the rotation grid's Voronoi model", vw,
                    witness=str([c[1] for c in hooks.geo_calls]))
    else:
        ctx.inconclusive("FLOW", f"{pid}.volumes.rotsource", "source of the rotation-cell volumes not derived", vw,
                         witness=str([c[1] for c in hooks.geo_calls]))


def cartesian_zero_borders(ctx, repo):
    """POSITIVE: in the Cartesian position mode the border matrix is the adjacency matrix with its data replaced by the face areas.
    A face area that is the literal 0 (written for a pair that the adjacency matrix lists) contradicts 'strictly positive entries on
    one common pattern': the lift to the full grid keeps an entry only if it is truthy, so the pair stays in the adjacency and
    distance matrices and disappears from the border matrix."""
    pg = repo.cls(FG, "PositionGrid")
    f = pg.methods.get("get_cartesian_surfaces")
    ctx.instance("DEG")
    if f is None:
        ctx.inconclusive("DEG", "C02.cartesian.border.positive", "anchor vanished: PositionGrid.get_cartesian_surfaces", FG)
        return
    ctx.analysed(f)
    # the list that becomes `.data`
    data_assign = [n for n in ast.walk(f.node) if isinstance(n, ast.Assign) and isinstance(n.targets[0], ast.Attribute) and n.targets[0].attr == "data"]
    names = {x.id for a in data_assign for x in ast.walk(a.value) if isinstance(x, ast.Name)}
    zero = [c for c in ast.walk(f.node) if isinstance(c, ast.Call) and isinstance(c.func, ast.Attribute) and c.func.attr == "append" and
            isinstance(c.func.value, ast.Name) and c.func.value.id in names and c.args and isinstance(c.args[0], ast.Constant) and
            c.args[0].value in (0, 0.0) and not isinstance(c.args[0].value, bool)]
    if not data_assign:
        ctx.inconclusive("DEG", "C02.cartesian.border.positive", "construction of the Cartesian border data not recognised", f.where)
    elif zero:
        ctx.violate("DEG", "C02.cartesian.border.positive", "the Cartesian border matrix stores the literal 0 as the face area of pairs that the "
                    "adjacency matrix lists as neighbours (faces with fewer than two finite vertices: open cells): entries are not strictly "
                    "positive, and the full-grid lift drops them (`if el:`), so adjacency / distances and borders no longer share one pattern",
                    f.where, src(zero[0]), witness="FullGrid('1', 'ico_4', '[0.1, 0.2]', position_grid_cartesian=True): 32 adjacency and distance "
                    "entries, 4 border entries",
                    key="DEG|molgri/space/fullgrid.py:PositionGrid.get_cartesian_surfaces|zero area appended for an adjacent pair")
    else:
        ctx.ok("DEG", "C02.cartesian.border.positive", "no constant zero is written as a Cartesian face area", f.where)


def _append_counts(stmts, name):
    """set of possible numbers of `name.append(..)` executed by one pass through `stmts` (None in the set: not summarised)"""
    def seq(body, k0):
        cur = {k0}
        for st in body:
            nxt = set()
            for k in cur:
                if k is None or isinstance(k, tuple):
                    nxt.add(k)
                    continue
                if isinstance(st, ast.If):
                    nxt |= seq(st.body, k) | seq(st.orelse, k)
                elif isinstance(st, (ast.Continue, ast.Break, ast.Return, ast.Raise)):
                    nxt.add(("exit", k))
                elif isinstance(st, (ast.For, ast.While, ast.Try, ast.With)):
                    touches = any(isinstance(c, ast.Call) and isinstance(c.func, ast.Attribute) and c.func.attr in ("append", "extend", "insert")
                                  and isinstance(c.func.value, ast.Name) and c.func.value.id == name for c in ast.walk(st))
                    nxt.add(None if touches else k)
                else:
                    n_app = sum(1 for c in ast.walk(st) if isinstance(c, ast.Call) and isinstance(c.func, ast.Attribute) and
                                c.func.attr == "append" and isinstance(c.func.value, ast.Name) and c.func.value.id == name)
                    other = any(isinstance(c, ast.Call) and isinstance(c.func, ast.Attribute) and c.func.attr in ("extend", "insert", "pop", "remove")
                                and isinstance(c.func.value, ast.Name) and c.func.value.id == name for c in ast.walk(st))
                    nxt.add(None if other else k + n_app)
            cur = nxt
        return cur
    out = set()
    for k in seq(stmts, 0):
        out.add(k[1] if isinstance(k, tuple) else k)
    return out


def cartesian_parallel(ctx, repo, pid="C02"):
    """PAIR: in the Cartesian position mode the border matrix is the adjacency matrix with `.data` replaced.  Entry e of the new data
    belongs to pair (row[e], col[e]) only if the areas are emitted one per stored entry, in storage order: one polygon per iteration of
    the loop over zip(S.row, S.col), one area per polygon, the whole list assigned."""
    pg = repo.cls(FG, "PositionGrid")
    f = pg.methods.get("get_cartesian_surfaces")
    g = pg.methods.get("_get_coordinates_of_border_polygons")
    ctx.instance("PAIR")
    tag = f"{pid}.cartesian.border.parallel"
    if f is None:
        ctx.inconclusive("PAIR", tag, "anchor vanished: PositionGrid.get_cartesian_surfaces", FG)
        return
    ctx.analysed(f)
    data_assign = [n for n in ast.walk(f.node) if isinstance(n, ast.Assign) and isinstance(n.targets[0], ast.Attribute) and n.targets[0].attr == "data"]
    if len(data_assign) != 1:
        ctx.inconclusive("PAIR", tag, "construction of the Cartesian border data not recognised", f.where)
        return
    v = data_assign[0].value
    if isinstance(v, ast.Call) and repo.dotted_of(f.module, v.func) in ("numpy.array", "numpy.asarray") and len(v.args) == 1:
        v = v.args[0]
    # recognised-wrong form: areas computed for one triangle and copied to the other through np.lexsort with the ROW index of the
    # receiving entries as primary (= last) key.  Entries of one triangle taken in (row, col) order are mirrored by the entries of the
    # other triangle in (col, row) order, so the primary key of the receiving side must be its COLUMN index.
    sd = {}
    for n in ast.walk(f.node):
        if isinstance(n, ast.Assign) and len(n.targets) == 1:
            t = n.targets[0]
            if isinstance(t, ast.Name):
                sd.setdefault(t.id, []).append(n.value)
            elif isinstance(t, ast.Tuple) and isinstance(n.value, ast.Tuple) and len(t.elts) == len(n.value.elts):
                for a_, b_ in zip(t.elts, n.value.elts):
                    if isinstance(a_, ast.Name):
                        sd.setdefault(a_.id, []).append(b_)

    def role(e, depth=0):
        if isinstance(e, ast.Subscript):
            return role(e.value, depth)
        if isinstance(e, ast.Attribute) and e.attr in ("row", "col"):
            return e.attr
        if isinstance(e, ast.Name) and depth < 4 and len(sd.get(e.id, [])) == 1:
            return role(sd[e.id][0], depth + 1)
        return None
    for c in ast.walk(f.node):
        if isinstance(c, ast.Call) and repo.dotted_of(f.module, c.func) == "numpy.lexsort" and len(c.args) == 1 and \
                isinstance(c.args[0], (ast.Tuple, ast.List)) and len(c.args[0].elts) == 2:
            r0, r1 = role(c.args[0].elts[0]), role(c.args[0].elts[1])

            def triangle(e, depth=0):
                """the key is restricted to the entries of one triangle: its index derives from a comparison of row and column indices"""
                if isinstance(e, ast.Name) and depth < 4 and len(sd.get(e.id, [])) == 1:
                    return triangle(sd[e.id][0], depth + 1)
                return any(isinstance(x, ast.Compare) and len(x.ops) == 1 and isinstance(x.ops[0], (ast.Lt, ast.Gt, ast.LtE, ast.GtE)) and
                           {role(x.left), role(x.comparators[0])} == {"row", "col"} for x in ast.walk(e))
            tri = all(isinstance(k_, ast.Subscript) and triangle(k_.slice) for k_ in c.args[0].elts)
            if (r0, r1) == ("col", "row") and tri:
                ctx.violate("PAIR", tag, "Cartesian borders: areas of one triangle are copied to the other triangle in np.lexsort order with the "
                            "ROW index as primary key (the last key of np.lexsort is the primary one): that is the storage order of the "
                            "receiving entries, not the order of their mirror images (col, row), so entry (j,i) receives the area of a "
                            "different pair than (i,j) and the border matrix is no longer symmetric", f.where, src(c)[:160],
                            witness="np.lexsort((cols[..], rows[..])) sorts by rows first")
                return
    if not isinstance(v, ast.Name):
        ctx.inconclusive("PAIR", tag, "the new border data are not a plain list of areas", f.where, witness=src(data_assign[0])[:160])
        return
    lname = v.id
    defs = [n for n in ast.walk(f.node) if isinstance(n, ast.Assign) and any(isinstance(t, ast.Name) and t.id == lname for t in n.targets)]
    loops = [n for n in f.node.body if isinstance(n, ast.For) and any(isinstance(c, ast.Call) and isinstance(c.func, ast.Attribute) and
             c.func.attr == "append" and isinstance(c.func.value, ast.Name) and c.func.value.id == lname for c in ast.walk(n))]
    comp = None
    def _is_getter_call(e):
        return isinstance(e, ast.Call) and isinstance(e.func, ast.Attribute) and isinstance(e.func.value, ast.Name) and \
            e.func.value.id == "self" and e.func.attr == "_get_coordinates_of_border_polygons" and not e.args and not e.keywords
    if len(defs) == 1 and isinstance(defs[0].value, ast.ListComp) and len(defs[0].value.generators) == 1 and not loops and \
            (isinstance(defs[0].value.generators[0].iter, ast.Name) or _is_getter_call(defs[0].value.generators[0].iter)):
        comp = defs[0].value            # the comprehension form of the same loop (also produced by the AST normal form)
    if comp is None and (len(defs) != 1 or not (isinstance(defs[0].value, ast.List) and not defs[0].value.elts) or len(loops) != 1 or
                         not (isinstance(loops[0].iter, ast.Name) or _is_getter_call(loops[0].iter))):
        ctx.inconclusive("PAIR", tag, "the list of areas is not filled by one loop over the polygons", f.where,
                         witness=src(data_assign[0])[:160])
        return
    others = [c for n in f.node.body if not (loops and n is loops[0]) for c in ast.walk(n) if isinstance(c, ast.Call) and isinstance(c.func, ast.Attribute) and
              isinstance(c.func.value, ast.Name) and c.func.value.id == lname and c.func.attr in ("append", "extend", "insert", "pop", "remove",
                                                                                                     "sort", "reverse")]
    piter = comp.generators[0].iter if comp is not None else loops[0].iter
    pname = piter.id if isinstance(piter, ast.Name) else "<call>"
    pdefs = [n for n in ast.walk(f.node) if isinstance(n, ast.Assign) and any(isinstance(t, ast.Name) and t.id == pname for t in n.targets)]
    from_getter = _is_getter_call(piter) or (len(pdefs) == 1 and _is_getter_call(pdefs[0].value))
    if others or not from_getter or g is None:
        ctx.inconclusive("PAIR", tag, "the polygons are not taken unchanged from _get_coordinates_of_border_polygons()", f.where,
                         witness=src(pdefs[0])[:160] if pdefs else pname)
        return
    ctx.analysed(g)
    c1 = ({0, 1} if comp.generators[0].ifs else {1}) if comp is not None else _append_counts(loops[0].body, lname)
    # generator: one polygon per stored entry
    rets = [n for n in ast.walk(g.node) if isinstance(n, ast.Return) and n.value is not None]
    gl = [n for n in g.node.body if isinstance(n, ast.For)]
    ok_iter = False
    mat = None
    if len(rets) == 1 and isinstance(rets[0].value, ast.Name) and len(gl) == 1:
        it = gl[0].iter
        if isinstance(it, ast.Call) and isinstance(it.func, ast.Name) and it.func.id == "zip" and len(it.args) == 2 and \
                all(isinstance(a, ast.Attribute) and isinstance(a.value, ast.Name) for a in it.args) and \
                [a.attr for a in it.args] == ["row", "col"] and it.args[0].value.id == it.args[1].value.id:
            mat = it.args[0].value.id
            mdefs = [n for n in ast.walk(g.node) if isinstance(n, ast.Assign) and any(isinstance(t, ast.Name) and t.id == mat for t in n.targets)]
            tdefs = [n for n in ast.walk(f.node) if isinstance(n, ast.Assign) and isinstance(data_assign[0].targets[0].value, ast.Name) and
                     any(isinstance(t, ast.Name) and t.id == data_assign[0].targets[0].value.id for t in n.targets)]
            ok_iter = len(mdefs) == 1 and len(tdefs) == 1 and norm_stmt(mdefs[0].value) == norm_stmt(tdefs[0].value)
    if not ok_iter:
        ctx.inconclusive("PAIR", tag, "the polygon generator does not walk zip(S.row, S.col) of the matrix whose data are replaced", g.where)
        return
    c2 = _append_counts(gl[0].body, rets[0].value.id)
    if c1 == {1} and c2 == {1}:
        ctx.ok("PAIR", tag, "Cartesian borders: one polygon per stored adjacency entry (storage order), one area per polygon, the whole "
               "list becomes `.data`: entry e carries the face of pair (row[e], col[e]), and (i,j)/(j,i) get the same polygon", f.where)
    elif None in c1 or None in c2:
        ctx.inconclusive("PAIR", tag, "number of areas / polygons emitted per stored entry not derived", f.where, witness=f"areas {sorted(map(str, c1))}, polygons {sorted(map(str, c2))}")
    else:
        ctx.violate("PAIR", tag, "Cartesian borders: the areas are no longer emitted one per stored adjacency entry (an entry is skipped or "
                    "emitted twice on some path) while the whole list is assigned as `.data`: from the first skipped entry on every area "
                    "belongs to another pair than (row[e], col[e])", f.where if c1 != {1} else g.where, "all_areas_data.append(...)",
                    witness=f"areas per polygon: {sorted(c1)}, polygons per stored entry: {sorted(c2)}")


def cartesian_closing_layer(ctx, repo):
    """COEF: in the Cartesian position mode the outermost cells are closed by one more layer of points, placed one LAST radial step above
    the last layer (r_last + (r_last - r_prev)); any other step (the first one, a mean one) moves the outer faces of the last shell."""
    pg = repo.cls(FG, "PositionGrid")
    init = pg.methods.get("__init__")
    if init is None:
        return
    from ..astutil import Canon
    cn = Canon(Canon.single_defs(init.node.body))
    cands = []
    for n in ast.walk(init.node):
        if isinstance(n, ast.Call) and isinstance(n.func, ast.Attribute) and n.func.attr == "append" and n.args and isinstance(n.args[0], ast.BinOp) and \
                isinstance(n.args[0].op, ast.Add):
            cands.append(n.args[0])
        if isinstance(n, ast.List) and any(isinstance(e_, ast.Starred) for e_ in n.elts) and isinstance(n.elts[-1], ast.BinOp) and \
                isinstance(n.elts[-1].op, ast.Add):
            cands.append(n.elts[-1])
    cands = [c for c in cands if src(c.left).replace(" ", "").endswith("[-1]")]
    ctx.instance("COEF")
    if len(cands) != 1:
        ctx.inconclusive("COEF", "C02.cartesian.closing_layer", "construction of the closing layer of the Cartesian tessellation not recognised", init.where)
        return
    step = cands[0].right
    alts = [step.body, step.orelse] if isinstance(step, ast.IfExp) else [step]
    verdicts = []
    for a in alts:
        e = cn.expand(a)
        t = src(e).replace(" ", "")
        if isinstance(e, ast.Subscript) and t.endswith("[-1]") and "increments" in t and "[1:]" not in t.replace("[1:][-1]", ""):
            verdicts.append("last")
        elif isinstance(e, ast.Subscript) and "increments" in t and (t.endswith("[0]") or t.endswith("[1]")):
            verdicts.append("first")
        elif isinstance(e, ast.Subscript) and t.endswith("[-1]") and "increments" in t:
            verdicts.append("last")
        else:
            verdicts.append("?")
    if "first" in verdicts:
        ctx.violate("COEF", "C02.cartesian.closing_layer", "the layer of points that closes the outermost Cartesian cells is placed one FIRST radial "
                    "step above the last layer instead of one LAST step: with non-uniform radii the outer faces of the last shell move, its "
                    "volumes and same-shell border areas change (three or more radii)", init.where, src(cands[0])[:120],
                    witness=f"step = {src(step)[:100]}")
    elif all(v == "last" for v in verdicts):
        ctx.ok("COEF", "C02.cartesian.closing_layer", "the closing layer of the Cartesian tessellation sits one last radial step above the last layer",
               init.where, src(cands[0])[:120])
    else:
        ctx.inconclusive("COEF", "C02.cartesian.closing_layer", "radial step of the closing layer not recognised", init.where, witness=src(step)[:120])


def run(ctx, repo, tier):
    for nb_ctx in ("sym", "one") + ((2, 3) if tier == "thorough" else ()):
        for prop in GETTERS:
            analyse(ctx, repo, prop, nb_ctx)
    # ------------------------------------------------------------ the three getters select their property
    fgci = repo.cls(FG, "FullGrid")
    for prop, g in GETTERS.items():
        m = fgci.find_method(g)
        if m is None:
            raise AnalysisError(f"anchor vanished: FullGrid.{g}")
        ctx.analysed(m)
        vals = [k.value.value for n in ast.walk(m.node) if isinstance(n, ast.Call) and isinstance(n.func, ast.Attribute) and
                n.func.attr == "_get_N_N" for k in n.keywords if k.arg == "sel_property" and isinstance(k.value, ast.Constant)]
        ctx.instance("DISPATCH")
        ctx.check(vals == [prop], "DISPATCH", f"C02.getter.{g}", f"{g} selects property {prop!r}", m.where, witness=str(vals))
    volumes_check(ctx, repo, "C02")
    cartesian_zero_borders(ctx, repo)
    cartesian_parallel(ctx, repo, "C02")
    cartesian_closing_layer(ctx, repo)
    # ------------------------------------------------------------ inherited: the position matrix P itself (C05): the Kronecker lift above keeps
    # symmetry / one common pattern only if P has them
    from ..driver import PrefixCtx
    from .C05 import analyse as c05_analyse
    for prop in GETTERS:
        c05_analyse(PrefixCtx(ctx, "C05.", "C02.position."), repo, prop)
    # ------------------------------------------------------------ the rotation block's fold
    check_fold(ctx, repo, "C02")
    ctx.require_instances("LAYOUT", 20, "layout obligations")
    ctx.require_instances("MIRROR", 6, "emission obligations")
    ctx.trust(*META["trusted"])
    ctx.assume(*META["assumptions"])
