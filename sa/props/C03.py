"""C03 — direction-grid Voronoi cells (partial): symmetric emission on one pattern, adjacency threshold, exact-area dispatch."""
from __future__ import annotations

from .. import voro
from .. import transfer as T

META = {
    "explanation": "Static analysis of the construction of the three pairwise matrices of a direction grid "
                   "(AbstractVoronoi._calculate_N_N_array interpreted abstractly for symbolic N): every emission (i,j,v) is "
                   "mirrored by (j,i,v) under one guard that does not depend on the selected property, pairs come from "
                   "combinations(.,2) (empty diagonal), the adjacency criterion is |shared reduced vertices| >= dim-1, the distance "
                   "entry is dist_on_sphere of the two centres and the border entry the arc between the two shared vertices; the "
                   "cell-model dispatch (N>=4 -> exact spherical Voronoi) and the exact-area default are evaluated abstractly.",
    "decided": ["symmetry, empty diagonal and one common pattern of adjacency/border/distance matrices by construction",
                "adjacency threshold dim-1 shared reduced vertices", "distance = great-circle angle of the two centres (function and arguments)",
                "border = arc between the two shared vertices (function and arguments)", "N>=4 uses the exact model; default areas from "
                "SphericalVoronoi.calculate_areas"],
    "not_decided": ["that scipy's regions are the nearest-neighbour regions", "vertex de-duplication exactness", "arc / area values, sum of areas = 4*pi"],
    "trusted": [T.TABLE_VERSION, "scipy.spatial.SphericalVoronoi"],
    "assumptions": ["N >= 4"],
}


def run(ctx, repo, tier):
    voro.pairwise_matrix(ctx, repo, "C03", 3)
    voro.pair_functions(ctx, repo, "C03", 3)
    voro.dispatch_model(ctx, repo, "C03")
    voro.getter_forwarding(ctx, repo, "C03")
    voro.value_snapping(ctx, repo, "C03")
    voro.one_construction(ctx, repo, "C03")
    voro.pair_source(ctx, repo, "C03")
    voro.volumes_exact_3d(ctx, repo, "C03")
    voro.vertex_reindexing(ctx, repo, "C03")
    ctx.require_instances("MIRROR", 9, "emission obligations")
    ctx.trust(*META["trusted"])
    ctx.assume(*META["assumptions"])
