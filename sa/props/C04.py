"""C04 — rotation-grid neighbour relations on S^3 modulo sign (structural clauses): FOLD, TRUTH, MIRROR, RANGE, LAYOUT."""
from __future__ import annotations

from ..alg import Poly
from ..interp import Interp
from ..values import *
from .. import voro
from .. import transfer as T
from ..fgmodel import GeoHooks, build_fullgrid
from ..rules.fold import check_fold
from ..spterm import underlying

META = {
    "explanation": "Static analysis of the antipodal fold (HalfRotobjVoronoi._calculate_N_N_array): the antipode map is built for "
                   "every row of the double cover and never through the truth value of an index array (TRUTH), the fold copies the "
                   "entry value into the antipodal column, rows and columns are extracted with one ascending index list of the "
                   "upper rows; the full-sphere matrices are symmetric with empty diagonal on one pattern by construction (MIRROR, "
                   "threshold 3 shared vertices in 4D); distance_between_quaternions is proved to return values in [0, pi/2] "
                   "(switch exactly at pi/2, alternative pi - theta); the double cover is [G; -G] with the N rotations first; the "
                   "public getters of the rotation grid resolve through the forwarding __getattr__ to the folded implementation.",
    "decided": ["antipode map total (index 0 included)", "value-copying fold, one index list for rows and columns, first N rows",
                "symmetry / empty diagonal / one pattern of the full-sphere matrices", "4D adjacency threshold: 3 shared vertices",
                "quaternion distance in [0, pi/2]: geodesic angle minimised over sign", "getter defaults only_upper=True, include_opposing_neighbours=True"],
    "not_decided": ["which pairs share a 2-face (scipy geometry)", "face areas (Girard sums)"],
    "trusted": [T.TABLE_VERSION, "symmetry of the folded matrix follows from antipodal symmetry of the full matrix (argument, not checked)"],
    "assumptions": ["N >= 4"],
}


def run(ctx, repo, tier):
    check_fold(ctx, repo, "C04")
    from ..rules.fold import fold_request_kwargs
    voro.pairwise_matrix(ctx, repo, "C04", 4, extra_kwargs=fold_request_kwargs(repo))
    voro.pair_functions(ctx, repo, "C04", 4)
    voro.quaternion_distance_range(ctx, repo, "C04")
    voro.double_cover_layout(ctx, repo, "C04")
    voro.dispatch_model(ctx, repo, "C04")
    voro.getter_forwarding(ctx, repo, "C04")
    voro.value_snapping(ctx, repo, "C04")
    voro.one_construction(ctx, repo, "C04")
    voro.pair_source(ctx, repo, "C04")
    # public getters of the 4D grid object reach the folded implementation with the stated defaults
    n_b, n_o, n_t = Poly.sym("n_b"), Poly.sym("n_o"), Poly.sym("n_t")
    hooks = GeoHooks(repo, n_b, n_o, n_t, bounds={"n_b": 4, "n_o": 4, "n_t": 2}, b_alg="cube4D", o_alg="ico")
    interp = Interp(repo, hooks, max_depth=20)
    fg = build_fullgrid(repo, interp, Const("b"), Const("o"), Const("t"))
    br = fg.attrs.get("b_rotations")
    for getter, prop in (("get_voronoi_adjacency", "adjacency"), ("get_cell_borders", "border_len"), ("get_center_distances", "center_distances")):
        res = interp.call_value(interp.getattr(br, getter), [], {}, None, None)
        org, _ = underlying(res) if isinstance(res, (ObjV, Term)) else (None, None)
        ctx.instance("FOLD")
        ok = isinstance(org, Term) and org.op == "input" and org.args[0].v == f"B_{prop}"
        if ok:
            a = org.kw["args"].d
            ok = isinstance(a.get("only_upper"), Const) and a["only_upper"].v is True and \
                isinstance(a.get("include_opposing_neighbours"), Const) and a["include_opposing_neighbours"].v is True
        ctx.check(ok, "FOLD", f"C04.getter.{getter}", f"SphereGrid4Dim.{getter}() resolves (forwarding __getattr__) to the folded, "
                  f"upper-half {prop} matrix", "molgri/space/rotobj.py:SphereGridNDim.__getattr__", witness=vstr(org)[:200] if org is not None else vstr(res)[:200])
    res = interp.call_value(interp.getattr(fg, "get_adjacency_of_orientation_grid"), [], {}, None, None)
    org, _ = underlying(res) if isinstance(res, (ObjV, Term)) else (None, None)
    ok = isinstance(org, Term) and org.op == "input" and org.args[0].v == "B_adjacency" and org.kw["args"].d.get("only_upper").v is True and \
        org.kw["args"].d.get("include_opposing_neighbours").v is True
    ctx.check(ok, "FOLD", "C04.getter.fullgrid", "FullGrid.get_adjacency_of_orientation_grid requests the folded upper-half matrix",
              "molgri/space/fullgrid.py:FullGrid.get_adjacency_of_orientation_grid", witness=vstr(org)[:200] if org is not None else vstr(res)[:200])
    ctx.require_instances("FOLD", 8, "fold obligations")
    ctx.require_instances("MIRROR", 9, "emission obligations")
    ctx.trust(*META["trusted"])
    ctx.assume(*META["assumptions"])
