"""C05 — spherical-shell position cells: exact symbolic formulas of volumes, borders, distances (KERNEL/LAYOUT/COEF/DEG/MIRROR).

PositionGrid.get_all_position_volumes and PositionGrid._get_N_N_position_array are interpreted abstractly for symbolic
n_o >= 4 directions and n_t >= 2 radii (radii r_0 < ... opaque atoms, unit-sphere areas / arcs / angles opaque atoms).
The derived value of every entry is an exact polynomial in those atoms, piecewise in the shell index; it is compared with
the formula of the property on every piece.
"""
from __future__ import annotations

from fractions import Fraction

from ..alg import Poly
from ..interp import Interp
from ..values import *
from .. import transfer as T
from ..fgmodel import GeoHooks, build_fullgrid, FG
from ..spterm import underlying, show
import ast
from ..model import AnalysisError, src

META = {
    "explanation": "Abstract interpretation of the position-grid kernels with symbolic shell count n_t>=2 and direction count "
                   "n_o>=4: every radial/lateral border, every radial/lateral distance and every cell volume is derived as an "
                   "exact polynomial in the radii r_k and the opaque unit-sphere quantities (area_o, arc(o,o'), angle(o,o')), "
                   "piecewise in the shell index, and compared with the property's formula on each piece (first shell, inner "
                   "shells, last shell). Index layout (shell-major), the +-n_o diagonals, block-diagonal placement and the "
                   "per-shell masks are checked by polynomial identities. Universal in n_t, n_o and the radii.",
    "decided": ["volumes = area_o*(R_k^3-R_{k-1}^3)/3 with R_{-1}=0", "radial border (k,o)-(k+1,o) = area_o*R_k^2, k<=T-2",
                "lateral border in shell k = arc*(R_k^2-R_{k-1}^2)/2", "radial distance = r_{k+1}-r_k", "lateral distance = r_k*angle",
                "shell-major order m = k*n_o + o everywhere; radial neighbours at +-n_o with equal values",
                "lateral block repeated on the diagonal, each shell scaled by its own factor (rows and columns alike)",
                "R_k from translations.get_between_radii (midpoints, last boundary extended by half the last increment)",
                "dimension L^3 / L^2 / L^1 of volumes / borders / distances"],
    "not_decided": ["the unit-sphere areas, arcs and angles themselves (C03)", "global sums (they follow from the formulas)"],
    "trusted": [T.TABLE_VERSION, "summaries of sa/fgmodel.py", "scipy.sparse.diags truncates over-long diagonals to the matrix size",
                "scipy.sparse.bmat places block (a,b) at rows a*h.., cols b*w.."],
    "assumptions": ["n_t >= 2, n_o >= 4 (quantifier of the property)", "radii strictly increasing"],
}

n_b, n_o, n_t = Poly.sym("n_b"), Poly.sym("n_o"), Poly.sym("n_t")
HALF = Poly.const(Fraction(1, 2))


def r(p):
    return Poly.app("at", "r", Poly.lift(p))


# ---- the property's formulas per region of the shell index t ------------------------------------------------------------
def R_spec(t, region):
    if region == 2:      # last shell
        return r(t) + HALF * (r(t) - r(t - 1))
    return HALF * (r(t) + r(t + 1))


def Rprev_spec(t, region):
    if region == 0:
        return Poly.const(0)
    return HALF * (r(t - 1) + r(t))


def partition(t_poly):
    return Term("piecewise", [TupleV([Num(0), Num(1), Num(0)]), TupleV([Num(1), Num(n_t - 2), Num(1)]),
                              TupleV([Num(n_t - 1), Num(1), Num(2)])], {"idx": Num(t_poly)})


def compare_piecewise(ctx, interp, derived, t_atom, spec_fn, rule, oid, desc, where, construct, extra_factor=None, extent=None):
    """derived: element value (Num or piecewise Term) as function of shell index atom t; spec_fn(t Poly, region) -> Poly"""
    t = Poly.atom(t_atom)
    if isinstance(derived, Num):
        derived = Term("piecewise", [TupleV([Num(0), Num(n_t), derived])], {"idx": Num(t)})
    if not T._is_pw(derived):
        r_ = contains_top(derived)
        ctx.inconclusive(rule, oid, desc + ": value not derived", where, construct, witness=r_ or vstr(derived)[:300])
        return False
    if derived.kw["idx"].p != t:
        # shifted selector (e.g. a slice of the boundary radii): re-base the pieces on the shell index
        segs = T.segments(interp, Grid([[(t_atom, extent if extent is not None else n_t)]], derived))
        if segs is None:
            ctx.inconclusive(rule, oid, desc + ": piecewise selector is not the shell index", where, construct,
                             witness=vstr(derived.kw["idx"]))
            return False
        derived = Term("piecewise", [TupleV([Num(st), Num(ln), fn(t - st)]) for st, ln, fn in segs], {"idx": Num(t)})
    # pairwise comparison of every derived piece with every region of the property's formula on their overlap; an overlap
    # is established by a concrete shell count n_t (the witness), emptiness by evaluating the linear bounds for n_t = 2..16
    names = {0: "first shell", 1: "inner shells", 2: "last shell"}
    regions = [(Poly.const(0), Poly.const(1), 0), (Poly.const(1), n_t - 1, 1), (n_t - 1, n_t, 2)]
    nt_atom = ("sym", "n_t")
    ok = True
    for p_ in derived.args:
        lo, ln, va = p_.items[0].p, p_.items[1].p, p_.items[2]
        hi = lo + ln
        for rlo, rhi, reg in regions:
            witness_n = None
            undecided = False
            for nval in range(2, 17):
                try:
                    vals = [x.subs({nt_atom: Poly.const(nval)}).as_const() for x in (lo, hi, rlo, rhi)]
                except ValueError:
                    undecided = True
                    break
                a_, b_ = max(vals[0], vals[2]), min(vals[1], vals[3])
                if b_ > a_:
                    witness_n = (nval, a_)
                    break
            if undecided:
                ctx.inconclusive(rule, oid, desc + ": piece bounds are not linear in n_t", where, construct, witness=f"[{lo.pretty()}, {hi.pretty()})")
                ok = False
                continue
            if witness_n is None:
                continue            # no overlap for any n_t in 2..16 (bounds linear with small integer coefficients)
            if not isinstance(va, Num):
                ctx.inconclusive(rule, oid, desc + f" ({names[reg]}): value not numeric", where, construct, witness=vstr(va)[:300])
                ok = False
                continue
            got = va.p
            exp = spec_fn(t, reg)
            if exp is None:
                continue            # region not constrained (e.g. entries beyond the diagonal's length)
            if extra_factor is not None:
                exp = exp * extra_factor
            single = None
            if ln == Poly.const(1):
                single = lo
            elif (rhi - rlo) == Poly.const(1):
                single = rlo
            if single is not None:
                got = got.subs({t_atom: single})
                exp = exp.subs({t_atom: single})
            ctx.instance(rule)
            if got == exp:
                continue
            ok = False
            if got.has_top():
                ctx.inconclusive(rule, oid, desc + f" ({names[reg]})", where, construct, witness="; ".join(got.top_reasons()))
            else:
                ctx.violate(rule, oid, desc + f": wrong on the {names[reg]}", where, construct,
                            witness=f"e.g. n_t = {witness_n[0]}, shell k = {witness_n[1]}: derived {got.pretty()[:350]} ; expected {exp.pretty()[:350]}")
    if ok:
        ctx.ok(rule, oid, desc + " (first, inner and last shell)", where, construct, derived=vstr(derived)[:300])
    return ok


DIM = {"r": 1, "area_o": 0, "O_border_len": 0, "O_center_distances": 0, "O_adjacency": 0}


def degree_of(p: Poly):
    """length dimension of each monomial; returns set of degrees"""
    out = set()
    for m, c in p.terms.items():
        d = Fraction(0)
        for a, e in m:
            if a[0] == "app" and a[1] == "at":
                d += DIM.get(a[2], 0) * e
        out.add(d)
    return out


from ..rules.layout import block_diag, mask_bounds


def analyse(ctx, repo, prop):
    hooks = GeoHooks(repo, n_b, n_o, n_t, bounds={"n_b": 4, "n_o": 4, "n_t": 2}, b_alg="cube4D", o_alg="ico")
    interp = Interp(repo, hooks, max_depth=20)
    fg = build_fullgrid(repo, interp, Const("b"), Const("o"), Const("t"))
    pg = fg.attrs.get("position_grid")
    if not isinstance(pg, ObjV):
        raise AnalysisError("FullGrid.position_grid not constructed")
    fv = interp.getattr(pg, "_get_N_N_position_array")
    res = interp.call_value(fv, [], {"sel_property": Const(prop)}, None, None)
    for f in interp.functions_entered:
        ctx.analysed(f)
    ctx.call_sites += len(interp.functions_entered)
    where = "molgri/space/fullgrid.py:PositionGrid._get_N_N_position_array"
    tag = f"C05.{prop}"
    org, _ = underlying(res)
    if not (isinstance(org, Term) and org.op == "spadd"):
        r_ = contains_top(res) or contains_top(org)
        ctx.inconclusive("KERNEL", f"{tag}.form", "result is not `radial part + lateral part`", where, witness=r_ or show(res)[:300])
        return
    parts = list(org.args)
    ray = lat = None
    for p_ in parts:
        o_, _ = underlying(p_)
        if isinstance(o_, Term) and o_.op == "spadd":
            ray = o_
        elif isinstance(o_, Term) and o_.op == "diags" and len(_split_multi_diags([o_])) == 2:
            ray = Term("spadd", [p_])           # both diagonals built by one diags((up, down), offsets=(+n_o, -n_o)) call
        elif isinstance(o_, Term) and o_.op == "bmat":
            lat = (o_, p_)
    if ray is None or lat is None:
        ctx.inconclusive("KERNEL", f"{tag}.form", "radial (two diagonals) or lateral (block) part not recognised", where, witness=show(res)[:400])
        return
    n_points = n_o * n_t
    # ---------------- radial part: two diagonals at +n_o and -n_o with the same values
    dgs = []
    for d_ in ray.args:
        o_, _ = underlying(d_)
        if isinstance(o_, Term) and o_.op == "diags":
            dgs.append(o_)
    dgs = _split_multi_diags(dgs)
    ctx.instance("MIRROR")
    if len(dgs) != 2:
        ctx.inconclusive("MIRROR", f"{tag}.ray", "expected two diagonals", where, witness=show(ray)[:300])
        return
    offs = []
    for d_ in dgs:
        off = d_.kw.get("offsets", d_.args[1] if len(d_.args) > 1 else Num(0))
        offs.append(off.p if isinstance(off, Num) else None)
        shp = d_.kw.get("shape")
        if isinstance(shp, TupleV) and len(shp.items) == 2 and all(isinstance(x, Num) and not x.p.has_top() for x in shp.items):
            ctx.check(all(x.p == n_points for x in shp.items), "LAYOUT", f"{tag}.ray.shape", "radial-neighbour matrix has shape (n_t*n_o, n_t*n_o)",
                      where, "diags(..., shape=...)", witness=vstr(shp))
        else:
            ctx.inconclusive("LAYOUT", f"{tag}.ray.shape", "shape of the radial-neighbour matrix not derived", where, witness=vstr(shp)[:200])
    ctx.check(set(map(lambda x: x.pretty() if x is not None else "?", offs)) == {n_o.pretty(), (-n_o).pretty()}, "MIRROR", f"{tag}.ray.offsets",
              "cells (k,o) and (k+1,o) are paired by the two off-diagonals at +n_o and -n_o", where, "diags(my_diags, offsets=+-n_o)",
              witness=f"offsets {[x.pretty() if x is not None else '?' for x in offs]}")
    v0, v1 = dgs[0].args[0], dgs[1].args[0]
    same_vals = (v0 is v1) or vkey(v0) == vkey(v1) or (isinstance(v0, ListV) and isinstance(v1, ListV) and items_str(v0.items) == items_str(v1.items)) \
        or same_grid(v0, v1) or same_grid(T.to_grid(interp, v0) if isinstance(v0, ListV) else v0, T.to_grid(interp, v1) if isinstance(v1, ListV) else v1)
    ctx.check(same_vals, "MIRROR", f"{tag}.ray.symmetric", "both off-diagonals carry the same values (symmetric radial entries)", where,
              "same_ray_neighbours += diags(my_diags, offsets=-n_o)", witness=f"{vstr(v0)[:150]} vs {vstr(v1)[:150]}")
    # values along the diagonal: position m = k*n_o + o
    vals = v0
    g = None
    if isinstance(vals, TupleV) and len(vals.items) == 1:
        g = ("const", vals.items[0])
    elif isinstance(vals, ListV):
        g = T.to_grid(interp, vals)
    elif isinstance(vals, Grid):
        g = vals
    if prop == "adjacency":
        ctx.instance("KERNEL")
        ok = isinstance(g, tuple) and isinstance(g[1], Const) and g[1].v is True
        ctx.check(ok, "KERNEL", f"{tag}.ray.value", "radial adjacency entries are True", where, "my_diags = (True,)", witness=vstr(vals)[:100])
    else:
        if not isinstance(g, Grid) or len(g.dims) != 1 or len(g.dims[0]) != 2:
            ctx.inconclusive("LAYOUT", f"{tag}.ray.layout", "values of the radial diagonal are not a (shell, direction) sequence", where,
                             witness=vstr(vals)[:300])
        else:
            (ta, te), (oa, oe) = g.dims[0]
            ctx.instance("LAYOUT")
            need = n_t - 1
            lay_ok = oe == n_o and (te == need or (te - need).is_const() and (te - need).as_const() >= 0)
            ctx.check(lay_ok, "LAYOUT", f"{tag}.ray.layout", "radial values are listed shell-major (k outer, o inner: m = k*n_o + o) "
                      "and cover the n_t-1 shell interfaces", where, "my_diags", witness=f"axes ({te.pretty()}, {oe.pretty()})")
            el = g.elem
            t = Poly.atom(ta)
            o = Poly.atom(oa)
            if prop == "border_len":
                spec = lambda tt, reg: Poly.app("at", "area_o", o) * R_spec(tt, 0 if reg != 2 else 2) ** 2
                # only shells k <= n_t-2 exist on the diagonal: regions 0/1 use the midpoint formula
                if isinstance(el, Num):
                    exp = Poly.app("at", "area_o", o) * (HALF * (r(t) + r(t + 1))) ** 2
                    ctx.instance("KERNEL")
                    if el.p == exp:
                        ctx.ok("KERNEL", f"{tag}.ray.value", "radial border of cell (k,o) towards shell k+1 is area_o * R_k^2 with "
                               "R_k = (r_k + r_{k+1})/2", where, derived=el.p.pretty()[:200])
                    elif el.p.has_top():
                        ctx.inconclusive("KERNEL", f"{tag}.ray.value", "radial border value not derived", where, witness="; ".join(el.p.top_reasons()))
                    else:
                        ctx.violate("KERNEL", f"{tag}.ray.value", "radial border of cell (k,o) is not area_o * R_k^2", where,
                                    "my_diags.extend(radius_1_areas * radius**2)", witness=f"derived {el.p.pretty()[:300]} ; expected {exp.pretty()[:300]}")
                    ctx.check(degree_of(el.p) == {2}, "DEG", f"{tag}.ray.deg", "radial borders have dimension length^2", where, witness=str(degree_of(el.p)))
                else:
                    compare_piecewise(ctx, interp, el, ta, lambda tt, reg: Poly.app("at", "area_o", o) * (HALF * (r(tt) + r(tt + 1))) ** 2,
                                      "KERNEL", f"{tag}.ray.value", "radial border = area_o * R_k^2", where, "my_diags", extent=te)
            else:
                # distances: r_{k+1} - r_k for k <= n_t-2 ; entries of the last shell are beyond the diagonal's length
                compare_piecewise(ctx, interp, el, ta, lambda tt, reg: None if reg == 2 else r(tt + 1) - r(tt),
                                  "KERNEL", f"{tag}.ray.value", "radial distance between (k,o) and (k+1,o) is r_{k+1} - r_k for every k <= n_t-2",
                                  where, "increments = self.t_grid.get_increments()[1:]", extent=te)
    # ---------------- lateral part
    bm_term, bm_frozen = lat
    bd = block_diag(ctx, interp, bm_term, where, tag)
    if bd is not None:
        A, m = bd
        ctx.check(m == n_t, "LAYOUT", f"{tag}.blocks.count", "one lateral block per shell", where, witness=f"{m.pretty()} blocks")
        # the block is the unit-sphere matrix of this property
        src_name = None
        cargs = None
        dense_src = None
        if isinstance(A, Term) and A.op == "toarray":
            dense_src = A.args[0]
        elif isinstance(A, Grid) and isinstance(A.elem, Num):
            ents = [a for a in A.elem.p.atoms() if a[0] == "app" and a[1] == "entry"]
            if len(ents) == 1 and A.elem.p == Poly.atom(ents[0]) and A.ndim == 2 and \
                    ents[0][3] == Poly.atom(A.dims[0][0][0]) and ents[0][4] == Poly.atom(A.dims[1][0][0]):
                dense_src = getattr(interp, "dense_of", {}).get(ents[0][2])
        if dense_src is not None:
            o_, _ = underlying(dense_src)
            if isinstance(o_, Term) and o_.op == "input":
                src_name = o_.args[0].v
                cargs = o_.kw.get("args")
        expected_src = {"adjacency": "O_adjacency", "border_len": "O_border_len", "center_distances": "O_center_distances"}[prop]
        ctx.instance("FLOW")
        ctx.check(src_name == expected_src, "FLOW", f"{tag}.block.source", f"lateral block is the direction grid's {prop} matrix", where,
                  "neig = self.o_rotations....", witness=f"block source {src_name}")
        if src_name == expected_src and isinstance(cargs, DictV):
            ou = cargs.d.get("only_upper")
            io = cargs.d.get("include_opposing_neighbours")
            ctx.check(not (isinstance(io, Const) and io.v is True), "FOLD", f"{tag}.block.nofold", "the direction-grid matrix is used "
                      "without antipodal folding (directions are not identified with their opposites)", where,
                      witness=f"include_opposing_neighbours={vstr(io) if io is not None else 'default'}")
        # per-shell scaling
        obj = bm_frozen.kw.get("obj") if isinstance(bm_frozen, Term) else None
        stores = obj.stores[:bm_frozen.kw["stores"].v] if isinstance(obj, ObjV) else []
        ctx.instance("MIRROR", len(stores))
        vect = None
        fdata = bm_frozen.kw.get("data") if isinstance(bm_frozen, Term) else None
        if len(stores) == 0 and isinstance(fdata, Grid) and fdata.ndim == 1:
            # vectorised scaling of the stored entries:  M.data *= factor[M.row // n_o]   (entry e lies in diagonal block row(e) // n_o;
            # rows and columns of a stored entry of the block-diagonal matrix are in the same block)
            def deep_atoms(v_, acc):
                if isinstance(v_, Num):
                    acc |= v_.p.all_atoms_deep()
                elif isinstance(v_, Term):
                    for a_ in list(v_.args) + list(v_.kw.values()):
                        deep_atoms(a_, acc)
                elif isinstance(v_, TupleV):
                    for a_ in v_.items:
                        deep_atoms(a_, acc)
                return acc
            ats = deep_atoms(fdata.elem, set())
            fds = [a_ for a_ in ats if a_[0] == "app" and a_[1] == "floordiv"]
            dat = [a_ for a_ in ats if a_[0] == "app" and a_[1] == "data"]
            if len(dat) == 1 and len(fds) <= 1:
                vect = (fds[0] if fds else None, dat[0])
        if vect is not None:
            fd, dat = vect
            kk = interp.fresh_idx("k")
            k = Poly.atom(kk)
            mapping = {dat: Poly.const(1)}
            if fd is not None:
                mapping[fd] = k
            val = subst(fdata.elem, mapping)
            ctx.ok("LAYOUT", f"{tag}.scale.loop", "every stored entry of every shell is scaled (one vectorised update of the data vector)", where,
                   "M.data *= factor[M.row // n_o]")
            if fd is None:
                okb = True
            else:
                num_, den_ = fd[2], fd[3]
                roles = [a_ for a_ in (num_.atoms() if isinstance(num_, Poly) else []) if a_[0] == "app" and a_[1] in ("row", "col")]
                okb = isinstance(den_, Poly) and den_ == n_o and len(roles) == 1 and isinstance(num_, Poly) and num_ == Poly.atom(roles[0])
            ctx.check(okb, "MIRROR", f"{tag}.scale.mask", "an entry receives the factor of shell (row // n_o) = (col // n_o): its diagonal block", where,
                      "M.row // n_o", witness=f"shell index of an entry: {Poly.atom(fd).pretty() if fd is not None else 'none'}")
            class _LP:
                pass
            lp = _LP()
            lp.idx = kk
        elif len(stores) != 1:
            ctx.inconclusive("LAYOUT", f"{tag}.scale", "per-shell scaling of the lateral blocks not recognised", where,
                             witness=f"{len(stores)} masked updates")
            lp = None
        else:
            frames, idx, val, aug, st = stores[0]
            loops = [f for f in frames if f.kind == "loop"]
            mask = idx.items[1] if isinstance(idx, TupleV) and len(idx.items) == 2 else None
            lp = None
            vec_masked = None
            if len(loops) == 0 and isinstance(mask, Grid) and isinstance(mask.elem, CondV) and mask.elem.kind == "and" and aug == "Mult" and \
                    isinstance(val, Term) and val.op == "gather" and len(val.args) == 2 and isinstance(val.args[0], Grid) and val.args[0].ndim == 1 and \
                    isinstance(val.args[1], Term) and val.args[1].op == "masked" and isinstance(val.args[1].args[0], Grid) and \
                    vkey(val.args[1].args[1]) == vkey(mask):
                # M.data[m] *= factor[layer[m]]  with layer = M.row // n_o and m = (row // n_o == col // n_o) & (row // n_o < n_t): on the
                # block-diagonal matrix (n_t blocks of n_o x n_o, checked above) m holds for every stored entry
                sel = val.args[1].args[0].elem
                conds = list(mask.elem.args)
                def fd_of(p_, role):
                    ats_ = [a_ for a_ in (p_.atoms() if isinstance(p_, Poly) else []) if a_[0] == "app" and a_[1] == "floordiv"]
                    if len(ats_) == 1 and p_ == Poly.atom(ats_[0]) and isinstance(ats_[0][3], Poly) and ats_[0][3] == n_o and isinstance(ats_[0][2], Poly):
                        rr_ = [x_ for x_ in ats_[0][2].atoms() if x_[0] == "app" and x_[1] == role]
                        if len(rr_) == 1 and ats_[0][2] == Poly.atom(rr_[0]):
                            return ats_[0]
                    return None
                eqs = [c_ for c_ in conds if isinstance(c_, CondV) and c_.kind == "cmp" and c_.args[0] == "=="]
                lts = [c_ for c_ in conds if isinstance(c_, CondV) and c_.kind == "cmp" and c_.args[0] == "<"]
                if len(conds) == 2 and len(eqs) == 1 and len(lts) == 1 and isinstance(sel, Num):
                    a1, a2 = eqs[0].args[1], eqs[0].args[2]
                    same_block = (fd_of(a1, "row") and fd_of(a2, "col")) or (fd_of(a1, "col") and fd_of(a2, "row"))
                    in_range = fd_of(lts[0].args[1], "row") is not None and lts[0].args[2] == n_t
                    if same_block and in_range and fd_of(sel.p, "row") is not None:
                        vec_masked = val.args[0]
            if vec_masked is not None:
                class _LP2:
                    pass
                lp = _LP2()
                lp.idx = vec_masked.dims[0][0][0]
                k = Poly.atom(lp.idx)
                val = vec_masked.elem
                ctx.check(vec_masked.dim_len(0) == n_t, "LAYOUT", f"{tag}.scale.loop", "every stored entry of every shell is scaled (one vectorised, "
                          "masked update of the data vector; the factor table has one entry per shell)", where, "M.data[m] *= factor[layer[m]]",
                          witness=f"factor table of length {vec_masked.dim_len(0).pretty()}")
                ctx.ok("MIRROR", f"{tag}.scale.mask", "an entry receives the factor of shell row // n_o; the mask (row // n_o == col // n_o, "
                       "row // n_o < n_t) holds for every stored entry of the block-diagonal matrix", where, "M.row // n_o")
            elif not (len(loops) >= 1 and isinstance(mask, Grid) and isinstance(mask.elem, CondV) and aug == "Mult"):
                ctx.inconclusive("LAYOUT", f"{tag}.scale", "masked in-place scaling not recognised", where, witness=vstr(idx)[:300])
            else:
                lp = loops[-1]
                k = Poly.atom(lp.idx)
                ctx.check(lp.extent == n_t and isinstance(lp.info, tuple) and lp.info[0] == "range" and lp.info[1].is_zero(), "LAYOUT",
                          f"{tag}.scale.loop", "the scaling loop visits every shell k = 0..n_t-1", where, "for ind_n_t in range(n_t)",
                          witness=f"extent {lp.extent.pretty()}")
                b = mask_bounds(mask.elem)
                exp_lo, exp_hi = k * n_o, (k + 1) * n_o
                okb = "?" not in b and all(role in b and b[role].get("lo") == exp_lo and b[role].get("hi") == exp_hi for role in ("row", "col"))
                ctx.check(okb, "MIRROR", f"{tag}.scale.mask", "shell k's factor is applied to entries with rows AND columns in "
                          "[k*n_o, (k+1)*n_o) (the k-th diagonal block)", where, "mask = smallest_row & largest_row & smallest_column & largest_column",
                          witness=str({kk: {a: v.pretty() for a, v in vv.items()} for kk, vv in b.items() if kk != "?"}) + (" unrecognised term" if "?" in b else ""))
        if lp is not None:
            if True:
                # factor
                if prop == "adjacency":
                    ctx.check(isinstance(val, Num) and val.p == Poly.const(1), "KERNEL", f"{tag}.scale.value", "adjacency blocks are not rescaled", where,
                              "multiply = np.ones(n_t)", witness=vstr(val)[:100])
                elif prop == "border_len":
                    compare_piecewise(ctx, interp, val, lp.idx, lambda tt, reg: HALF * (R_spec(tt, reg) ** 2 - Rprev_spec(tt, reg) ** 2),
                                      "KERNEL", f"{tag}.scale.value", "lateral border factor of shell k is (R_k^2 - R_{k-1}^2)/2", where,
                                      "multiply = between_radii ** 2 / 2 - subtracted_radii**2/2")
                    if T._is_pw(val):
                        degs = set()
                        for p_ in val.args:
                            if isinstance(p_.items[2], Num):
                                degs |= degree_of(p_.items[2].p)
                        ctx.check(degs == {2}, "DEG", f"{tag}.scale.deg", "lateral borders have dimension length^2", where, witness=str(degs))
                else:
                    ok = isinstance(val, Num) and val.p == r(k)
                    if not ok and T._is_pw(val):
                        ok = compare_piecewise(ctx, interp, val, lp.idx, lambda tt, reg: r(tt), "KERNEL", f"{tag}.scale.value",
                                               "lateral distance factor of shell k is the point radius r_k", where, "multiply = self.get_radii()")
                    else:
                        ctx.check(ok, "KERNEL", f"{tag}.scale.value", "lateral distance factor of shell k is the point radius r_k (not the "
                                  "boundary radius)", where, "multiply = self.get_radii()", witness=f"derived {vstr(val)[:200]} ; expected {r(k).pretty()}")


def forward_recurrences(ctx, repo):
    """RECUR: an in-place slice update inside an ascending loop that reads the slice written by the previous iteration computes a
    recurrence (alternating sum), not the difference of the original values"""
    import ast
    pci = repo.cls(FG, "PositionGrid")
    for m in pci.methods.values():
        for lp in [n for n in ast.walk(m.node) if isinstance(n, ast.For)]:
            if not (isinstance(lp.iter, ast.Call) and isinstance(lp.iter.func, ast.Name) and lp.iter.func.id == "range" and isinstance(lp.target, ast.Name)):
                continue
            step_neg = len(lp.iter.args) == 3 and isinstance(lp.iter.args[2], ast.UnaryOp)
            i = lp.target.id
            for st in ast.walk(lp):
                if isinstance(st, ast.AugAssign) and isinstance(st.target, ast.Subscript) and isinstance(st.target.value, ast.Name):
                    A = st.target.value.id
                    reads = [x for x in ast.walk(st.value) if isinstance(x, ast.Subscript) and isinstance(x.value, ast.Name) and x.value.id == A]
                    if not reads:
                        continue
                    wtxt = src(st.target.slice).replace(" ", "")
                    for r_ in reads:
                        rtxt = src(r_.slice).replace(" ", "")
                        prev = wtxt.replace(f"({i}+1)", "#HI#").replace(i, f"({i}-1)").replace("#HI#", i)
                        ctx.instance("KERNEL")
                        if not step_neg and (rtxt == prev or f"{i}-1" in rtxt):
                            ctx.violate("KERNEL", "C05.recurrence", "an in-place update of shell k reads shell k-1 after that shell was already "
                                        "updated in the previous iteration: the result is the alternating sum cone_k - cone_{k-1} + cone_{k-2} - ..., "
                                        "not R_k^3 - R_{k-1}^3 (wrong from the third shell on)", m.where, norm_src(st),
                                        witness=f"ascending loop over {i}; writes [{wtxt}], reads [{rtxt}] of the same array")


def norm_src(n):
    return " ".join(src(n).split())[:200]


def _split_multi_diags(dgs):
    """diags((v0, v1), offsets=(a, b), ...) -> two single-diagonal terms"""
    out = []
    for d_ in dgs:
        vals = d_.args[0] if d_.args else None
        offs = d_.kw.get("offsets", d_.args[1] if len(d_.args) > 1 else None)
        vi = vals.items if isinstance(vals, TupleV) else None
        oi = offs.items if isinstance(offs, TupleV) else None
        if vi is not None and oi is not None and len(vi) == len(oi) and len(vi) >= 2:
            for v_, o_ in zip(vi, oi):
                kw = dict(d_.kw)
                kw["offsets"] = o_
                out.append(Term("diags", [v_], kw))
        else:
            out.append(d_)
    return out


EXTRA_MODULES = ["molgri.space.voronoi", "molgri.space.utils", "molgri.space.rotobj"]


def position_volumes(ctx, repo):
    """volumes of the position cells (shared with C14: the saved volumes are these times f^3 times the rotation volumes)"""
    where_v = "molgri/space/fullgrid.py:PositionGrid.get_all_position_volumes"
    hooks = GeoHooks(repo, n_b, n_o, n_t, bounds={"n_b": 4, "n_o": 4, "n_t": 2}, b_alg="cube4D", o_alg="ico")
    interp = Interp(repo, hooks, max_depth=20)
    fg = build_fullgrid(repo, interp, Const("b"), Const("o"), Const("t"))
    pg = fg.attrs.get("position_grid")
    fv = interp.getattr(pg, "get_all_position_volumes")
    vol = interp.call_value(fv, [], {}, None, None)
    for f in interp.functions_entered:
        ctx.analysed(f)
    ctx.extra["derived_volumes"] = vstr(vol)[:800]
    if isinstance(vol, Grid) and len(vol.dims) == 1 and len(vol.dims[0]) == 2:
        (ta, te), (oa, oe) = vol.dims[0]
        ctx.instance("LAYOUT")
        ctx.check(te == n_t and oe == n_o, "LAYOUT", "C05.volumes.layout", "volumes are listed shell-major: index k*n_o + o", where_v,
                  "_t_and_o_2_positions(o_property=..., t_property=...)", witness=f"axes ({te.pretty()}, {oe.pretty()})")
        area = Poly.app("at", "area_o", Poly.atom(oa))
        compare_piecewise(ctx, interp, vol.elem, ta,
                          lambda tt, reg: area * (R_spec(tt, reg) ** 3 - Rprev_spec(tt, reg) ** 3) / 3,
                          "KERNEL", "C05.volumes.value", "volume of cell (k,o) is area_o*(R_k^3 - R_{k-1}^3)/3", where_v,
                          "cumulative_volumes = ...")
        if T._is_pw(vol.elem):
            degs = set()
            for p_ in vol.elem.args:
                if isinstance(p_.items[2], Num):
                    degs |= degree_of(p_.items[2].p)
            ctx.instance("DEG")
            ctx.check(degs == {3}, "DEG", "C05.volumes.deg", "volumes have dimension length^3", where_v, witness=str(degs))
    else:
        ctx.inconclusive("KERNEL", "C05.volumes", "volumes not derived as a (shell, direction) sequence", where_v,
                         witness=contains_top(vol) or vstr(vol)[:300])
    return interp, pg


def column_aligned_diagonals(ctx, repo):
    """MIRROR: scipy.sparse.spdiags / dia_array store a diagonal COLUMN-aligned: entry (j - k, j) of diagonal k is data[k][j].  The mirror
    pair of diagonals +k / -k of a symmetric matrix therefore needs data rows shifted by k against each other; handing the SAME row to
    both offsets puts value d[j] at (j-k, j) and at (j+k, j): the upper entry of a pair is read k positions too far along the diagonal."""
    pgc = repo.cls(FG, "PositionGrid")
    fm = pgc.methods.get("_get_N_N_position_array")
    if fm is None:
        return
    calls = [c for c in ast.walk(fm.node) if isinstance(c, ast.Call) and (repo.dotted_of(fm.module, c.func) or "").split(".")[-1] in ("spdiags", "dia_array", "dia_matrix")]
    if not calls:
        return
    ctx.instance("MIRROR", len(calls))
    for c in calls:
        args = list(c.args)
        data, offs = (args[0], args[1]) if len(args) >= 2 else (None, None)
        if len(args) == 1 and isinstance(args[0], ast.Tuple) and len(args[0].elts) == 2:
            data, offs = args[0].elts
        same_rows = isinstance(data, (ast.List, ast.Tuple)) and len(data.elts) == 2 and src(data.elts[0]) == src(data.elts[1])
        mirror = isinstance(offs, (ast.List, ast.Tuple)) and len(offs.elts) == 2 and \
            {src(offs.elts[0]).replace(" ", ""), src(offs.elts[1]).replace(" ", "")} in ({"n_o", "-n_o"},) or \
            (isinstance(offs, (ast.List, ast.Tuple)) and len(offs.elts) == 2 and
             src(offs.elts[0]).replace(" ", "").lstrip("-") == src(offs.elts[1]).replace(" ", "").lstrip("-") and
             src(offs.elts[0]).replace(" ", "").startswith("-") != src(offs.elts[1]).replace(" ", "").startswith("-"))
        if same_rows and mirror:
            ctx.violate("MIRROR", "C05.radial.column_aligned", "both radial off-diagonals come from ONE column-aligned constructor with the SAME data row "
                        "for offset +n_o and -n_o: entry [cell, cell radially above] is read one shell too far out (area_o*R_{k+1}^2, "
                        "r_{k+2}-r_{k+1}), and the matrix is no longer symmetric - from three shells on", fm.where, src(c)[:140],
                        witness="spdiags: A[j-k, j] = data[k][j]; diags(values, offsets=k): A[i, i+k] = values[i]")
        else:
            ctx.inconclusive("MIRROR", "C05.radial.column_aligned", "a column-aligned diagonal constructor is used for the radial part; the alignment "
                             "of its data rows was not derived", fm.where, witness=src(c)[:140])


def run(ctx, repo, tier):
    column_aligned_diagonals(ctx, repo)
    # ---------------- inherited: the direction-grid cell model itself (C03): the areas, arcs and angles that the shells scale come from it
    from ..driver import PrefixCtx
    from .. import voro as _voro
    pc = PrefixCtx(ctx, "C05.", "C05.ogrid.")
    _voro.pairwise_matrix(pc, repo, "C05", 3)
    _voro.pair_functions(pc, repo, "C05", 3)
    _voro.dispatch_model(pc, repo, "C05")
    _voro.volumes_exact_3d(pc, repo, "C05")
    _voro.getter_forwarding(pc, repo, "C05")
    _voro.value_snapping(pc, repo, "C05")
    _voro.one_construction(pc, repo, "C05")
    _voro.pair_source(pc, repo, "C05")
    forward_recurrences(ctx, repo)
    interp, pg = position_volumes(ctx, repo)
    # position coordinates: shell-major tiling, direction o scaled by r_k
    fv = interp.getattr(pg, "get_position_grid_as_array")
    pos = interp.call_value(fv, [], {}, None, None)
    ctx.instance("LAYOUT")
    okp = isinstance(pos, Grid) and pos.ndim == 2 and len(pos.dims[0]) == 2 and pos.dims[0][0][1] == n_t and pos.dims[0][1][1] == n_o
    if okp:
        (ta, _), (oa, _) = pos.dims[0]
        ca = pos.dims[1][0][0]
        exp = Poly.app("at2", "G_o", Poly.atom(oa), Poly.atom(ca)) * r(Poly.atom(ta))
        okp = isinstance(pos.elem, Num) and pos.elem.p == exp
    ctx.check(okp, "LAYOUT", "C05.positions", "position m = k*n_o + o is direction o scaled to radius r_k (same shell-major order as "
              "volumes and matrices)", "molgri/space/fullgrid.py:PositionGrid.get_position_grid_as_array", "_t_and_o_2_positions(...)",
              witness=vstr(pos)[:300])
    # ---------------- matrices
    for prop in ("adjacency", "border_len", "center_distances"):
        analyse(ctx, repo, prop)
    # public getters dispatch to the right property in the spherical mode
    pci = repo.cls(FG, "PositionGrid")
    import ast
    for g, prop in (("get_adjacency_of_position_grid", "adjacency"), ("get_borders_of_position_grid", "border_len"),
                    ("get_distances_of_position_grid", "center_distances")):
        m = pci.find_method(g)
        if m is None:
            raise AnalysisError(f"anchor vanished: PositionGrid.{g}")
        ctx.analysed(m)
        calls = [n for n in ast.walk(m.node) if isinstance(n, ast.Call) and isinstance(n.func, ast.Attribute) and n.func.attr == "_get_N_N_position_array"]
        vals = []
        for c in calls:
            for k in c.keywords:
                if k.arg == "sel_property" and isinstance(k.value, ast.Constant):
                    vals.append(k.value.value)
            if c.args and isinstance(c.args[0], ast.Constant):
                vals.append(c.args[0].value)
        ctx.instance("DISPATCH")
        ctx.check(vals == [prop], "DISPATCH", f"C05.getter.{g}", f"{g} selects property {prop!r}", m.where, witness=str(vals))
    ctx.require_instances("KERNEL", 10, "formula comparisons")
    ctx.require_instances("LAYOUT", 8, "layout obligations")
    ctx.trust(*META["trusted"])
    ctx.assume(*META["assumptions"])
