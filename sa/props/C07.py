"""C07 — every generated sphere grid is N distinct unit points; rotations unique (structural clauses only).

Decided here (shape of the code, all N): where the N rows come from and how many are requested; the double cover [G; -G];
the hemisphere normalisation of random rotation grids (one row out per row in, q or its exact negative); the canonical-half
selection and [:N] prefix of the polytope rotation grids; the one-point grids.  Distinctness, separation and unit norm of the
computed coordinates are numerical and are NOT decided (unit norm / row count are additionally asserted at run time)."""
from __future__ import annotations

import ast

from .. import polyrules as PR
from .. import voro
from ..astutil import Canon, hemisphere_predicates
from ..model import AnalysisError, src, norm_stmt

META = {
    "explanation": "Structural rules over molgri/space/rotobj.py, polytopes.py and utils.py: every grid generator requests exactly self.N "
                   "points from its source (random draw count, polytope prefix [:N] with an explicit error when fewer are available); "
                   "rotation grids: the stored half is the canonical hemisphere (same structural predicate as the upper-index "
                   "selection), random quaternions are normalised row by row to q or its exact negative (row count preserved), the "
                   "double cover is derived symbolically as rows [0,N) = half grid and row N+i = -row i, find_inverse_quaternion is the "
                   "exact negation; the one-point grids are the z direction and the identity rotation.",
    "decided": ["row count requested from each source is N (3D: N rows; 4D: N rows doubled to 2N)",
                "double cover = the N rows followed by their exact negatives in the same order",
                "rotation rows are brought to / selected from the canonical half of the quaternion sphere with one row out per row in",
                "polytope rotation grid = index-ordered canonical half, cut to the first N, error when N exceeds what is available",
                "one-point grids: z direction (3D), identity rotation (4D)"],
    "not_decided": ["pairwise distinctness and minimum separation of the computed coordinates (floating-point node keys)",
                    "unit norm of computed rows (asserted at run time in gen_grid)", "uniqueness of rotations up to sign for random grids",
                    "N = 1 requested by name -> zero algorithm (decided by C17)"],
    "trusted": ["numpy slicing / negation semantics", "scipy Rotation.from_matrix(identity).as_quat() = (0, 0, 0, 1)"],
    "assumptions": ["assert statements enabled"],
}

RO = "molgri.space.rotobj"
UT = "molgri.space.utils"


def _count_arg(call, pname="N", pos=0):
    for k in call.keywords:
        if k.arg in (pname, "n", "N"):
            return k.value
    return call.args[pos] if len(call.args) > pos else None


def run(ctx, repo, tier):
    rm = repo.module(RO)
    # ------------------------------------------------------------ 1. number of rows requested from each source
    SOURCES = {"random_sphere_points": 0, "random_quaternions": 0, "get_nodes": 0, "get_half_of_hypercube": 0}
    seen_classes = 0
    for c in rm.classes.values():
        fi = c.methods.get("_gen_grid")
        if fi is None or c.name in ("SphereGridNDim", "SphereGrid4Dim", "SphereGrid3Dim"):
            continue
        ctx.analysed(fi)
        cn = Canon(Canon.single_defs(fi.node.body))
        # the call that delivers the rows: the last source call in the method (earlier ones size the subdivision loop)
        calls = [n for n in ast.walk(fi.node) if isinstance(n, ast.Call) and src(n.func).split(".")[-1] in SOURCES]
        in_loop_tests = {id(n) for w in ast.walk(fi.node) if isinstance(w, ast.While) for n in ast.walk(w.test)}
        deliver = [n for n in calls if id(n) not in in_loop_tests]
        tag = f"C07.rows.{c.name}"
        ctx.instance("LEN")
        if not deliver:
            if c.name.startswith("Zero") or c.name.startswith("FullDiv"):
                continue
            ctx.inconclusive("LEN", tag, "source of the grid rows not recognised", fi.where)
            continue
        seen_classes += 1
        call = deliver[-1]
        fn = src(call.func).split(".")[-1]
        arg = _count_arg(call)
        txt = cn.text(arg).replace(" ", "") if arg is not None else None
        is4d = any(b_.name == "SphereGrid4Dim" for b_ in c.mro())
        if is4d and fn != "get_half_of_hypercube" and fn in ("get_nodes",):
            # a 4-D polytope grid that selects its half itself instead of asking the polytope for the canonical half
            from ..astutil import hemisphere_predicates as _hp
            preds = _hp(repo)
            body_txt = src(fi.node)
            used_preds = [p_ for p_ in preds if p_ + "(" in body_txt]
            rets = [r for r in ast.walk(fi.node) if isinstance(r, ast.Return) and r.value is not None]
            via_super = any("super()._gen_grid()" in src(r.value) for r in rets)
            helpers = [n.func.id for n in ast.walk(fi.node) if isinstance(n, ast.Call) and isinstance(n.func, ast.Name) and
                       repo.resolve_name(fi.module, n.func.id) is not None and n.func.id not in preds]
            wrong = None
            for h_ in helpers:
                r_ = repo.resolve_name(fi.module, h_)
                if r_ and r_[0] == "func" and any(isinstance(x, ast.Call) and src(x.func).split(".")[-1] == "argmax" and "abs" in src(x) for x in ast.walk(r_[1].node)):
                    wrong = (h_, "the 'leading' component is taken as the one of LARGEST magnitude (argmax of |q|), the canonical half is defined by the "
                                 "FIRST non-zero component")
            if wrong is None and not via_super and any(isinstance(n, ast.UnaryOp) and isinstance(n.op, ast.Invert) for n in ast.walk(fi.node)):
                wrong = ("~mask", "the second half of the array is the complementary selection in its OWN index order, not the negatives of the first "
                                  "half row by row: row N+i is not -row i")
            ctx.instance("LEN")
            if wrong is not None:
                ctx.violate("LEN", tag, f"{c.name} builds its half / double cover itself: {wrong[1]}", fi.where, wrong[0],
                            witness="canonical half and row pairing are guaranteed only by get_half_of_hypercube + SphereGrid4Dim._gen_grid")
            else:
                ctx.inconclusive("LEN", tag, f"{c.name} selects the rotation half itself instead of using the polytope's canonical half", fi.where,
                                 witness=f"predicates used: {used_preds}; double cover through super()._gen_grid(): {via_super}")
            continue
        if c.name.startswith("FullDiv"):
            # complete subdivision levels only: every node of the level (N is validated against the admissible sizes in __init__)
            init = c.methods.get("__init__")
            ok_init = init is not None and any(isinstance(n, ast.Raise) for n in ast.walk(init.node)) and "self.N" in src(init.node)
            ctx.check(arg is None and ok_init, "LEN", tag, "fulldiv takes every node of a complete level; N is validated against the admissible "
                      "sizes at construction", fi.where, src(call)[:120], witness=f"count argument {txt}, size validation in __init__: {ok_init}")
            continue
        if txt == "self.N":
            ctx.ok("LEN", tag, f"{fn} is asked for exactly self.N rows", fi.where, src(call)[:120])
        elif txt is None:
            ctx.violate("LEN", tag, f"{fn} is called without the requested size: the grid has as many rows as the source happens to hold, not N",
                        fi.where, src(call)[:120], witness="no N argument")
        elif "self.N" in txt and txt != "self.N":
            ctx.violate("LEN", tag, f"{fn} is asked for `{txt}` rows instead of self.N", fi.where, src(call)[:120], witness=txt)
        else:
            ctx.inconclusive("LEN", tag, "requested number of rows not recognised", fi.where, witness=txt)
    if seen_classes < 3:
        ctx.inconclusive("LEN", "C07.rows", "fewer grid generators recognised than on the pinned tree", rm.relpath, witness=str(seen_classes))
    # ------------------------------------------------------------ 2. polytope prefix, availability error, canonical half (shared rules)
    PR.sorted_prefix(ctx, repo, "C07")
    PR.half_hypercube(ctx, repo, "C07")
    pm = repo.module(PR.PO)
    hh = repo.cls(PR.PO, "Cube4DPolytope").methods.get("get_half_of_hypercube")
    if hh is None:
        raise AnalysisError("anchor vanished: Cube4DPolytope.get_half_of_hypercube")
    def raise_guards(fnode, rename):
        out = []
        for n in ast.walk(fnode):
            if isinstance(n, ast.If) and any(isinstance(b, ast.Raise) for b in n.body) and isinstance(n.test, ast.Compare) and len(n.test.ops) == 1:
                out.append((rename.get(src(n.test.left), src(n.test.left)), n.test.ops[0], rename.get(src(n.test.comparators[0]), src(n.test.comparators[0])), n))
        return out
    guards = raise_guards(hh.node, {})
    # the check may live in a private helper of the class: parameters are mapped back to the caller's expressions
    pcls = repo.cls(PR.PO, "Cube4DPolytope")
    for c in ast.walk(hh.node):
        if isinstance(c, ast.Call) and isinstance(c.func, ast.Attribute) and isinstance(c.func.value, ast.Name) and c.func.value.id in ("self", "cls") \
                and c.func.attr.startswith("_"):
            hm = pcls.find_method(c.func.attr)
            if hm is None:
                continue
            ps = [a.arg for a in hm.node.args.posonlyargs + hm.node.args.args]
            if "staticmethod" not in hm.decorators() and ps:
                ps = ps[1:]
            ren = {}
            for k_, a_ in enumerate(c.args):
                if k_ < len(ps):
                    ren[ps[k_]] = src(a_)
            for kw_ in c.keywords:
                if kw_.arg:
                    ren[kw_.arg] = src(kw_.value)
            guards += raise_guards(hm.node, ren)
        elif isinstance(c, ast.Call) and isinstance(c.func, ast.Name) and pm.functions.get(c.func.id) is not None and pm.functions[c.func.id].cls is None:
            # ... or in a module-level helper
            hm = pm.functions[c.func.id]
            ctx.analysed(hm)
            ps = [a.arg for a in hm.node.args.posonlyargs + hm.node.args.args]
            ren = {}
            for k_, a_ in enumerate(c.args):
                if k_ < len(ps):
                    ren[ps[k_]] = src(a_)
            for kw_ in c.keywords:
                if kw_.arg:
                    ren[kw_.arg] = src(kw_.value)
            guards += raise_guards(hm.node, ren)
    ctx.instance("LEN")
    okg = None
    for l, op, r, g in guards:
        if l == "N" and isinstance(op, ast.Gt) or r == "N" and isinstance(op, ast.Lt):
            okg = True
        elif l == "N" and isinstance(op, (ast.GtE,)) or r == "N" and isinstance(op, ast.LtE):
            okg = False
    if okg is True:
        ctx.ok("LEN", "C07.half.available", "requesting more rotations than the subdivision level offers raises an error (never fewer rows "
               "than N silently)", hh.where)
    elif okg is False:
        ctx.violate("LEN", "C07.half.available", "a request for exactly as many rotations as are available is rejected (off by one)", hh.where,
                    src(guards[0][3].test))
    else:
        ctx.violate("LEN", "C07.half.available", "no availability check: a request for more rotations than the level offers returns fewer than N "
                    "rows without an error", hh.where, witness="no `if N > available: raise`") if not guards else \
            ctx.inconclusive("LEN", "C07.half.available", "availability check not recognised", hh.where, witness=src(guards[0][3].test))
    # ------------------------------------------------------------ 3. double cover [G; -G], exact negation
    voro.double_cover_layout(ctx, repo, "C07")
    um = repo.module(UT)
    fiq = um.functions.get("find_inverse_quaternion")
    if fiq is None:
        raise AnalysisError("anchor vanished: utils.find_inverse_quaternion")
    ctx.analysed(fiq)
    rets = [n.value for n in ast.walk(fiq.node) if isinstance(n, ast.Return) and n.value is not None]
    par = fiq.params()[0] if fiq.params() else "q"
    ctx.instance("KERNEL")
    if len(rets) == 1 and isinstance(rets[0], ast.UnaryOp) and isinstance(rets[0].op, ast.USub) and src(rets[0].operand) == par:
        ctx.ok("KERNEL", "C07.negation", "find_inverse_quaternion(q) = -q (all four components negated: the same rotation)", fiq.where)
    elif len(rets) == 1 and src(rets[0]).replace(" ", "") in (f"-1*{par}", f"{par}*-1", f"np.negative({par})", f"{par}*(-1)"):
        ctx.ok("KERNEL", "C07.negation", "find_inverse_quaternion(q) = -q", fiq.where)
    elif len(rets) == 1 and any(isinstance(n, (ast.Subscript, ast.List, ast.Tuple)) for n in ast.walk(rets[0])):
        ctx.violate("KERNEL", "C07.negation", "find_inverse_quaternion does not negate the whole quaternion (a partial sign change is the "
                    "conjugate, i.e. the INVERSE rotation, not the same rotation)", fiq.where, src(rets[0])[:100])
    else:
        ctx.inconclusive("KERNEL", "C07.negation", "return value of find_inverse_quaternion not recognised", fiq.where,
                         witness=src(rets[0])[:100] if rets else "no return")
    # ------------------------------------------------------------ 4. hemisphere normalisation of random rotation grids
    hq = um.functions.get("hemisphere_quaternion_set")
    if hq is None:
        raise AnalysisError("anchor vanished: utils.hemisphere_quaternion_set")
    ctx.analysed(hq)
    outer = [n for n in hq.node.body if isinstance(n, ast.For)]
    ctx.instance("SELECT", 2)
    if len(outer) != 1:
        ctx.inconclusive("SELECT", "C07.hemisphere", "row loop of hemisphere_quaternion_set not recognised", hq.where)
    else:
        lp = outer[0]
        rowv = lp.target.id if isinstance(lp.target, ast.Name) else None
        appends = [n for n in ast.walk(lp) if isinstance(n, ast.Call) and isinstance(n.func, ast.Attribute) and n.func.attr == "append"]
        # every path through the body appends exactly one element: the inner for/else structure of the pinned code or an if/else
        inner = [n for n in lp.body if isinstance(n, ast.For)]
        one_per_row = None
        if len(inner) == 1 and inner[0].orelse:
            in_if = [n for n in ast.walk(ast.Module(body=inner[0].body, type_ignores=[])) if isinstance(n, ast.If)]
            brk = any(isinstance(n, ast.Break) for n in ast.walk(ast.Module(body=inner[0].body, type_ignores=[])))
            body_app = [a for a in appends if any(a is x for b in inner[0].body for x in ast.walk(b))]
            else_app = [a for a in appends if any(a is x for b in inner[0].orelse for x in ast.walk(b))]
            one_per_row = brk and len(body_app) >= 1 and len(else_app) >= 1
        elif len(inner) == 1 and not inner[0].orelse and appends and \
                all(any(a is x for b in inner[0].body for x in ast.walk(b)) for a in appends):
            one_per_row = False        # rows are appended only when the test inside the loop succeeds: the others are dropped
        elif not inner and len(lp.body) == 1 and isinstance(lp.body[0], ast.If) and lp.body[0].orelse:
            one_per_row = True
        elif not inner and len(lp.body) == 1 and isinstance(lp.body[0], ast.If) and not lp.body[0].orelse and appends:
            one_per_row = False
        vals = {src(a.args[0]) for a in appends if a.args}
        neg_forms = {f"find_inverse_quaternion({rowv})", f"-{rowv}"}
        only_row_or_neg = bool(vals) and vals <= ({rowv} | neg_forms)
        if one_per_row is None:
            ctx.inconclusive("SELECT", "C07.hemisphere.count", "control structure of hemisphere_quaternion_set not recognised", hq.where)
        else:
            ctx.check(one_per_row, "SELECT", "C07.hemisphere.count", "every input quaternion yields exactly one output row (rows are flipped, "
                      "never dropped or duplicated): N draws give N rotations", hq.where, witness="a path appends no row or the loop does not stop after the first")
        if only_row_or_neg:
            ctx.ok("SELECT", "C07.hemisphere.value", "each output row is the input quaternion or its exact negative (the same rotation)", hq.where)
        elif vals:
            ctx.violate("SELECT", "C07.hemisphere.value", "an output row is neither the input quaternion nor its negative", hq.where,
                        witness=str(sorted(vals))[:160])
        else:
            ctx.inconclusive("SELECT", "C07.hemisphere.value", "appended rows not recognised", hq.where)
        # polarity: with upper=True the row that is KEPT unchanged is the one passing the upper test
        preds = hemisphere_predicates(repo)
        tests = [n for n in ast.walk(lp) if isinstance(n, ast.If) and ("> 0" in src(n.test) or any(p in src(n.test) for p in preds))]
        pol = None
        for t in tests:
            for sub in ast.walk(t):
                if isinstance(sub, ast.If) and src(sub.test) == "upper":
                    kept = [a for a in appends if any(a is x for b in sub.body for x in ast.walk(b))]
                    if kept and kept[0].args:
                        pol = src(kept[0].args[0]) == rowv and ("> 0" in src(t.test) or not src(t.test).startswith("not "))
        ctx.instance("SELECT")
        if pol is None:
            ctx.inconclusive("SELECT", "C07.hemisphere.polarity", "polarity of the hemisphere normalisation not recognised", hq.where)
        else:
            ctx.check(pol, "SELECT", "C07.hemisphere.polarity", "with upper=True a quaternion whose first non-zero component is positive is kept, "
                      "the others are negated: all rows end in the canonical half", hq.where, witness="the kept / negated branches are swapped")
    rq = rm.classes.get("RandomQRotations")
    if rq is not None and "_gen_grid" in rq.methods:
        g = rq.methods["_gen_grid"]
        calls = [n for n in ast.walk(g.node) if isinstance(n, ast.Call) and src(n.func).split(".")[-1] == "hemisphere_quaternion_set"]
        ctx.instance("SELECT")
        if not calls:
            ctx.violate("SELECT", "C07.randomQ.normalised", "random quaternions are not brought to the canonical hemisphere before the double cover "
                        "is built: upper indices are no longer the first N rows", g.where, witness="no hemisphere_quaternion_set call")
        else:
            kw = {k.arg: k.value for k in calls[0].keywords}
            up = kw.get("upper", calls[0].args[1] if len(calls[0].args) > 1 else None)
            bad = isinstance(up, ast.Constant) and up.value is False
            ctx.check(not bad, "SELECT", "C07.randomQ.normalised", "random quaternions are normalised to the UPPER hemisphere", g.where,
                      src(calls[0])[:100], witness="upper=False")
    # ------------------------------------------------------------ 5. one-point grids
    z3 = rm.classes.get("ZeroRotations3D")
    z4 = rm.classes.get("ZeroRotations4D")
    if z3 is None or z4 is None:
        raise AnalysisError("anchor vanished: ZeroRotations3D / ZeroRotations4D")
    g3 = z3.methods.get("_gen_grid")
    g4 = z4.methods.get("_gen_grid")
    ctx.instance("KERNEL", 2)
    lits = [n for n in ast.walk(g3.node) if isinstance(n, (ast.List, ast.Tuple)) and len(n.elts) == 3 and
            all(isinstance(e, ast.Constant) for e in n.elts)] if g3 is not None else []
    if lits:
        v = [e.value for e in lits[0].elts]
        ctx.check(v == [0, 0, 1], "KERNEL", "C07.zero3D", "the one-point direction grid is the z direction (0, 0, 1)", g3.where, src(lits[0]),
                  witness=str(v))
    else:
        ctx.inconclusive("KERNEL", "C07.zero3D", "one-point direction grid not recognised", g3.where if g3 else rm.relpath)
    if g4 is not None:
        t4 = src(g4.node)
        eye = any(isinstance(n, ast.Call) and src(n.func).split(".")[-1] in ("eye", "identity") for n in ast.walk(g4.node))
        ident_q = any(isinstance(n, (ast.List, ast.Tuple)) and [getattr(e, "value", None) for e in n.elts] == [0, 0, 0, 1] for n in ast.walk(g4.node))
        other_q = [n for n in ast.walk(g4.node) if isinstance(n, (ast.List, ast.Tuple)) and len(n.elts) == 4 and
                   all(isinstance(e, ast.Constant) for e in n.elts) and [e.value for e in n.elts] != [0, 0, 0, 1]]
        if (eye and "from_matrix" in t4) or ident_q or "Rotation.identity" in t4:
            ctx.ok("KERNEL", "C07.zero4D", "the one-point rotation grid is the identity rotation", g4.where)
        elif other_q:
            ctx.violate("KERNEL", "C07.zero4D", "the one-point rotation grid is not the identity quaternion (0, 0, 0, 1)", g4.where, src(other_q[0]))
        else:
            ctx.inconclusive("KERNEL", "C07.zero4D", "one-point rotation grid not recognised", g4.where)
    ctx.require_instances("LEN", 4, "row-count obligations")
    ctx.trust(*META["trusted"])
    ctx.assume(*META["assumptions"])
