"""C08 — reproducibility, prefix stability, history independence (structural clauses): RNG, ORD, IDEMP, OWN."""
from __future__ import annotations

import ast

from .. import polyrules as PR
from ..rules.rng import RngAnalysis
from ..rules.idemp import classify_store, stores_in_class, mutable_defaults
from ..model import src, norm_stmt

META = {
    "explanation": "Reseed-dominance analysis over every function of molgri/space (call-graph fixpoint of 'drawing' functions + CFG "
                   "dominators): each random draw on a grid / geometry path is dominated by np.random.seed(<int constant>) in the same "
                   "function, so the stream position is independent of history and of the caller's generator state; getter purity: "
                   "every store to self.<attr> outside construction/generation is init-once, independent of the old value or an "
                   "idempotent filter; permanent indices are written once and node arrays are prefix-stable; no iteration order of a "
                   "str-keyed hash container, no mutable default argument and no module-level state reaches a result.",
    "decided": ["every draw reseeded with a constant immediately before (history / generator-state independence)",
                "getters are pure, init-once or idempotent (repeat / reorder calls: same values)",
                "N-point polytope grid is a prefix of every larger one; indices never rewritten; cache validated by node count",
                "no hash-randomised iteration order, no mutable defaults, no module-level mutable state on these paths"],
    "not_decided": ["bit-identity of scipy/qhull/BLAS results across processes (trusted)"],
    "trusted": ["scipy SphericalVoronoi.calculate_areas() sorts the vertex lists of `.regions` in place (lazy sort_vertices_of_regions)", "numpy global generator: seed(c) followed by the same draws gives the same values", "CPython int/tuple hashing is not randomised"],
    "assumptions": [],
}

SCOPE = ["molgri.space.polytopes", "molgri.space.rotobj", "molgri.space.voronoi", "molgri.space.utils", "molgri.space.fullgrid",
         "molgri.space.translations", "molgri.naming"]
OUT_OF_SCOPE_CLASSES = {"PositionVoronoi": "used by plotting only (not reachable from the grid / geometry getters)"}
DRAW_PRIMITIVES = {"molgri/space/utils.py:random_quaternions", "molgri/space/utils.py:random_sphere_points"}
# methods that construct / generate / subdivide (not getters)
CONSTRUCTION = {"__init__", "gen_grid", "_gen_grid", "gen_and_time", "divide_edges", "_end_of_divison", "_create_level0",
                "_add_mid_edge_nodes", "_add_polytope_point", "_add_edges_of_len", "_add_average_point_and_edges"}


# "every geometry getter ... (areas, volumes, adjacency, borders, distances, full array)": the common history-independence rules
# (CACHE, ALIAS, FWDCOLLIDE ...) also report for the full-grid layer and the helpers it is built on
EXTRA_MODULES = ["molgri.space.fullgrid", "molgri.space.utils", "molgri.space.translations"]


def lazy_library_sort(ctx, repo):
    """IDEMP: scipy's SphericalVoronoi.calculate_areas() first sorts the vertex lists of `sv.regions` IN PLACE (a lazy
    sort_vertices_of_regions).  A cell model whose region getter hands out those lists (directly or through a shallow copy) returns them
    in raw order before the first exact-area call and in cyclic order after it - unless the constructor has sorted them eagerly."""
    ci = repo.cls("molgri.space.voronoi", "RotobjVoronoi")
    init = ci.methods.get("__init__")
    crt = ci.methods.get("_create_centers_vertices_regions")
    ctx.instance("IDEMP")
    if init is None or crt is None:
        ctx.inconclusive("IDEMP", "C08.regions.sorted_once", "anchor vanished: RotobjVoronoi.__init__ / _create_centers_vertices_regions", "molgri/space/voronoi.py")
        return
    lazy_calls = [(fm, c) for cls_ in repo.module("molgri.space.voronoi").classes.values() for fm in cls_.methods.values()
                  for c in ast.walk(fm.node) if isinstance(c, ast.Call) and isinstance(c.func, ast.Attribute) and c.func.attr == "calculate_areas"]
    hands_out = any(isinstance(x, ast.Attribute) and x.attr == "regions" and "spherical_voronoi" in src(x.value) for x in ast.walk(crt.node))
    if not lazy_calls or not hands_out:
        ctx.ok("IDEMP", "C08.regions.sorted_once", "the cell model does not hand out the library's own region lists together with a lazy exact-area "
               "call", ci.module.relpath)
        return
    # the eager sort may sit in a private helper that the constructor calls
    from ..astutil import splice_self_calls as _spl
    init_view = _spl(ci, init.node, module=ci.module)
    eager = [c for c in ast.walk(init_view) if isinstance(c, ast.Call) and isinstance(c.func, ast.Attribute) and c.func.attr == "sort_vertices_of_regions"]
    deep = any(isinstance(c, ast.Call) and src(c.func).split(".")[-1] == "deepcopy" and "regions" in src(c) for cls_ in ci.mro() for fm in cls_.methods.values()
               for c in ast.walk(fm.node)) or \
        any(isinstance(c, ast.ListComp) and "regions" in src(c.generators[0].iter) + src(c.generators[0].iter if True else c) and
            ((isinstance(c.elt, ast.Call) and src(c.elt.func).split(".")[-1] in ("list", "copy", "sorted", "array", "tuple")) or
             (isinstance(c.elt, ast.Subscript) and isinstance(c.elt.slice, ast.Slice)))
            for cls_ in ci.mro() for fm in cls_.methods.values() if fm.name in ("__init__", "_create_centers_vertices_regions")
            for c in ast.walk(fm.node))
    if eager:
        def stmt_index(call):
            for k_, st_ in enumerate(init_view.body):
                if any(x is call for x in ast.walk(st_)):
                    return k_
            return None
        sup = [c for c in ast.walk(init_view) if isinstance(c, ast.Call) and src(c.func) == "super().__init__"]
        before = not sup or all(stmt_index(e_) is not None and stmt_index(sup[0]) is not None and stmt_index(e_) < stmt_index(sup[0]) for e_ in eager)
        ctx.check(before, "IDEMP", "C08.regions.sorted_once", "the region vertex lists are sorted once, at construction, before they are stored: the "
                  "lazy in-place sort inside calculate_areas() finds them sorted and changes nothing", init.where, src(eager[0])[:80],
                  witness="the eager sort comes after the regions were stored")
    elif deep:
        ctx.ok("IDEMP", "C08.regions.sorted_once", "the stored regions are deep copies of the library's lists", init.where)
    else:
        ctx.violate("IDEMP", "C08.regions.sorted_once", "the region lists handed out by get_all_voronoi_regions() are scipy's own lists and are never "
                    "sorted at construction: the first exact-area call (calculate_areas sorts them in place) changes what the region getter "
                    "returns - raw vertex order before, cyclic order after", init.where, src(lazy_calls[0][1])[:80],
                    witness="no sort_vertices_of_regions() in RotobjVoronoi.__init__, no deep copy of the regions")


def run(ctx, repo, tier):
    funcs = []
    for mn in SCOPE:
        m = repo.module(mn)
        for f in m.functions.values():
            funcs.append(f)
        for c in m.classes.values():
            if c.name in OUT_OF_SCOPE_CLASSES:
                ctx.notes.append(f"out of scope: {c.qualname}: {OUT_OF_SCOPE_CLASSES[c.name]}")
                continue
            for f in c.methods.values():
                funcs.append(f)
    for f in funcs:
        ctx.analysed(f)
    lazy_library_sort(ctx, repo)
    # ------------------------------------------------------------ RNG
    ra = RngAnalysis(repo, funcs).run()
    n_sites = 0
    for fi, call, desc, dominated, seed, note in ra.sites:
        n_sites += 1
        ctx.instance("RNG")
        if dominated:
            ctx.ok("RNG", "C08.rng.site", f"draw is dominated by a constant reseed ({src(seed)})", fi.where, src(call)[:120], derived=desc)
    for where, (call, desc) in sorted(ra.drawing.items()):
        if where in DRAW_PRIMITIVES:
            ctx.ok("RNG", "C08.rng.primitive", "draw primitive (forwards to the generator; every in-scope caller must reseed)", where, src(call)[:120])
            continue
        if desc.startswith("call of drawing function ") and not any(desc.startswith("call of drawing function " + p_) for p_ in DRAW_PRIMITIVES):
            ctx.notes.append(f"consequence: {where} calls a drawing function ({desc})")
            continue
        ctx.violate("RNG", "C08.rng.unseeded", "a random draw on a grid / geometry path is not dominated by np.random.seed(<int constant>) in "
                    "the same function: the result depends on what was computed before and on the state of numpy's global generator",
                    where, src(call)[:160], witness=desc)
    for fi, call in ra.seed_problems:
        ctx.violate("RNG", "C08.rng.seedconst", "reseed with a non-constant argument: the stream depends on data / on the caller", fi.where,
                    src(call)[:120], witness="argument of np.random.seed is not an integer constant")
    ctx.extra["rng_sites"] = [{"function": fi.where, "draw": src(call)[:100], "dominated_by_seed": dom, "seed": src(seed) if seed is not None else None}
                              for fi, call, desc, dom, seed, note in ra.sites]
    # ------------------------------------------------------------ IDEMP
    for mn in SCOPE:
        m = repo.module(mn)
        for c in m.classes.values():
            if c.name in OUT_OF_SCOPE_CLASSES:
                continue
            for fi, stmt, attr in stores_in_class(c, CONSTRUCTION):
                kind = classify_store(fi, stmt, attr)
                ctx.instance("IDEMP")
                if kind.startswith("sticky:"):
                    ctx.violate("IDEMP", "C08.idemp.sticky", f"a getter stores a value computed from its call argument(s) `{kind[7:]}` in "
                                f"self.{attr}: what later calls return depends on the arguments of earlier calls (a 'sticky' option), not only "
                                "on the grid specification", fi.where, norm_stmt(stmt)[:200],
                                witness=f"self.{attr} <- argument {kind[7:]}")
                elif kind in ("init_once", "independent", "idempotent_filter"):
                    ctx.ok("IDEMP", "C08.idemp.store", f"store to self.{attr} in a getter is {kind.replace('_', ' ')}", fi.where, norm_stmt(stmt)[:160])
                else:
                    ctx.violate("IDEMP", "C08.idemp.store", f"a geometry getter updates self.{attr} from its previous value "
                                f"({'accumulating update' if kind == 'accumulate' else 'new value depends on the old one'}): calling the "
                                "getter twice (or in a different order) changes what later calls return", fi.where, norm_stmt(stmt)[:200],
                                witness=f"self.{attr} is read on the right-hand side outside an idempotent filter")
            for fi in c.methods.values():
                md = mutable_defaults(fi)
                ctx.instance("IDEMP")
                if md:
                    ctx.violate("IDEMP", "C08.idemp.defaults", "mutable default argument: state shared between calls", fi.where,
                                f"def {fi.name}(..., {md[0]}=<mutable>)", witness=str(md))
        for fi in m.functions.values():
            md = mutable_defaults(fi)
            ctx.instance("IDEMP")
            if md:
                ctx.violate("IDEMP", "C08.idemp.defaults", "mutable default argument: state shared between calls", fi.where,
                            f"def {fi.name}(..., {md[0]}=<mutable>)", witness=str(md))
        # module-level state written from functions
        for n in ast.walk(m.tree):
            if isinstance(n, ast.Global):
                ctx.violate("IDEMP", "C08.idemp.global", "a function writes module-level state", m.relpath, src(n), witness=str(n.names))
        # class-level mutable attributes
        for c in m.classes.values():
            for an, av in c.class_attrs.items():
                ctx.instance("IDEMP")
                if isinstance(av, (ast.List, ast.Dict, ast.Set)):
                    # a constant table (never written after its definition) is not state; it becomes state when some method of the
                    # module stores into it / appends to it
                    MUT = ("append", "extend", "insert", "add", "update", "setdefault", "pop", "popitem", "remove", "discard", "clear", "sort", "reverse")
                    def _is_attr(e_):
                        return isinstance(e_, ast.Attribute) and e_.attr == an and isinstance(e_.value, ast.Name) and e_.value.id in ("self", "cls", c.name)
                    writes = [n_ for n_ in ast.walk(m.tree) if
                              (isinstance(n_, (ast.Assign, ast.AugAssign)) and any(isinstance(t_, ast.Subscript) and _is_attr(t_.value)
                                                                                 for t_ in (n_.targets if isinstance(n_, ast.Assign) else [n_.target]))) or
                              (isinstance(n_, ast.AugAssign) and _is_attr(n_.target)) or
                              (isinstance(n_, ast.Call) and isinstance(n_.func, ast.Attribute) and n_.func.attr in MUT and _is_attr(n_.func.value))]
                    if writes:
                        ctx.violate("IDEMP", "C08.idemp.classattr", "class-level mutable container that is written from a method: state shared between "
                                    "all objects", f"{m.relpath}:{c.name}", f"{an} = {src(av)[:60]}", witness=f"written at line {writes[0].lineno}")
                    else:
                        ctx.ok("IDEMP", "C08.idemp.classattr", f"class-level table {c.name}.{an} is never written after its definition", f"{m.relpath}:{c.name}")
    # ------------------------------------------------------------ ORD: iteration order of hash containers
    sites = []
    for fi in funcs:
        for n in ast.walk(fi.node):
            tgt = None
            if isinstance(n, ast.Call) and isinstance(n.func, ast.Name) and n.func.id in ("list", "tuple", "sorted") and n.args:
                a = n.args[0]
                if isinstance(a, (ast.Set, ast.SetComp)) or (isinstance(a, ast.Call) and (
                        (isinstance(a.func, ast.Name) and a.func.id in ("set", "frozenset")) or
                        (isinstance(a.func, ast.Attribute) and a.func.attr in ("intersection", "difference", "union", "symmetric_difference", "keys", "values", "items")))):
                    if n.func.id != "sorted":
                        tgt = a
            if isinstance(n, (ast.For, ast.comprehension)):
                a = n.iter
                if isinstance(a, (ast.Set, ast.SetComp)) or (isinstance(a, ast.Call) and isinstance(a.func, ast.Name) and a.func.id in ("set", "frozenset")):
                    tgt = a
            if tgt is not None:
                sites.append((fi, n, tgt))
    ctx.extra["hash_iteration_sites"] = []
    for fi, n, tgt in sites:
        ctx.instance("ORD")
        txt = src(tgt)
        # element type: strings are the only hash-randomised keys
        strish = any(isinstance(x, ast.Constant) and isinstance(x.value, str) for x in ast.walk(tgt)) or "name" in txt.lower() and "split" in txt
        ctx.extra["hash_iteration_sites"].append({"function": fi.where, "expr": txt[:100], "elements": "str" if strish else "int/float tuples (hash not randomised)"})
        if strish:
            ctx.violate("ORD", "C08.ord.strset", "the iteration order of a set/dict of strings (randomised per process) reaches an ordered result",
                        fi.where, src(n)[:160], witness=txt[:120])
        else:
            ctx.ok("ORD", "C08.ord.set", "iteration over a hash container of ints / coordinate tuples: order is a deterministic function of the "
                   "contents (CPython), identical in every process", fi.where, txt[:120])
    # ------------------------------------------------------------ ORD: polytope-based grids keep the polytope's index order
    # (prefix stability: the N-point grid is the first N nodes; a value-sort / de-duplication on the way re-orders the rows)
    REORDER = {"unique", "sort", "sorted", "flip", "flipud", "shuffle", "permutation", "lexsort", "argsort", "set", "frozenset", "roll"}
    rm = repo.module("molgri.space.rotobj")
    n_poly = 0
    for c in rm.classes.values():
        for fi in c.methods.values():
            if fi.name not in ("_gen_grid", "gen_grid"):
                continue
            for n in ast.walk(fi.node):
                if not (isinstance(n, ast.Call) and isinstance(n.func, ast.Attribute) and n.func.attr in ("get_half_of_hypercube", "get_nodes")
                        and "polytope" in src(n.func.value)):
                    continue
                n_poly += 1
                ctx.instance("ORD")
                # wrappers between the polytope getter and the statement
                wrappers = []
                p_ = getattr(n, "_parent", None)
                while p_ is not None and not isinstance(p_, ast.stmt):
                    if isinstance(p_, ast.Call) and p_ is not n:
                        wrappers.append(src(p_.func).split(".")[-1])
                    if isinstance(p_, ast.Subscript) and isinstance(p_.slice, ast.Slice) and p_.slice.step is not None:
                        wrappers.append("[::step]")
                    p_ = getattr(p_, "_parent", None)
                bad = [w for w in wrappers if w in REORDER or w == "[::step]"]
                if bad:
                    ctx.violate("ORD", "C08.prefix.grid_order", "the rows taken from the polytope (index order) pass through a re-ordering operation "
                                "before they become the grid: the N-point grid is no longer the first N nodes of every larger grid of the family",
                                fi.where, norm_stmt(p_)[:160] if p_ is not None else src(n)[:120], witness=f"re-ordering wrapper(s): {bad}")
                else:
                    ctx.ok("ORD", "C08.prefix.grid_order", "the grid rows are the polytope's nodes in index order (no re-ordering on the way)", fi.where,
                           src(n)[:120])
    if n_poly == 0:
        ctx.inconclusive("ORD", "C08.prefix.grid_order", "no polytope-based grid generator found in molgri/space/rotobj.py", rm.relpath)
    # ------------------------------------------------------------ OWN: prefix stability
    store = PR.index_writers(ctx, repo, "C08")
    PR.index_assignment(ctx, repo, "C08", store)
    PR.node_adding(ctx, repo, "C08")
    PR.sorted_prefix(ctx, repo, "C08")
    PR.half_hypercube(ctx, repo, "C08")
    ctx.require_instances("RNG", 5, "random draw sites on grid/geometry paths")
    ctx.require_instances("IDEMP", 10, "attribute stores / defaults examined")
    ctx.trust(*META["trusted"])
