"""C09 — full-grid row order: position-major, rotation-minor; index helpers; recoverable decomposition (LAYOUT/ORD/COEF)."""
from __future__ import annotations

import ast

from ..alg import Poly
from ..interp import Interp
from ..values import *
from .. import transfer as T
from ..fgmodel import GeoHooks, build_fullgrid, FG
from ..astutil import normaliser_functions
from ..model import AnalysisError, src
from ..rules.ordkind import OrdAnalysis, ASC, UNKNOWN

META = {
    "explanation": "FullGrid.get_full_grid_as_array, get_quaternion_index, get_position_index and __len__ are interpreted "
                   "abstractly over the abstractly constructed grid object with symbolic n_b, n_o, n_t: the row index of every "
                   "store is derived as a polynomial in the loop indices (LAYOUT) and the stored values as exact terms; the index "
                   "helpers are derived as n mod n_b and n div n_b. from_full_array_to_o_b_t is checked by the order-kind analysis "
                   "(de-duplication indexes with sorted first-occurrence indices = original order) and by column-split agreement "
                   "with the writer and the other readers.",
    "decided": ["row n = pos*n_b + rot with pos enumerating all directions at the first radius, then the second ...",
                "columns [0,3) = r_k * direction_o (radii in Angstrom: parsed values x NM2ANGSTROM), columns [3,7) = quaternion rot",
                "array has n_t*n_o*n_b rows and 7 columns, every row is written exactly once",
                "get_quaternion_index = n mod n_b, get_position_index = n div n_b, both of length len(self) by default",
                "decomposition keeps original order (sorted first-occurrence indices), radii ascending, column split [0,3)/[3,7) "
                "agrees between writer and readers, return order (o, b, t) agrees with the consumer"],
    "not_decided": ["that rounding to 8 decimals never merges two distinct grid points"],
    "trusted": [T.TABLE_VERSION, "summaries of sa/fgmodel.py", "np.unique(return_index=True) returns first-occurrence indices"],
    "assumptions": ["n_b>=4, n_o>=4, n_t>=2 symbolic context (the layout code has no size-dependent branch; C19 covers tiny sizes)"],
}

n_b, n_o, n_t = Poly.sym("n_b"), Poly.sym("n_o"), Poly.sym("n_t")


def simplify_divmod(p):
    """x div m * m + x mod m  ->  x   (applied until nothing changes; coefficients may be polynomials)"""
    # python's floor division of a loop / array index (non-negative by construction) by a positive size is the plain quotient
    ren = {}
    for a in p.atoms():
        if a[0] == "app" and a[1] == "floordiv" and len(a) == 4 and isinstance(a[2], Poly) and len(a[2].atoms()) == 1 and \
                a[2] == Poly.atom(next(iter(a[2].atoms()))) and \
                all((x[0] in ("idx", "sym") and "#" in str(x[1])) or (x[0] == "app" and x[1] == "at") for x in a[2].atoms()):
            ren[a] = Poly.app("div", a[2], a[3])
    if ren:
        p = p.subs(ren)
    changed = True
    while changed:
        changed = False
        for a in list(p.atoms()):
            if a[0] == "app" and a[1] == "mod" and len(a) == 4 and p.degree_in(a) == 1:
                X, m = a[2], a[3]
                da = ("app", "div", X, m)
                C = p.coeff_of(a)
                if da in p.atoms() and p.degree_in(da) == 1 and p.coeff_of(da) == C * Poly.lift(m):
                    p = p.without(a).without(da) + C * Poly.lift(X)
                    changed = True
                    break
    return p


def term_ops_of(v, acc=None, depth=0):
    """operators of all Terms inside a value (bounded)"""
    acc = acc if acc is not None else []
    if depth > 14:
        return acc
    if isinstance(v, Term):
        acc.append(v.op)
        for a in list(v.args) + list(v.kw.values()):
            term_ops_of(a, acc, depth + 1)
    elif isinstance(v, TupleV):
        for a in v.items:
            term_ops_of(a, acc, depth + 1)
    elif isinstance(v, Grid):
        term_ops_of(v.elem, acc, depth + 1)
    elif isinstance(v, Num):
        for a in v.p.all_atoms_deep():
            pass
    return acc


def run(ctx, repo, tier):
    hooks = GeoHooks(repo, n_b, n_o, n_t, bounds={"n_b": 4, "n_o": 4, "n_t": 2}, b_alg="cube4D", o_alg="ico")
    interp = Interp(repo, hooks, max_depth=20)
    fg = build_fullgrid(repo, interp, Const("b"), Const("o"), Const("t"))
    fgci = repo.cls(FG, "FullGrid")
    where = "molgri/space/fullgrid.py:FullGrid.get_full_grid_as_array"
    arr = interp.call_value(interp.getattr(fg, "get_full_grid_as_array"), [], {}, None, None)
    for f in interp.functions_entered:
        ctx.analysed(f)
    N = n_b * n_o * n_t
    # ------------------------------------------------------------------ the array
    if not (isinstance(arr, ObjV) and arr.ext == "ndarray" and "dims" in arr.attrs):
        ctx.inconclusive("LAYOUT", "C09.array", "full-grid array not derived as an array under construction", where,
                         witness=contains_top(arr) or vstr(arr)[:300])
    else:
        dims = arr.attrs["dims"].items_p
        ctx.instance("LAYOUT", 2)
        ctx.check(len(dims) == 2 and dims[0] == N and dims[1] == Poly.const(7), "LAYOUT", "C09.array.shape",
                  "array has n_t*n_o*n_b rows and 7 columns", where, "np.full((len(self), 7), np.nan)",
                  witness=" x ".join(d.pretty() for d in dims))
        pos_store = quat_store = None
        def vectorised_store(frames, idx, val):
            """result[:, a:b] = V with V a 2-D array whose row axis is (outer, inner) major->minor: the same as the two nested loops
            `for outer: for inner: result[outer*len(inner)+inner][a:b] = V[outer, inner]`"""
            full = lambda x: isinstance(x, Term) and x.op == "slice" and all(isinstance(y, Const) and y.v is None for y in x.args)
            if not (isinstance(idx, TupleV) and len(idx.items) == 2 and full(idx.items[0]) and isinstance(idx.items[1], Term) and idx.items[1].op == "slice"):
                return None
            if isinstance(val, ObjV) and val.ext == "ndarray":
                val = T.ndarray_value(interp, val)
            if not (isinstance(val, Grid) and val.ndim == 2 and len(val.dims[0]) in (2, 3) and len(val.dims[1]) == 1):
                return None
            if any(f.kind in ("loop", "guard") for f in frames):
                return None
            class _F:
                kind = "loop"
            fo, fi_ = _F(), _F()
            elem = val.elem
            if len(val.dims[0]) == 3:
                # two outer axes (a1 major, a2 minor) are one running index P = a1*e2 + a2:  a1 = P div e2, a2 = P mod e2
                (a1, e1), (a2, e2), inner = val.dims[0]
                fo.idx, fo.extent = interp.fresh_idx("P"), e1 * e2
                P_ = Poly.atom(fo.idx)
                elem = subst(elem, {a1: Poly.app("div", P_, e2), a2: Poly.app("mod", P_, e2)})
                fi_.idx, fi_.extent = inner
            else:
                (fo.idx, fo.extent), (fi_.idx, fi_.extent) = val.dims[0]
            row = Poly.atom(fo.idx) * fi_.extent + Poly.atom(fi_.idx)
            return (fo, fi_), TupleV([Num(row), idx.items[1]]), Grid([val.dims[1]], elem)
        for frames, idx, val, aug, st in arr.stores:
            vs_ = vectorised_store(frames, idx, val)
            if vs_ is not None:
                frames, idx, val = vs_
            if not (isinstance(idx, TupleV) and len(idx.items) == 2 and isinstance(idx.items[0], Num) and isinstance(idx.items[1], Term)
                    and idx.items[1].op == "slice"):
                ctx.inconclusive("LAYOUT", "C09.array.store", "store into the array not recognised", where, witness=vstr(idx)[:200])
                continue
            lo, hi, stp = idx.items[1].args
            lo_v = None if isinstance(lo, Const) else lo.p
            hi_v = None if isinstance(hi, Const) else hi.p
            cols = (lo_v if lo_v is not None else Poly.const(0), hi_v if hi_v is not None else Poly.const(7))
            rec = (frames, idx.items[0].p, cols, val, st)
            if cols == (Poly.const(0), Poly.const(3)):
                pos_store = rec
            elif cols == (Poly.const(3), Poly.const(7)):
                quat_store = rec
            else:
                ctx.violate("LAYOUT", "C09.array.columns", "a store writes columns other than [0,3) (position) or [3,7) (quaternion)",
                            where, src(st) if st is not None else "", witness=f"columns [{cols[0].pretty()}, {cols[1].pretty()})")
        if pos_store is None or quat_store is None:
            ctx.inconclusive("LAYOUT", "C09.array.stores", "expected one store of the position into columns [0,3) and one of the "
                             "quaternion into columns [3,7)", where, witness=f"{len(arr.stores)} stores")
        else:
            for name, (frames, row, cols, val, st) in (("position", pos_store), ("quaternion", quat_store)):
                loops = [f for f in frames if f.kind == "loop"]
                guards = [f for f in frames if f.kind == "guard"]
                ctx.instance("LAYOUT")
                if len(loops) != 2 or guards:
                    ctx.inconclusive("LAYOUT", f"C09.array.{name}.loops", "store is not inside exactly two nested loops", where,
                                     witness=f"{len(loops)} loops, {len(guards)} guards")
                    continue
                outer, inner = loops
                p, q = Poly.atom(outer.idx), Poly.atom(inner.idx)
                ok = outer.extent == n_o * n_t and inner.extent == n_b and row == p * n_b + q
                if ok:
                    ctx.ok("LAYOUT", f"C09.array.{name}.row", f"{name} of row n = pos*n_b + rot is written with pos in [0, n_t*n_o) outer "
                           "and rot in [0, n_b) inner: every row exactly once", where, src(st) if st is not None else "",
                           derived=f"row = {row.pretty()}, extents ({outer.extent.pretty()}, {inner.extent.pretty()})")
                else:
                    ctx.violate("LAYOUT", f"C09.array.{name}.row", f"{name} is not stored at row pos*n_b + rot (position-major, "
                                "rotation-minor)", where, src(st) if st is not None else "",
                                witness=f"derived row = {row.pretty()} with outer extent {outer.extent.pretty()}, inner extent {inner.extent.pretty()}")
                # value
                if name == "position":
                    okv = isinstance(val, Grid) and val.ndim == 1 and val.dim_len(0) == Poly.const(3) and isinstance(val.elem, Num)
                    if okv:
                        c = Poly.atom(val.dims[0][0][0])
                        exp = Poly.app("at", "r", Poly.app("div", p, n_o)) * Poly.app("at2", "G_o", Poly.app("mod", p, n_o), c)
                        okv = val.elem.p == exp
                    if okv:
                        ctx.ok("LAYOUT", "C09.array.position.value", "position of cell pos is direction (pos mod n_o) scaled to "
                               "radius r_(pos div n_o): all directions at the first radius, then the second, ...", where,
                               derived=vstr(val)[:200])
                    else:
                        r_ = contains_top(val)
                        (ctx.inconclusive if r_ else ctx.violate)("LAYOUT", "C09.array.position.value", "position stored in row n is not "
                                                                  "r_(pos div n_o) * direction_(pos mod n_o)", where,
                                                                  "result[current_index][:3] = o_rot", witness=r_ or vstr(val)[:300])
                else:
                    okv = isinstance(val, Grid) and val.ndim == 1 and val.dim_len(0) == Poly.const(4) and isinstance(val.elem, Num)
                    src_arr = None
                    if okv:
                        atoms = [a for a in val.elem.p.atoms() if a[0] == "app" and a[1] == "arrat"]
                        okv = len(atoms) == 1 and val.elem.p == Poly.atom(atoms[0]) and atoms[0][3] == q and \
                            atoms[0][4] == Poly.atom(val.dims[0][0][0])
                        src_arr = atoms[0][2] if atoms else None
                    br = fg.attrs.get("b_rotations")
                    grid_obj = br.attrs.get("grid") if isinstance(br, ObjV) else None
                    okv = okv and isinstance(grid_obj, ObjV) and src_arr == f"arr#{grid_obj.uid}"
                    if okv:
                        ctx.ok("LAYOUT", "C09.array.quaternion.value", "quaternion of row n is row (n mod n_b) of the rotation grid's "
                               "upper-half array", where, derived=vstr(val)[:200])
                    else:
                        r_ = contains_top(val)
                        (ctx.inconclusive if r_ else ctx.violate)("LAYOUT", "C09.array.quaternion.value", "quaternion stored in row n is "
                                                                  "not rotation (n mod n_b) of the rotation grid", where,
                                                                  "result[current_index][3:] = b_rot", witness=r_ or vstr(val)[:300])
    # ------------------------------------------------------------------ len and index helpers
    ln = interp.call_value(interp.getattr(fg, "__len__"), [], {}, None, None)
    ctx.instance("LAYOUT")
    # the same length in the Cartesian position mode (the tessellation there is built on an EXTENDED point set: one auxiliary shell)
    try:
        hooks_c = GeoHooks(repo, n_b, n_o, n_t, bounds={"n_b": 4, "n_o": 4, "n_t": 2}, b_alg="cube4D", o_alg="ico")
        interp_c = Interp(repo, hooks_c, max_depth=20)
        fg_c = build_fullgrid(repo, interp_c, Const("b"), Const("o"), Const("t"), cartesian=True)
        ln_c = interp_c.call_value(interp_c.getattr(fg_c, "__len__"), [], {}, None, None)
    except AnalysisError as e_:
        ln_c = Top(str(e_))
    ctx.instance("LAYOUT")
    if isinstance(ln_c, Num) and not ln_c.p.has_top():
        ctx.check(ln_c.p == N, "LAYOUT", "C09.len.cartesian", "len(full grid) = n_b*n_o*n_t in the Cartesian position mode as well (auxiliary "
                  "outer shell of the tessellation not counted)", "molgri/space/fullgrid.py:PositionGrid.__len__", witness=f"derived {ln_c.p.pretty()}")
    else:
        ctx.inconclusive("LAYOUT", "C09.len.cartesian", "length in the Cartesian position mode not derived", "molgri/space/fullgrid.py:PositionGrid.__len__",
                         witness=contains_top(ln_c) or vstr(ln_c)[:200])
    ctx.check(isinstance(ln, Num) and ln.p == N, "LAYOUT", "C09.len", "len(full grid) = n_b*n_o*n_t", "molgri/space/fullgrid.py:FullGrid.__len__",
              witness=vstr(ln))
    m = Poly.sym("m")
    for helper, digit, text in (("get_quaternion_index", "mod", "n mod n_b"), ("get_position_index", "div", "n div n_b")):
        hw = f"molgri/space/fullgrid.py:FullGrid.{helper}"
        # explicit index subset
        I = T.vec(interp, "I", m)
        res = interp.call_value(interp.getattr(fg, helper), [I], {}, None, None)
        ctx.instance("LAYOUT", 2)
        ok = isinstance(res, Grid) and res.ndim == 1 and res.dim_len(0) == m and isinstance(res.elem, Num)
        if ok:
            ia = Poly.app("at", "I", Poly.atom(res.dims[0][0][0]))
            ok = simplify_divmod(res.elem.p) == Poly.app(digit, ia, n_b)
        if ok:
            ctx.ok("LAYOUT", f"C09.{helper}.subset", f"{helper}(I)[k] = I[k] {digit} n_b for every index subset I", hw, derived=vstr(res)[:150])
        else:
            r_ = contains_top(res)
            lossy_ = [o_ for o_ in term_ops_of(res) if o_ in ("setop", "unique", "sort")]
            if lossy_ and not r_:
                ctx.violate("LAYOUT", f"C09.{helper}.subset", f"{helper} passes the requested indices through a set / sort operation: the answer is in "
                            "ascending order without repeats, not entry k for request k (a per-frame assignment, a permuted or repeated "
                            f"selection gets the wrong {text})", hw, "repeated_natural_num[full_grid_indices]", witness=vstr(res)[:300])
            else:
                (ctx.inconclusive if r_ else ctx.violate)("LAYOUT", f"C09.{helper}.subset", f"{helper} does not return {text}", hw,
                                                          "repeated_natural_num[full_grid_indices]", witness=r_ or vstr(res)[:300])
        # default: all rows
        res = interp.call_value(interp.getattr(fg, helper), [], {}, None, None)
        if isinstance(res, Grid) and res.ndim == 1 and len(res.dims[0]) > 1 and isinstance(res.elem, Num):
            # the table itself (np.tile / np.repeat keep a product axis): read it through its flat index n
            d_ = interp.iter_desc(res)
            if d_ is not None:
                nn_ = interp.fresh_idx("n")
                e_ = d_[1](Poly.atom(nn_))
                if isinstance(e_, Num):
                    res = Grid([[(nn_, d_[0])]], e_)
        ok = isinstance(res, Grid) and res.ndim == 1 and res.dim_len(0) == N and isinstance(res.elem, Num) and \
            simplify_divmod(res.elem.p) == Poly.app(digit, Poly.atom(res.dims[0][0][0]), n_b)
        if ok:
            ctx.ok("LAYOUT", f"C09.{helper}.all", f"{helper}() has len(self) entries, entry n = {text}", hw, derived=vstr(res)[:150])
        else:
            r_ = contains_top(res)
            (ctx.inconclusive if r_ else ctx.violate)("LAYOUT", f"C09.{helper}.all", f"{helper}() is not {text} for n in [0, len(self))",
                                                      hw, witness=r_ or vstr(res)[:300])
    # the requested rows are a numpy SELECTION (integer array in any order, negative indices, Boolean mask, slice): the helpers answer
    # by indexing a table with it.  Arithmetic on the selection itself agrees for non-negative integers only - a Boolean mask is cast
    # to 0/1 and an N-long vector of wrong values comes back, a negative index is not wrapped.
    fgc = repo.cls(FG, "FullGrid")
    for helper in ("get_quaternion_index", "get_position_index"):
        hm = fgc.find_method(helper)
        if hm is None:
            continue
        prm = hm.params()[1] if len(hm.params()) > 1 else None
        if prm is None:
            continue
        derived = {prm}
        grow = True
        while grow:
            grow = False
            for a in ast.walk(hm.node):
                if isinstance(a, ast.Assign) and len(a.targets) == 1 and isinstance(a.targets[0], ast.Name) and a.targets[0].id not in derived:
                    v = a.value
                    while isinstance(v, ast.Call) and src(v.func).split(".")[-1] in ("asarray", "array", "atleast_1d", "asanyarray") and v.args:
                        v = v.args[0]
                    if isinstance(v, ast.Name) and v.id in derived:
                        derived.add(a.targets[0].id)
                        grow = True

        def is_sel(e):
            while isinstance(e, ast.Call) and src(e.func).split(".")[-1] in ("asarray", "array", "atleast_1d", "asanyarray") and e.args:
                e = e.args[0]
            return isinstance(e, ast.Name) and e.id in derived
        arith = [n for n in ast.walk(hm.node) if (isinstance(n, ast.BinOp) and isinstance(n.op, (ast.Mod, ast.FloorDiv, ast.Div, ast.Sub, ast.Add, ast.Mult)) and
                                                   (is_sel(n.left) or is_sel(n.right))) or
                 (isinstance(n, ast.Call) and src(n.func).split(".")[-1] in ("divmod", "mod", "floor_divide", "remainder", "fmod") and
                  any(is_sel(x) for x in n.args))]
        ctx.instance("LAYOUT")
        if arith:
            ctx.violate("LAYOUT", f"C09.{helper}.selection", f"{helper} computes on the requested selection itself instead of indexing a table "
                        "with it: a Boolean mask over the full-grid rows is cast to 0/1 (an N-long vector of wrong values instead of the "
                        "entries of the selected rows) and negative indices are not wrapped", hm.where, src(arith[0])[:120],
                        witness=f"`{prm}` is used as an arithmetic operand")
        else:
            ctx.ok("LAYOUT", f"C09.{helper}.selection", f"{helper} uses the requested selection only as an index (any numpy selection works)", hm.where)
    # ------------------------------------------------------------------ radii are the converted (Angstrom) values
    pg = fg.attrs.get("position_grid")
    rad = interp.call_value(interp.getattr(pg, "get_radii"), [], {}, None, None) if isinstance(pg, ObjV) else None
    tgrid = pg.attrs.get("t_grid").attrs.get("trans_grid") if isinstance(pg, ObjV) and isinstance(pg.attrs.get("t_grid"), ObjV) else None
    ctx.instance("COEF")
    ctx.check(rad is not None and tgrid is not None and vkey(rad) == vkey(tgrid), "COEF", "C09.radii", "positions use the parser's "
              "converted radii (Angstrom = 10 x nm, see C16) without further scaling", "molgri/space/fullgrid.py:PositionGrid.get_radii",
              witness=vstr(rad)[:200])

    # ------------------------------------------------------------------ decomposition back into o, b, t
    fd = repo.func(FG, "from_full_array_to_o_b_t")
    ctx.analysed(fd)
    dw = fd.where
    defs = {}
    for n in ast.walk(fd.node):
        if isinstance(n, ast.Assign) and len(n.targets) == 1 and isinstance(n.targets[0], ast.Name):
            defs.setdefault(n.targets[0].id, []).append(n.value)

    from ..astutil import inline_helpers, local_defs_with_unpack
    unpack_defs = local_defs_with_unpack(fd.node.body)

    def expand(e, depth=0):
        if depth > 6:
            return e
        if isinstance(e, ast.Name) and e.id in defs and len(defs[e.id]) == 1:
            return expand(defs[e.id][0], depth + 1)
        if isinstance(e, ast.Name) and e.id in unpack_defs and e.id not in defs:
            return expand(unpack_defs[e.id], depth + 1)
        if isinstance(e, ast.Call) and isinstance(e.func, ast.Name) and e.func.id not in normaliser_functions(repo):
            r_ = inline_helpers(repo, fd.module, e, skip=normaliser_functions(repo),
                                local_funcs={n_.name: n_ for n_ in ast.walk(fd.node) if isinstance(n_, ast.FunctionDef) and n_ is not fd.node})
            if not (isinstance(r_, ast.Call) and isinstance(r_.func, ast.Name) and r_.func.id == e.func.id):
                return expand(r_, depth + 1)
        return e

    def is_np(call, name):
        return isinstance(call, ast.Call) and (repo.dotted_of(fd.module, call.func) or "") == "numpy." + name

    def first_occurrence_dedupe(e):
        """X[np.sort(np.unique(np.round(X, k), return_index=True, axis=0)[1])] -> X (expanded) or None"""
        e = expand(e)
        if not isinstance(e, ast.Subscript):
            return None, "?not a subscript"
        X = e.value
        idx = expand(e.slice)
        if not is_np(idx, "sort"):
            return None, "index is not sorted (np.sort): rows would come out in the order of np.unique (sorted by value)"
        inner = expand(idx.args[0]) if idx.args else None
        if not (isinstance(inner, ast.Subscript) and isinstance(inner.slice, ast.Constant) and inner.slice.value == 1):
            return None, "?sorted value is not element [1] (the first-occurrence indices) of np.unique(..., return_index=True)"
        u = expand(inner.value)
        if not is_np(u, "unique"):
            return None, "?not np.unique"
        kws = {k.arg: k.value for k in u.keywords}
        if not (isinstance(kws.get("return_index"), ast.Constant) and kws["return_index"].value is True):
            return None, "np.unique without return_index=True"
        if not (isinstance(kws.get("axis"), ast.Constant) and kws["axis"].value == 0):
            return None, "np.unique without axis=0 (rows)"
        if "return_inverse" in kws or "return_counts" in kws:
            return None, "np.unique returns more than (values, indices)"
        arg = expand(u.args[0]) if u.args else None
        if is_np(arg, "round") or is_np(arg, "around"):
            arg = expand(arg.args[0])
        if ast.dump(expand(arg)) != ast.dump(expand(X)):
            return None, f"np.unique is applied to `{src(arg)}` but the indices select from `{src(X)}`"
        return expand(X), ""

    rets = [n for n in ast.walk(fd.node) if isinstance(n, ast.Return) and isinstance(n.value, ast.Tuple)]
    if len(rets) != 1 or len(rets[0].value.elts) != 3:
        ctx.inconclusive("ORD", "C09.decompose.return", "from_full_array_to_o_b_t does not return one 3-tuple", dw)
    else:
        o_e, b_e, t_e = rets[0].value.elts
        param = fd.params()[0]

        def col_slice(e):
            """full_array[:, a:b] -> (a, b)"""
            e = expand(e)
            if isinstance(e, ast.Subscript) and isinstance(e.value, ast.Name) and e.value.id == param and \
                    isinstance(e.slice, ast.Tuple) and len(e.slice.elts) == 2 and isinstance(e.slice.elts[1], ast.Slice):
                s = e.slice.elts[1]
                a = s.lower.value if isinstance(s.lower, ast.Constant) else (0 if s.lower is None else "?")
                b = s.upper.value if isinstance(s.upper, ast.Constant) else (7 if s.upper is None else "?")
                return a, b
            return None
        # quaternions
        X, why = first_occurrence_dedupe(b_e)
        ctx.instance("ORD", 2)
        if X is None and why.startswith("?"):
            ctx.inconclusive("ORD", "C09.decompose.b.order", "de-duplication idiom of the rotations not recognised", dw, src(expand(b_e))[:200],
                             witness=why[1:])
        elif X is None:
            ctx.violate("ORD", "C09.decompose.b.order", "rotations are not de-duplicated in original (first-occurrence) order", dw,
                        src(expand(b_e))[:200], witness=why)
        else:
            ctx.ok("ORD", "C09.decompose.b.order", "rotations: duplicates removed by sorted first-occurrence indices (original order)", dw)
            cs = col_slice(X)
            ctx.check(cs == (3, 7), "LAYOUT", "C09.decompose.b.columns", "rotations are read from columns [3,7)", dw, src(X), witness=str(cs))
        # orientations
        X, why = first_occurrence_dedupe(o_e)
        if X is None and why.startswith("?"):
            ctx.inconclusive("ORD", "C09.decompose.o.order", "de-duplication idiom of the directions not recognised", dw, src(expand(o_e))[:200],
                             witness=why[1:])
        elif X is None:
            ctx.violate("ORD", "C09.decompose.o.order", "directions are not de-duplicated in original (first-occurrence) order", dw,
                        src(expand(o_e))[:200], witness=why)
        else:
            ctx.ok("ORD", "C09.decompose.o.order", "directions: duplicates removed by sorted first-occurrence indices (original order)", dw)
            Xe = expand(X)
            # in-place normalisation of a local:  d = full_array[:, :3].copy(); d /= norms[:, None]   (whether `d` is a copy or a view of
            # the argument is the ALIAS rule's business)
            if True:
                augs = [n for n in ast.walk(fd.node) if isinstance(n, ast.AugAssign) and isinstance(n.target, ast.Name) and isinstance(n.op, ast.Div) and
                        ast.dump(expand(ast.Name(id=n.target.id, ctx=ast.Load()))) == ast.dump(Xe)]
                if len(augs) == 1:
                    base = Xe
                    while (isinstance(base, ast.Call) and isinstance(base.func, ast.Attribute) and base.func.attr in ("copy", "astype")) or \
                            (isinstance(base, ast.Call) and src(base.func) in ("np.array", "np.copy", "numpy.array", "np.asarray") and base.args):
                        base = base.func.value if isinstance(base.func, ast.Attribute) and base.func.attr in ("copy", "astype") else base.args[0]
                    Xe = ast.BinOp(left=base, op=ast.Div(), right=augs[0].value)
            okn = isinstance(Xe, ast.Call) and isinstance(Xe.func, ast.Name) and Xe.func.id in normaliser_functions(repo) and col_slice(Xe.args[0]) == (0, 3)
            is_norm = isinstance(Xe, ast.Call) and isinstance(Xe.func, ast.Name) and Xe.func.id in normaliser_functions(repo)
            cs_o = col_slice(Xe.args[0]) if is_norm and Xe.args else None
            if okn:
                ctx.ok("LAYOUT", "C09.decompose.o.columns", "directions are the normalised columns [0,3)", dw, src(Xe)[:120])
            elif is_norm and cs_o is not None:
                ctx.violate("LAYOUT", "C09.decompose.o.columns", "directions are not read from columns [0,3)", dw, src(Xe)[:120], witness=f"columns {cs_o}")
            elif isinstance(Xe, ast.BinOp) and isinstance(Xe.op, ast.Div) and col_slice(Xe.left) == (0, 3):
                # hand-written normalisation: columns [0,3) divided by their own row norms
                dv = expand(Xe.right)
                while isinstance(dv, ast.Subscript) or (isinstance(dv, ast.Call) and isinstance(dv.func, ast.Attribute) and dv.func.attr == "reshape"):
                    dv = expand(dv.value if isinstance(dv, ast.Subscript) else dv.func.value)
                rounded = False
                while is_np(dv, "round") or is_np(dv, "around"):
                    rounded = True
                    dv = expand(dv.args[0])
                    while isinstance(dv, ast.Subscript):
                        dv = expand(dv.value)
                if is_np(dv, "linalg.norm") and dv.args and col_slice(dv.args[0]) == (0, 3):
                    if rounded:
                        ctx.violate("LAYOUT", "C09.decompose.o.columns", "directions are the position columns divided by ROUNDED norms: the quotient "
                                    "is not a unit vector, the same direction recovered from two shells differs around the 8th decimal and "
                                    "survives the de-duplication, so the direction grid comes back with extra rows (every cell index after the "
                                    "first duplicate shifts)", dw, src(Xe)[:160], witness="divisor passes through np.round before the division")
                    else:
                        ctx.ok("LAYOUT", "C09.decompose.o.columns", "directions are columns [0,3) divided by their own row norms", dw, src(Xe)[:120])
                else:
                    ctx.inconclusive("LAYOUT", "C09.decompose.o.columns", "divisor of the hand-written normalisation not recognised", dw, witness=src(Xe)[:200])
            elif col_slice(Xe) is not None:
                ctx.violate("LAYOUT", "C09.decompose.o.columns", "directions are taken from the position columns without normalisation (they "
                            "carry the radius)", dw, src(Xe)[:120], witness=f"columns {col_slice(Xe)}, not normalised")
            else:
                ctx.inconclusive("LAYOUT", "C09.decompose.o.columns", "source of the directions not recognised", dw, witness=src(Xe)[:200])
        # translations: unique of norms (ascending = original order since radii ascend, C16)
        te = expand(t_e)
        okt = is_np(te, "unique") and not te.keywords
        arg = expand(te.args[0]) if okt and te.args else None
        if okt and (is_np(arg, "round") or is_np(arg, "around")):
            arg = expand(arg.args[0])
        okt = okt and is_np(arg, "linalg.norm") and col_slice(arg.args[0]) == (0, 3) and \
            any(k.arg == "axis" and isinstance(k.value, ast.Constant) and k.value.value == 1 for k in arg.keywords)
        ctx.instance("ORD")
        ctx.check(okt, "ORD", "C09.decompose.t", "radii = ascending unique row norms of columns [0,3) (original order because the "
                  "radial grid is ascending)", dw, src(te)[:160], witness=src(te)[:200])
        # rounding constant
        rounds = [n for n in ast.walk(fd.node) if is_np(n, "round") and len(n.args) > 1 and isinstance(n.args[1], ast.Constant)]
        ctx.instance("COEF")
        ctx.check(all(rr.args[1].value >= 6 for rr in rounds), "COEF", "C09.decompose.round", "comparison precision of the de-duplication "
                  "is at least 6 decimals", dw, witness=str([rr.args[1].value for rr in rounds]))
    # consumer unpacks in the same order
    at = repo.cls("molgri.molecules.transitions", "AssignmentTool")
    init = at.find_method("__init__")
    ctx.analysed(init)
    found = False
    for n in ast.walk(init.node):
        if isinstance(n, ast.Assign) and isinstance(n.value, ast.Call) and isinstance(n.value.func, ast.Name) and \
                n.value.func.id == "from_full_array_to_o_b_t" and isinstance(n.targets[0], ast.Tuple):
            names = [src(t) for t in n.targets[0].elts]
            found = True
            ctx.instance("PAIR")
            ctx.check(names == ["self.o_array", "self.b_array", "self.t_array"], "PAIR", "C09.decompose.consumer", "AssignmentTool unpacks "
                      "(directions, rotations, radii) in the order they are returned", init.where, src(n), witness=str(names))
    if not found:
        ctx.inconclusive("PAIR", "C09.decompose.consumer", "consumer of from_full_array_to_o_b_t not found", init.where)
    # reader in pts.py splits rows the same way
    pts = repo.cls("molgri.molecules.pts", "Pseudotrajectory")
    gen = pts.find_method("generate_pseudotrajectory")
    ctx.analysed(gen)
    from ..astutil import const_slice, splice_self_calls
    from ..model import FunctionInfo as _FI9, set_parents as _sp9
    _spl9 = splice_self_calls(pts, gen.node, module=pts.module)      # the row may be split inside a helper
    _sp9(_spl9)
    gen = _FI9(gen.name, gen.qualname, gen.module, _spl9, gen.cls)
    rowvars = set()
    for n in ast.walk(gen.node):
        if isinstance(n, ast.For):
            tg = n.target
            if isinstance(tg, ast.Tuple) and len(tg.elts) == 2 and isinstance(n.iter, ast.Call) and src(n.iter.func) == "enumerate":
                tg = tg.elts[1]
            if isinstance(tg, ast.Name):
                rowvars.add(tg.id)
    for n in ast.walk(gen.node):        # plain aliases of a row variable (helper parameters after splicing)
        if isinstance(n, ast.Assign) and len(n.targets) == 1 and isinstance(n.targets[0], ast.Name) and isinstance(n.value, ast.Name) and \
                n.value.id in rowvars:
            rowvars.add(n.targets[0].id)
    slices = set()
    for n in ast.walk(gen.node):
        if isinstance(n, ast.Subscript) and isinstance(n.value, ast.Name) and n.value.id in rowvars:
            cs = const_slice(n)
            if cs is not None:
                slices.add((cs[0] or 0, 7 if cs[1] is None else cs[1]))
    ctx.instance("LAYOUT")
    if not slices:
        ctx.inconclusive("LAYOUT", "C09.reader.pts", "row split of the pseudotrajectory reader not recognised", gen.where)
    else:
        ctx.check(slices == {(0, 3), (3, 7)}, "LAYOUT", "C09.reader.pts",
                  "the pseudotrajectory reads position = row[:3] and quaternion = row[3:] (same split as the writer)", gen.where,
                  witness=f"column ranges read from a row: {sorted(slices)}")
    # ------------------------------------------------------------------ inherited: the radii in the rows are the parsed distances x10, unquantised (C16)
    from .C16 import radii_conversion
    radii_conversion(ctx, repo, "C09")
    ctx.require_instances("LAYOUT", 10, "layout obligations")
    ctx.trust(*META["trusted"])
    ctx.assume(*META["assumptions"])
