"""C10 — pseudotrajectory frames (partial): RESET (per-frame restore dominates every mutation), PARITY (rotation matrix not
inverted, translation sign), frame/atom order, sibling agreement of the second-molecule selection, quaternion convention."""
from __future__ import annotations

import ast

from ..model import AnalysisError, src, norm_stmt
from ..astutil import Canon, const_slice, strip_wrappers, splice_self_calls, helper_closure

META = {
    "explanation": "Syntax-directed dataflow over Pseudotrajectory.generate_pseudotrajectory / get_pt_as_universe and the writers in "
                   "molgri/io.py: inside the frame loop every in-place mutator of the moving molecule is dominated, within the iteration, "
                   "by a restore of its positions from a loop-invariant snapshot (no state is carried from frame to frame); the matrix "
                   "handed to rotate() is Rotation.from_quat(row[3:]).as_matrix() with an even number of inversions and the translation "
                   "is +row[:3]; exactly one frame is yielded per row, in row order, and frames are collected by order-preserving "
                   "comprehensions; atoms are Merge(static, moving) and the three selection strings for the second molecule agree; "
                   "pseudotrajectory and assignment use the same (scalar-last) quaternion constructor convention.",
    "decided": ["per-frame reset before rotate/translate (history independence of frames)", "rotation = R(q) of the row's quaternion (not its "
                "inverse/transpose), about the molecule's centre of mass; translation by +position",
                "one frame per row, in row order; atom order molecule 1 then molecule 2", "sibling selections and quaternion convention agree",
                "writer centres both molecules; PtWriter wires (molecule1, molecule2, grid array) in order"],
    "not_decided": ["MDAnalysis' rotation / translation arithmetic", "that AtomGroup.positions returns a copy (trusted)"],
    "trusted": ["MDAnalysis: AtomGroup.positions getter returns a copy; rotate(R, point) applies R about point; translate(t) adds t; "
                "Merge(a, b) concatenates a then b"],
    "assumptions": ["molecules centred at their centre of mass (property precondition)"],
}

MUTATORS = {"rotate", "translate", "transform", "rotateby", "wrap", "align_principal_axis", "pack_into_box", "unwrap"}
INVERTERS = {"inv", "transpose", "T"}


def chain(e):
    """self.moving_molecule.atoms.rotate -> 'self.moving_molecule.atoms'"""
    return src(e)


def _bind(call, fnode, skip_self=True):
    """bind the arguments of `call` to the parameter names of function `fnode` -> {param: expr} or None"""
    params = [a.arg for a in fnode.args.posonlyargs + fnode.args.args]
    if skip_self and params and params[0] in ("self", "cls"):
        params = params[1:]
    out = {}
    for k, a in enumerate(call.args):
        if isinstance(a, ast.Starred) or k >= len(params):
            return None
        out[params[k]] = a
    for kw in call.keywords:
        if kw.arg is None:
            return None
        out[kw.arg] = kw.value
    return out


def row_vector_rotation(ctx, repo, pci):
    """PARITY: MDAnalysis keeps coordinates as ROW vectors (n_atoms, 3).  `atoms.rotate(R)` applies x -> R·x, which for row vectors is
    `positions @ R.T`.  A hand-written `positions @ R` with R = Rotation.from_quat(q).as_matrix() applies R^T, the inverse rotation."""
    import copy as _cp

    def resolver(fn):
        defs = {}
        for n in ast.walk(fn):
            if isinstance(n, ast.Assign) and len(n.targets) == 1:
                t = n.targets[0]
                if isinstance(t, ast.Name):
                    defs.setdefault(t.id, []).append(n.value)
                elif isinstance(t, ast.Tuple) and all(isinstance(x, ast.Name) for x in t.elts):
                    v = n.value
                    if isinstance(v, ast.Call) and isinstance(v.func, ast.Attribute) and isinstance(v.func.value, ast.Name) and v.func.value.id == "self":
                        m = pci.find_method(v.func.attr)
                        rets = [r.value for r in ast.walk(m.node) if isinstance(r, ast.Return) and r.value is not None] if m is not None else []
                        if len(rets) == 1 and isinstance(rets[0], ast.Tuple) and len(rets[0].elts) == len(t.elts):
                            hd = resolver(m.node)
                            for x, e in zip(t.elts, rets[0].elts):
                                defs.setdefault(x.id, []).append(("resolved", expand(e, hd, 0)))
                    elif isinstance(v, ast.Tuple) and len(v.elts) == len(t.elts):
                        for x, e in zip(t.elts, v.elts):
                            defs.setdefault(x.id, []).append(e)
            if isinstance(n, (ast.For, ast.comprehension)):
                it, tg = n.iter, n.target
                if isinstance(it, ast.Call) and isinstance(it.func, ast.Name) and it.func.id == "enumerate" and it.args and isinstance(tg, ast.Tuple) and len(tg.elts) == 2:
                    it, tg = it.args[0], tg.elts[1]
                if isinstance(it, ast.Call) and isinstance(it.func, ast.Name) and it.func.id == "zip" and isinstance(tg, ast.Tuple) and len(tg.elts) == len(it.args):
                    for x, a in zip(tg.elts, it.args):
                        if isinstance(x, ast.Name):
                            defs.setdefault(x.id, []).append(a)        # an element of `a`
                elif isinstance(tg, ast.Name):
                    defs.setdefault(tg.id, []).append(it)
        return defs

    def expand(e, defs, depth):
        if depth > 5:
            return e

        class Tr(ast.NodeTransformer):
            def visit_Name(self, node):
                ds = defs.get(node.id, [])
                if isinstance(node.ctx, ast.Load) and len(ds) == 1:
                    d = ds[0]
                    if isinstance(d, tuple):
                        return _cp.deepcopy(d[1])
                    return expand(_cp.deepcopy(d), defs, depth + 1)
                return node

            def visit_Call(self, node):
                self.generic_visit(node)
                if isinstance(node.func, ast.Attribute) and isinstance(node.func.value, ast.Name) and node.func.value.id == "self" and not node.args and not node.keywords:
                    m = pci.find_method(node.func.attr)
                    if m is not None:
                        rets = [r.value for r in ast.walk(m.node) if isinstance(r, ast.Return) and r.value is not None]
                        if len(rets) == 1 and not isinstance(rets[0], ast.Tuple):
                            return expand(_cp.deepcopy(rets[0]), resolver(m.node), depth + 1)
                return node
        return Tr().visit(_cp.deepcopy(e))

    def rot_parity(e):
        """number of transpositions (mod 2) around a scipy rotation matrix; None if e is not one"""
        par = 0
        cur = e
        for _ in range(8):
            if isinstance(cur, ast.Attribute) and cur.attr == "T":
                par, cur = par + 1, cur.value
            elif isinstance(cur, ast.Call) and isinstance(cur.func, ast.Attribute) and cur.func.attr == "transpose" and not cur.args:
                par, cur = par + 1, cur.func.value
            elif isinstance(cur, ast.Call) and src(cur.func) in ("np.transpose", "numpy.transpose") and len(cur.args) == 1:
                par, cur = par + 1, cur.args[0]
            elif isinstance(cur, ast.Subscript):
                cur = cur.value                 # one matrix of a stack
            elif isinstance(cur, ast.Call) and isinstance(cur.func, ast.Attribute) and cur.func.attr in ("copy", "astype"):
                cur = cur.func.value
            elif isinstance(cur, ast.Call) and src(cur.func) in ("np.asarray", "np.array", "numpy.asarray", "numpy.array") and cur.args:
                cur = cur.args[0]
            else:
                break
        if isinstance(cur, ast.Call) and isinstance(cur.func, ast.Attribute) and cur.func.attr in ("as_matrix", "as_dcm"):
            inv = sum(1 for x in ast.walk(cur.func.value) if isinstance(x, ast.Call) and isinstance(x.func, ast.Attribute) and x.func.attr == "inv")
            return (par + inv) % 2
        return None

    def row_positions(e):
        if isinstance(e, ast.Attribute) and e.attr == "T":
            return False
        return any(isinstance(x, ast.Attribute) and x.attr == "positions" for x in ast.walk(e)) and \
            not any(isinstance(x, ast.Attribute) and x.attr == "T" for x in ast.walk(e))

    seen = 0
    bad = []
    for name, fm in sorted(pci.methods.items()):
        defs = resolver(fm.node)
        for n in ast.walk(fm.node):
            pair = None
            if isinstance(n, ast.BinOp) and isinstance(n.op, ast.MatMult):
                pair = (n.left, n.right)
            elif isinstance(n, ast.Call) and src(n.func) in ("np.dot", "np.matmul", "numpy.dot", "numpy.matmul") and len(n.args) == 2:
                pair = (n.args[0], n.args[1])
            elif isinstance(n, ast.Call) and isinstance(n.func, ast.Attribute) and n.func.attr == "dot" and len(n.args) == 1:
                pair = (n.func.value, n.args[0])
            if pair is None:
                continue
            L, R = expand(pair[0], defs, 0), expand(pair[1], defs, 0)
            rp = rot_parity(R)
            if rp is None or not row_positions(L):
                continue
            seen += 1
            ctx.analysed(fm)
            if rp == 0:
                bad.append((fm, n))
    ctx.instance("PARITY", max(1, seen))
    for fm, n in bad:
        ctx.violate("PARITY", "C10.rowvector", "atom coordinates are row vectors (n_atoms, 3): multiplying them from the right by the rotation "
                    "matrix R = Rotation.from_quat(q).as_matrix() applies R^T, the INVERSE of the grid rotation (atoms.rotate(R) is "
                    "positions @ R.T); frames are right only for rotations equal to their own inverse", fm.where, src(n)[:140],
                    witness="positions @ R  instead of  positions @ R.T")
    if not bad:
        ctx.ok("PARITY", "C10.rowvector", f"no hand-written product of row-vector coordinates with an untransposed rotation matrix ({seen} "
               "matrix products of coordinates with rotation matrices examined)", pci.module.relpath)


def run(ctx, repo, tier):
    pci = repo.cls("molgri.molecules.pts", "Pseudotrajectory")
    gen = pci.methods.get("generate_pseudotrajectory")
    if gen is None:
        raise AnalysisError("anchor vanished: Pseudotrajectory.generate_pseudotrajectory")
    ctx.analysed(gen)
    where = gen.where
    # per-frame placement may live in a private helper (method, module-level or nested function): analyse the spliced generator
    from ..model import FunctionInfo as _FI0, set_parents as _sp0
    def _moves_atoms(fn_node):
        """helpers that place the molecule (they call rotate / translate or assign positions); pure converters are left as calls"""
        return any((isinstance(x, ast.Call) and isinstance(x.func, ast.Attribute) and x.func.attr in MUTATORS) or
                   (isinstance(x, (ast.Assign, ast.AugAssign)) and any(isinstance(t_, ast.Attribute) and t_.attr == "positions"
                                                                        for t_ in (x.targets if isinstance(x, ast.Assign) else [x.target]))) or
                   (isinstance(x, ast.Call) and isinstance(x.func, ast.Name) and x.func.id == "Merge")
                   for x in ast.walk(fn_node))
    _spl = splice_self_calls(pci, gen.node, module=pci.module, accept=_moves_atoms)

    class _InlineMerge(ast.NodeTransformer):
        """self._helper()  ->  Merge(...)  for parameterless private helpers whose whole body is `return Merge(...)`"""
        def visit_Call(self, node):
            self.generic_visit(node)
            if isinstance(node.func, ast.Attribute) and isinstance(node.func.value, ast.Name) and node.func.value.id == "self" and \
                    not node.args and not node.keywords and node.func.attr.startswith("_"):
                m_ = pci.find_method(node.func.attr)
                if m_ is not None:
                    b_ = [x for x in m_.node.body if not (isinstance(x, ast.Expr) and isinstance(x.value, ast.Constant))]
                    if len(b_) == 1 and isinstance(b_[0], ast.Return) and isinstance(b_[0].value, ast.Call) and \
                            isinstance(b_[0].value.func, ast.Name) and b_[0].value.func.id == "Merge":
                        ctx.analysed(m_)
                        import copy as _cp
                        return _cp.deepcopy(b_[0].value)
            return node
    _spl = ast.fix_missing_locations(_InlineMerge().visit(_spl))
    _sp0(_spl)
    for c_ in ast.walk(gen.node):
        if isinstance(c_, ast.Call) and isinstance(c_.func, ast.Name) and pci.module.functions.get(c_.func.id) is not None:
            ctx.analysed(pci.module.functions[c_.func.id])
    gen = _FI0(gen.name, gen.qualname, gen.module, _spl, gen.cls)
    loops = [n for n in gen.node.body if isinstance(n, ast.For)]
    if len(loops) != 1:
        loops = [n for n in ast.walk(gen.node) if isinstance(n, ast.For)]
    if len(loops) != 1:
        ctx.inconclusive("RESET", "C10.loop", "expected one frame loop in generate_pseudotrajectory", where, witness=f"{len(loops)} loops")
        return
    loop = loops[0]
    ctx.instance("RESET")
    body = loop.body
    pre = []
    for n in gen.node.body:
        if n is loop:
            break
        pre.append(n)
    loop_targets = {m.id for m in ast.walk(loop.target) if isinstance(m, ast.Name)}
    pre_defs = Canon.single_defs(gen.node.body, exclude=loop_targets)
    pre_defs = {k: v for k, v in pre_defs.items() if any(v is getattr(st, "value", None) for st in pre)}
    loc_defs = Canon.single_defs(gen.node.body, exclude=loop_targets)
    loc_defs = {k: v for k, v in loc_defs.items() if k not in pre_defs and any(v is getattr(st, "value", None) for st in body)}
    cpre = Canon(pre_defs)
    call_ = Canon({**pre_defs, **loc_defs})
    assigned_in_loop = set()
    for n in ast.walk(ast.Module(body=body, type_ignores=[])):
        if isinstance(n, (ast.Assign, ast.AugAssign, ast.AnnAssign)):
            for t in (n.targets if isinstance(n, ast.Assign) else [n.target]):
                if isinstance(t, ast.Name):
                    assigned_in_loop.add(t.id)
    # ---------------- the loop iterates over the grid rows in order
    it = loop.iter
    it_txt = cpre.text(it)
    row = loop.target.id if isinstance(loop.target, ast.Name) else None
    if isinstance(it, ast.Call) and isinstance(it.func, ast.Name) and it.func.id == "enumerate" and isinstance(loop.target, ast.Tuple) and \
            len(loop.target.elts) == 2 and isinstance(loop.target.elts[1], ast.Name) and it.args:
        row = loop.target.elts[1].id
        it_txt = cpre.text(it.args[0])
    if isinstance(it, ast.Call) and isinstance(it.func, ast.Name) and it.func.id == "zip" and isinstance(loop.target, ast.Tuple) and \
            len(loop.target.elts) == len(it.args):
        # for row, extra in zip(grid, per_row_values): rows are visited in grid order as long as the grid is one of the zipped sequences
        for tg_, a_ in zip(loop.target.elts, it.args):
            if isinstance(tg_, ast.Name) and cpre.text(a_) in ("self.full_grid", "self.get_full_grid()"):
                row = tg_.id
                it_txt = cpre.text(a_)
    reorder = [n for n in ast.walk(cpre.expand(it)) if (isinstance(n, ast.Call) and src(n.func).split(".")[-1] in
               ("reversed", "sorted", "flip", "flipud", "permutation", "shuffle", "unique", "sort")) or
               (isinstance(n, ast.Subscript) and const_slice(n) is not None and const_slice(n)[2] not in (None, 1))]
    if it_txt in ("self.full_grid", "self.get_full_grid()"):
        ctx.ok("ORD", "C10.rows", "frames are generated by iterating over the grid array rows in their order", where, f"for {src(loop.target)} in {src(it)}")
    elif reorder:
        ctx.violate("ORD", "C10.rows", "the frame loop does not visit the grid rows in their stored order", where, f"for {src(loop.target)} in {src(it)}",
                    witness=f"re-ordering construct: {src(reorder[0])[:80]}")
    else:
        ctx.inconclusive("ORD", "C10.rows", "iteration source of the frame loop not recognised as the grid array", where, witness=it_txt[:120])

    # ---------------- collect statements of the loop body in order (top level of the body)
    mutator_sites = []
    resets = []
    nested_resets = []
    for k, st in enumerate(body):
        for n in ast.walk(st):
            if isinstance(n, ast.Call) and isinstance(n.func, ast.Attribute) and n.func.attr in MUTATORS:
                mutator_sites.append((k, st, n, call_.text(n.func.value)))
            if isinstance(n, (ast.Assign, ast.AugAssign)) and n is not st:
                tg = n.targets[0] if isinstance(n, ast.Assign) else n.target
                if isinstance(tg, ast.Attribute) and tg.attr == "positions":
                    nested_resets.append((k, n, call_.text(tg.value)))
        if isinstance(st, ast.Assign) and len(st.targets) == 1 and isinstance(st.targets[0], ast.Attribute) and st.targets[0].attr == "positions":
            resets.append((k, st, call_.text(st.targets[0].value)))
        if isinstance(st, ast.AugAssign) and isinstance(st.target, ast.Attribute) and st.target.attr == "positions":
            mutator_sites.append((k, st, st, call_.text(st.target.value)))
    ctx.instance("RESET", len(mutator_sites))
    for k, st, call, recv in mutator_sites:
        if isinstance(call, ast.Call) and call.func.attr == "translate" and isinstance(st, ast.If):
            in_body = any(call is n for b in st.body for n in ast.walk(b))
            other = st.orelse if in_body else st.body
            twin = any(isinstance(n, ast.Call) and isinstance(n.func, ast.Attribute) and n.func.attr == "translate" for b in other for n in ast.walk(b))
            if not twin:
                ctx.violate("DOM", "C10.translate.unconditional", "the translation to the row's position is executed only under a condition: for "
                            "rows / molecules where it is false the frame keeps the molecule at the origin", where, src(call)[:120],
                            witness=f"translate() is nested in `if {src(st.test)[:80]}` with no translation on the other branch")
        if isinstance(call, ast.Call) and call.func.attr == "rotate" and isinstance(st, ast.If):
            in_body = any(call is n for b in st.body for n in ast.walk(b))
            other = st.orelse if in_body else st.body
            twin = any(isinstance(n, ast.Call) and isinstance(n.func, ast.Attribute) and n.func.attr == "rotate" for b in other for n in ast.walk(b))
            if not twin:
                test_ = call_.expand(st.test)
                toler = [n for n in ast.walk(test_) if (isinstance(n, ast.Call) and src(n.func).split(".")[-1] in ("isclose", "allclose")) or
                         (isinstance(n, ast.Compare) and any(isinstance(o_, (ast.Lt, ast.LtE, ast.Gt, ast.GtE)) for o_ in n.ops))]
                ctx.instance("DOM")
                if toler:
                    ctx.violate("DOM", "C10.rotate.unconditional", "the rotation by the row's quaternion is skipped under a TOLERANCE test: a small "
                                "but non-zero rotation (w = cos(angle/2) within the tolerance of 1) is dropped, frame k is not rotated by row k's "
                                "quaternion", where, src(call)[:120],
                                witness=f"rotate() is nested in `if {src(st.test)[:100]}`; np.isclose default rtol=1e-5 <=> angles up to ~0.5 degrees")
                else:
                    ctx.inconclusive("DOM", "C10.rotate.unconditional", "the rotation is executed only under a condition that is not recognised", where,
                                     src(call)[:120], witness=src(st.test)[:120])
    if not mutator_sites:
        ctx.inconclusive("RESET", "C10.reset", "no rotate/translate call found in the frame loop", where)
    last_mut = max([k for k, *_ in mutator_sites], default=-1)
    for k, st, call, recv in mutator_sites:
        mname = call.func.attr if isinstance(call, ast.Call) else "positions +="
        # loop-fresh receivers need no reset
        root = src(call.func.value).split(".")[0] if isinstance(call, ast.Call) else ""
        if root in assigned_in_loop and root != "self" and root not in pre_defs and not call_.text(ast.Name(id=root, ctx=ast.Load())).startswith("self."):
            ctx.ok("RESET", "C10.reset", f"{mname}() acts on an object created inside the iteration", where, src(call)[:120])
            continue
        same = [r for r in resets if r[2] == recv]
        before = [r for r in same if r[0] < k]
        after = [r for r in same if r[0] > last_mut]
        good = None
        unknown_src = None
        for rk, rst, rrecv in before or after:
            v = strip_wrappers(rst.value)
            if isinstance(v, ast.Name) and v.id in pre_defs and v.id not in assigned_in_loop:
                good = (rst, v.id)
            else:
                unknown_src = rst
        if good:
            snap = pre_defs[good[1]]
            pos_txt = "before" if before else "at the end of"
            ctx.ok("RESET", "C10.reset", f"{mname}() is paired in every iteration with a restore of the positions ({pos_txt} the "
                   f"iteration) from the loop-invariant snapshot `{good[1]}`", where, src(call)[:120], derived=norm_stmt(good[0]))
            stxt = cpre.text(strip_wrappers(snap))
            if stxt == recv + ".positions":
                ctx.ok("RESET", "C10.reset.snapshot", "the snapshot is the moving molecule's own starting geometry taken before the loop", where,
                       "starting_positions = ...")
            elif stxt.endswith(".positions"):
                ctx.violate("RESET", "C10.reset.snapshot", "the positions are restored from the geometry of a DIFFERENT atom group", where,
                            src(snap)[:100], witness=f"snapshot of {stxt}, restored into {recv}")
            else:
                ctx.inconclusive("RESET", "C10.reset.snapshot", "origin of the restored geometry not recognised", where, witness=stxt[:120])
        elif unknown_src is not None or any(r[2] == recv for r in nested_resets):
            ctx.inconclusive("RESET", "C10.reset", "a restore of the positions exists but its source / placement is not of a recognised form", where,
                             witness=norm_stmt(unknown_src) if unknown_src is not None else "restore nested in a compound statement")
        else:
            ctx.violate("RESET", "C10.reset", f"in-place {mname}() on the moving molecule is not paired, within the iteration, with a "
                        "restore of its positions from a snapshot taken before the loop: frame k depends on frames 0..k-1", where,
                        src(call)[:160], witness=f"restores of {recv}.positions in the loop body: {[norm_stmt(r[1]) for r in same]}")

    # ---------------- PARITY
    rot_calls = [(k, st, c) for k, st, c, r in mutator_sites if isinstance(c, ast.Call) and c.func.attr == "rotate"]
    tr_calls = [(k, st, c) for k, st, c, r in mutator_sites if isinstance(c, ast.Call) and c.func.attr == "translate"]
    ctx.instance("PARITY", 2)
    if len(rot_calls) != 1 or len(tr_calls) != 1:
        ctx.inconclusive("PARITY", "C10.parity", "expected one rotate and one translate per frame", where,
                         witness=f"{len(rot_calls)} rotate, {len(tr_calls)} translate")
    else:
        rk, _, rc = rot_calls[0]
        tk, _, tc = tr_calls[0]
        rkw = {k.arg: k.value for k in rc.keywords}
        m = rc.args[0] if rc.args else rkw.get("R")
        pt = rkw.get("point", rc.args[1] if len(rc.args) > 1 else None)
        recv = call_.text(rc.func.value)
        pt_txt = call_.text(pt) if pt is not None else None
        if rk < tk:
            ctx.ok("ORD", "C10.order", "rotate first (molecule still centred), translate afterwards", where)
        elif pt_txt is not None and pt_txt.replace(" ", "") in (recv + ".center_of_mass()", recv + ".center_of_geometry()"):
            ctx.ok("ORD", "C10.order", "translate first, then rotate about the molecule's own current centre (evaluated at the call): same frame", where)
        elif pt is None:
            ctx.violate("ORD", "C10.order", "the molecule is translated first and then rotated about the ORIGIN: the position of the frame is "
                        "R(q)·p instead of p", where, src(rc)[:120], witness="translate precedes rotate; rotate has no point= argument")
        else:
            ctx.inconclusive("ORD", "C10.order", "translate precedes rotate and the rotation point is not recognised", where, witness=pt_txt[:100])
        # walk the chain  Rotation.from_quat(q).<...>.as_matrix()<.T...>
        inversions = 0
        e = call_.expand(m) if m is not None else None
        seen_from_quat = None
        steps = []
        unknown_step = None
        idx_var = loop.target.elts[0].id if (isinstance(loop.target, ast.Tuple) and len(loop.target.elts) == 2 and
                                             isinstance(loop.target.elts[0], ast.Name) and isinstance(it, ast.Call) and
                                             isinstance(it.func, ast.Name) and it.func.id == "enumerate") else None
        table = None
        if isinstance(e, ast.Subscript) and not isinstance(e.slice, (ast.Slice, ast.Tuple)):
            # matrices precomputed for all rows and looked up per frame:  T[<index>]
            table = (e.value, e.slice)
            e = e.value
        for _ in range(14):
            if isinstance(e, ast.Attribute) and e.attr == "T":
                inversions += 1
                steps.append(".T")
                e = e.value
            elif isinstance(e, ast.Call) and isinstance(e.func, ast.Attribute):
                a = e.func.attr
                d = repo.dotted_of(gen.module, e.func) or ""
                if a == "from_quat" or d.endswith("Rotation.from_quat"):
                    seen_from_quat = e
                    break
                if d in ("numpy.linalg.inv", "numpy.transpose", "numpy.linalg.pinv") and e.args:
                    inversions += 1
                    steps.append("inv()")
                    e = e.args[0]
                    continue
                if d in ("numpy.asarray", "numpy.array", "numpy.ascontiguousarray") and e.args:
                    e = e.args[0]
                    continue
                if a in ("inv", "transpose"):
                    inversions += 1
                elif a not in ("as_matrix", "as_dcm", "copy", "astype"):
                    unknown_step = a
                    break
                steps.append("." + a + "()")
                e = e.func.value
            else:
                break
        hand = None
        if seen_from_quat is None and m is not None:
            # matrices computed by a repository function for all rows and paired with the rows by zip(grid, matrices)
            me = m
            if isinstance(me, ast.Name) and isinstance(loop.target, ast.Tuple) and isinstance(it, ast.Call) and isinstance(it.func, ast.Name) and \
                    it.func.id == "zip" and len(it.args) == len(loop.target.elts):
                for tg_, src_ in zip(loop.target.elts, it.args):
                    if isinstance(tg_, ast.Name) and tg_.id == me.id:
                        me = cpre.expand(src_)
            if isinstance(me, ast.Call) and isinstance(me.func, ast.Name):
                r_ = repo.resolve_name(gen.module, me.func.id)
                if r_ and r_[0] == "func":
                    v_ = qmat_verdict(r_[1].node)
                    if v_ is not None:
                        hand = (r_[1], v_, me)
        if hand is not None:
            hf, (verdict, detail), mcall = hand
            ctx.analysed(hf)
            if verdict == "ok":
                ctx.ok("PARITY", "C10.parity.rotation", f"hand-written conversion {hf.name}: all nine entries equal R(q) of the unit quaternion "
                       "(x, y, z, w)", hf.where, derived=detail)
            else:
                ctx.violate("PARITY", "C10.parity.rotation", f"the hand-written quaternion-to-matrix conversion {hf.name} is not R(q): " +
                            {"transposed": "it is the inverse rotation", "scalar_first": "it reads the quaternion scalar-first",
                             "wrong": "an entry differs (the matrix is not orthogonal in general)"}[verdict], hf.where, src(mcall)[:120],
                            witness=detail)
            qa_ = strip_wrappers(mcall.args[0]) if mcall.args else None
            cols = qa_.slice.elts if (isinstance(qa_, ast.Subscript) and isinstance(qa_.slice, ast.Tuple) and len(qa_.slice.elts) == 2) else None
            okq_ = cols is not None and isinstance(cols[0], ast.Slice) and cols[0].lower is None and cols[0].upper is None and \
                isinstance(cols[1], ast.Slice) and isinstance(cols[1].lower, ast.Constant) and cols[1].lower.value == 3 and \
                (cols[1].upper is None or (isinstance(cols[1].upper, ast.Constant) and cols[1].upper.value == 7))
            if okq_ and cpre.text(strip_wrappers(qa_.value)) in ("self.full_grid", "self.get_full_grid()"):
                ctx.ok("LAYOUT", "C10.parity.quaternion", "the conversion receives columns [3:] of all grid rows, paired with the rows by zip", where)
            else:
                ctx.inconclusive("LAYOUT", "C10.parity.quaternion", "argument of the conversion not recognised as columns [3:] of the grid", where,
                                 witness=src(qa_)[:100] if qa_ is not None else "")
        elif seen_from_quat is None or unknown_step:
            ctx.inconclusive("PARITY", "C10.parity.rotation", "rotation matrix is not derived from Rotation.from_quat(...) by a recognised chain",
                             where, witness=(f"step .{unknown_step}() " if unknown_step else "") + (src(m)[:160] if m is not None else ""))
        else:
            ctx.check(inversions % 2 == 0, "PARITY", "C10.parity.rotation", "the matrix handed to rotate() is R(q) of the row's quaternion "
                      "(even number of inversions/transposes on the chain)", where, src(rc)[:160],
                      witness=f"{inversions} inversion(s): {''.join(reversed(steps))}")
            q = strip_wrappers(seen_from_quat.args[0]) if seen_from_quat.args else None
            qs = const_slice(q)
            if table is not None:
                # batch form: the table must hold R(q_k) for EVERY row k in row order and be indexed by the plain row counter
                ix = table[1]
                cols = q.slice.elts if (isinstance(q, ast.Subscript) and isinstance(q.slice, ast.Tuple) and len(q.slice.elts) == 2) else None
                all_rows = cols is not None and isinstance(cols[0], ast.Slice) and cols[0].lower is None and cols[0].upper is None and cols[0].step is None
                qcols = cols is not None and isinstance(cols[1], ast.Slice) and isinstance(cols[1].lower, ast.Constant) and cols[1].lower.value == 3 and \
                    (cols[1].upper is None or (isinstance(cols[1].upper, ast.Constant) and cols[1].upper.value == 7)) and cols[1].step is None
                same_grid = cols is not None and cpre.text(q.value) == it_txt
                plain_idx = isinstance(ix, ast.Name) and ix.id == idx_var
                if all_rows and qcols and same_grid and plain_idx:
                    ctx.ok("LAYOUT", "C10.parity.quaternion", "rotation matrices are precomputed for all rows (columns [3:]) and row k uses entry k",
                           where, src(rc)[:120])
                elif cols is not None and same_grid and all_rows and qcols and not plain_idx:
                    ctx.violate("LAYOUT", "C10.parity.quaternion", "frame k does not use the rotation of row k: the precomputed table is indexed by "
                                "something other than the row counter", where, src(rc)[:120], witness=f"index `{src(ix)}`")
                elif isinstance(q, ast.Subscript) and not (all_rows and qcols):
                    ctx.violate("LAYOUT", "C10.parity.quaternion", "the table of rotation matrices is not built from the quaternion columns of "
                                "ALL rows in row order (a subset / re-ordered selection is not aligned with the frames)", where,
                                src(seen_from_quat)[:120], witness=f"from_quat({src(q)[:80]}) indexed by `{src(ix)}`")
                else:
                    ctx.inconclusive("LAYOUT", "C10.parity.quaternion", "precomputed rotation table not recognised", where, witness=src(q)[:100] if q is not None else "")
            elif qs is not None and isinstance(q.value, ast.Name) and q.value.id == row:
                if qs[0] == 3 and qs[1] in (None, 7) and qs[2] in (None, 1):
                    ctx.ok("LAYOUT", "C10.parity.quaternion", "the quaternion is columns [3:] of the current grid row", where, src(seen_from_quat)[:120])
                else:
                    ctx.violate("LAYOUT", "C10.parity.quaternion", "the quaternion is not columns [3:7] of the current grid row", where,
                                src(seen_from_quat)[:120], witness=f"{row}[{qs[0]}:{qs[1]}:{qs[2]}]")
            else:
                ctx.inconclusive("LAYOUT", "C10.parity.quaternion", "argument of from_quat is not a constant slice of the current row", where,
                                 witness=src(q)[:120] if q is not None else "")
            kws = {k.arg: k.value for k in seen_from_quat.keywords}
            sf = kws.get("scalar_first")
            if sf is None or (isinstance(sf, ast.Constant) and sf.value is False):
                ctx.ok("PARITY", "C10.convention.pts", "scalar-last quaternion convention (default constructor)", where, src(seen_from_quat)[:120])
            elif isinstance(sf, ast.Constant) and sf.value is True:
                ctx.violate("PARITY", "C10.convention.pts", "the row's quaternion is read scalar-first although grids store (x, y, z, w)", where,
                            src(seen_from_quat)[:120], witness="scalar_first=True")
            else:
                ctx.inconclusive("PARITY", "C10.convention.pts", "quaternion convention not constant", where, witness=src(sf))
        # rotation about the origin and about the centre of mass coincide for centred molecules (precondition of the property):
        # recorded, deliberately not judged
        ctx.notes.append(f"rotation point: {src(pt) if pt is not None else 'origin (default)'}")
        tkw = {k.arg: k.value for k in tc.keywords}
        targ = tc.args[0] if tc.args else tkw.get("t")
        t = call_.expand(targ) if targ is not None else None
        negs = 0
        t = strip_wrappers(t) if t is not None else None
        while isinstance(t, ast.UnaryOp) and isinstance(t.op, (ast.USub, ast.UAdd)):
            negs += 1 if isinstance(t.op, ast.USub) else 0
            t = strip_wrappers(t.operand)
        ts = const_slice(t)
        if ts is not None and isinstance(t.value, ast.Name) and t.value.id == row:
            if ts[0] in (None, 0) and ts[1] == 3 and ts[2] in (None, 1):
                if negs % 2 == 0:
                    ctx.ok("PARITY", "C10.parity.translation", "translation by +row[:3]", where, src(tc)[:120])
                else:
                    ctx.violate("PARITY", "C10.parity.translation", "the molecule is translated by the NEGATIVE of the row's position", where,
                                src(tc)[:120], witness=src(targ))
            else:
                ctx.violate("LAYOUT", "C10.parity.translation", "translation vector is not columns [:3] of the current row", where, src(tc)[:120],
                            witness=f"{row}[{ts[0]}:{ts[1]}:{ts[2]}]")
        else:
            ctx.inconclusive("LAYOUT", "C10.parity.translation", "translation vector is not a constant slice of the current row", where,
                             witness=src(targ)[:120] if targ is not None else "no argument")
    # ---------------- one frame per row, atom order
    yields = [n for n in ast.walk(loop) if isinstance(n, ast.Yield)]
    top_yields = [st for st in body if isinstance(st, ast.Expr) and isinstance(st.value, ast.Yield)]
    cond_yields = []
    for st in body:
        if isinstance(st, (ast.If, ast.While, ast.Try, ast.For)):
            cond_yields += [n for n in ast.walk(st) if isinstance(n, ast.Yield)]
    ctx.instance("ORD", 2)
    if len(yields) == 1 and len(top_yields) == 1:
        ctx.ok("ORD", "C10.one_frame", "exactly one frame is yielded per grid row, unconditionally", where)
    elif cond_yields and isinstance([st for st in body if cond_yields[0] in ast.walk(st)][0], ast.If):
        ctx.violate("ORD", "C10.one_frame", "a frame is yielded only under a condition: some grid rows produce no frame, frame k is not row k",
                    where, witness=src([st for st in body if cond_yields[0] in ast.walk(st)][0].test)[:100])
    else:
        ctx.inconclusive("ORD", "C10.one_frame", "number of frames per grid row not recognised", where,
                         witness=f"{len(yields)} yield(s), {len(top_yields)} at the top level of the loop body")
    # every yielded frame must be an object of its own: a loop-invariant object whose coordinates are overwritten in each iteration makes
    # all frames that a consumer keeps show the LAST row
    ctx.instance("OWN")
    if yields:
        yv = yields[0].value
        ynames = [n.id for n in ast.walk(yv) if isinstance(n, ast.Name)] if yv is not None else []
        shared = [nm for nm in ynames if nm in pre_defs and nm not in assigned_in_loop]
        # aliases (sub-objects) of the shared names defined before the loop
        alias_of = {}
        for nm, v_ in pre_defs.items():
            roots = {x.id for x in ast.walk(v_) if isinstance(x, ast.Name)}
            for sh_ in shared:
                if sh_ in roots and isinstance(v_, (ast.Subscript, ast.Attribute)):
                    alias_of[nm] = sh_
        mutated = None
        for st in ast.walk(ast.Module(body=body, type_ignores=[])):
            tg_ = None
            if isinstance(st, ast.Assign) and isinstance(st.targets[0], (ast.Attribute, ast.Subscript)):
                tg_ = st.targets[0]
            elif isinstance(st, ast.AugAssign) and isinstance(st.target, (ast.Attribute, ast.Subscript)):
                tg_ = st.target
            elif isinstance(st, ast.Call) and isinstance(st.func, ast.Attribute) and st.func.attr in MUTATORS:
                tg_ = st.func
            if tg_ is None:
                continue
            root = tg_
            while isinstance(root, (ast.Attribute, ast.Subscript)):
                root = root.value
            if isinstance(root, ast.Name) and (root.id in shared or root.id in alias_of):
                mutated = (st, alias_of.get(root.id, root.id))
        if shared and mutated:
            ctx.violate("OWN", "C10.frame_object", f"the generator yields the same object `{mutated[1]}` for every row and overwrites its "
                        "coordinates in each iteration: frames that a consumer collects all show the placement of the last row", where,
                        norm_stmt(mutated[0])[:140] if isinstance(mutated[0], ast.stmt) else src(mutated[0])[:140],
                        witness=f"`{mutated[1]}` is created before the loop and is part of the yielded value")
        elif shared:
            ctx.inconclusive("OWN", "C10.frame_object", "the yielded value contains an object created before the loop", where, witness=str(shared))
        else:
            ctx.ok("OWN", "C10.frame_object", "each yielded frame is an object created in its own iteration", where)
    merges = [n for n in ast.walk(loop) if isinstance(n, ast.Call) and (repo.dotted_of(gen.module, n.func) or "").endswith("Merge")]
    if not merges:
        merges = [n for n in ast.walk(gen.node) if isinstance(n, ast.Call) and (repo.dotted_of(gen.module, n.func) or "").endswith("Merge")]
    if merges:
        a = [call_.text(x) for x in merges[0].args]
        if a == ["self.static_molecule.atoms", "self.moving_molecule.atoms"]:
            ctx.ok("ORD", "C10.atom_order", "atoms of a frame are molecule 1 followed by molecule 2", where, src(merges[0]))
        elif a == ["self.moving_molecule.atoms", "self.static_molecule.atoms"]:
            ctx.violate("ORD", "C10.atom_order", "atoms of a frame are molecule 2 followed by molecule 1 (the selections `bynum n1+1:` and the "
                        "topology assume molecule 1 first)", where, src(merges[0]), witness=str(a))
        else:
            ctx.inconclusive("ORD", "C10.atom_order", "arguments of Merge not recognised", where, witness=str(a))
        mk = [k for k, st in enumerate(body) if merges[0] in ast.walk(st)]
        yk = [k for k, st in enumerate(body) if any(y in ast.walk(st) for y in yields)]
        muts_between = [k for k, *_ in mutator_sites if mk and yk and mk[0] < k <= yk[0]]
        if mk and yk and muts_between:
            # Merge copies the atoms' coordinates at call time
            ctx.violate("ORD", "C10.merge_after", "the frame is assembled (Merge copies the coordinates) before the last rotation/translation of "
                        "the iteration", where, src(merges[0]), witness=f"mutator statement #{muts_between[0]} follows the Merge statement #{mk[0]}")
        else:
            ctx.ok("ORD", "C10.merge_after", "the frame is assembled after rotation and translation", where)
    else:
        ctx.inconclusive("ORD", "C10.atom_order", "Merge of the two molecules not found in the loop", where)
    # every OTHER Merge of the two molecules in the class (e.g. a topology built once for the whole trajectory) must keep the same order:
    # coordinates of a frame are [molecule 1, molecule 2], names / types / masses must be listed the same way
    for mname_, mfi_ in sorted(pci.methods.items()):
        for n in ast.walk(mfi_.node):
            if isinstance(n, ast.Call) and (repo.dotted_of(mfi_.module, n.func) or "").endswith("Merge") and n not in merges:
                a = [Canon(Canon.single_defs(mfi_.node.body)).text(x) for x in n.args]
                ctx.instance("ORD")
                if a == ["self.moving_molecule.atoms", "self.static_molecule.atoms"]:
                    ctx.violate("ORD", "C10.atom_order.topology", "a topology is assembled with molecule 2 BEFORE molecule 1 while the frame "
                                "coordinates are [molecule 1, molecule 2]: atom names, types and masses are attached to the wrong coordinates "
                                "whenever the two molecules differ", mfi_.where, src(n), witness=str(a))
                elif a == ["self.static_molecule.atoms", "self.moving_molecule.atoms"]:
                    ctx.ok("ORD", "C10.atom_order.topology", "a further Merge keeps the order molecule 1, molecule 2", mfi_.where, src(n))
                else:
                    ctx.inconclusive("ORD", "C10.atom_order.topology", "arguments of a further Merge not recognised", mfi_.where, witness=str(a))
    # copies of the molecules are taken at construction
    init = pci.methods.get("__init__")
    if init is not None:
        ctx.analysed(init)
        iparams = {a.arg for a in init.node.args.args}
        cp = {src(n.targets[0]): n.value for n in ast.walk(init.node) if isinstance(n, ast.Assign) and len(n.targets) == 1}
        ctx.instance("OWN")
        for attr in ("self.static_molecule", "self.moving_molecule"):
            v = cp.get(attr)
            if v is None:
                ctx.inconclusive("OWN", f"C10.copies.{attr[5:]}", "molecule attribute not assigned in __init__", init.where)
            elif isinstance(v, ast.Call) and (src(v.func).endswith(".copy") or src(v.func) in ("deepcopy", "copy.deepcopy")):
                ctx.ok("OWN", f"C10.copies.{attr[5:]}", "the pseudotrajectory manipulates its own copy of the molecule", init.where, src(v))
            elif isinstance(v, ast.Name) and v.id in iparams:
                ctx.violate("OWN", f"C10.copies.{attr[5:]}", "the caller's molecule object is moved in place by the frame loop (no copy taken): "
                            "frames depend on, and change, state outside the pseudotrajectory", init.where, f"{attr} = {src(v)}", witness=src(v))
            else:
                ctx.inconclusive("OWN", f"C10.copies.{attr[5:]}", "origin of the molecule attribute not recognised", init.where, witness=src(v)[:100])
        # the grid whose rows drive the frames is the array that was passed in
        gv = cp.get("self.full_grid")
        ctx.instance("OWN")
        COPYING = ("np.array", "np.asarray", "np.copy", "numpy.array", "numpy.asarray", "np.ascontiguousarray")
        plain = gv is not None and ((isinstance(gv, ast.Name) and gv.id in iparams) or
                                    (isinstance(gv, ast.Call) and src(gv.func) in COPYING and gv.args and isinstance(gv.args[0], ast.Name) and gv.args[0].id in iparams) or
                                    (isinstance(gv, ast.Call) and isinstance(gv.func, ast.Attribute) and gv.func.attr == "copy" and
                                     isinstance(gv.func.value, ast.Name) and gv.func.value.id in iparams))
        if gv is None:
            ctx.inconclusive("OWN", "C10.grid.stored", "self.full_grid is not assigned in __init__", init.where)
        elif plain:
            ctx.ok("OWN", "C10.grid.stored", "the rows that drive the frames are the rows of the array passed to the constructor (stored as given / "
                   "as a plain copy)", init.where, f"self.full_grid = {src(gv)}")
        else:
            # a preprocessing helper: look for whole-ROW sign flips / rescalings (rows are (x, y, z, q...): negating a row negates the position)
            helper = None
            if isinstance(gv, ast.Call) and isinstance(gv.func, ast.Attribute) and isinstance(gv.func.value, ast.Name) and gv.func.value.id in ("self", pci.name):
                helper = pci.find_method(gv.func.attr)
            wrong = None
            if helper is not None:
                ctx.analysed(helper)
                for n in ast.walk(helper.node):
                    if isinstance(n, ast.AugAssign) and isinstance(n.op, (ast.Mult, ast.Div)) and isinstance(n.target, ast.Subscript):
                        sl = n.target.slice
                        row_only = not isinstance(sl, ast.Tuple)
                        if row_only:
                            wrong = n
            layout_guess = None
            if helper is not None:
                for n in ast.walk(helper.node):
                    if isinstance(n, ast.If) and not n.orelse:
                        t_ = src(n.test).replace(" ", "")
                        transposes = any(isinstance(a_, ast.Assign) and ((isinstance(a_.value, ast.Attribute) and a_.value.attr == "T") or
                                                                         (isinstance(a_.value, ast.Call) and src(a_.value.func).split(".")[-1] in ("transpose", "swapaxes")))
                                         for b_ in n.body for a_ in ast.walk(b_))
                        if transposes and ("shape[0]==7" in t_ or "len(" in t_ and "==7" in t_) and "shape[1]" not in t_:
                            layout_guess = n
            if layout_guess is not None:
                ctx.violate("OWN", "C10.grid.stored", "the constructor guesses the layout of the grid from its FIRST dimension alone: an array with exactly "
                            "seven rows (a valid (7, 7) list of seven SE(3) coordinates) is taken for the column-wise layout and transposed, so "
                            "frame k is built from column k of the caller's array instead of row k", helper.where, "if " + src(layout_guess.test)[:80],
                            witness="7 rows x 7 columns: rows and columns are exchanged silently")
            elif wrong is not None:
                ctx.violate("OWN", "C10.grid.stored", "the constructor rewrites whole ROWS of the grid (all seven columns) before they drive the "
                            "frames: the position part (x, y, z) of the selected rows is changed together with the quaternion, so frame k is not "
                            "placed at row k's position", helper.where, norm_stmt(wrong), witness=f"self.full_grid = {src(gv)[:100]}")
            else:
                ctx.inconclusive("OWN", "C10.grid.stored", "the grid stored by the constructor is a processed version of the argument", init.where,
                                 witness=src(gv)[:120])
    # ---------------- collection order in get_pt_as_universe
    gp = pci.methods.get("get_pt_as_universe")
    if gp is None:
        raise AnalysisError("anchor vanished: Pseudotrajectory.get_pt_as_universe")
    ctx.analysed(gp)
    comps = [n for n in ast.walk(gp.node) if isinstance(n, (ast.ListComp, ast.GeneratorExp))]
    ctx.instance("ORD", len(comps))
    gen_comp = [c for c in comps if "generate_pseudotrajectory" in src(c.generators[0].iter)]
    filt = [g for c in comps for g in c.generators if g.ifs]
    srt = [n for n in ast.walk(gp.node) if (isinstance(n, ast.Call) and src(n.func).split(".")[-1] in ("sorted", "reversed", "flip", "sort", "reverse", "shuffle")) or
           (isinstance(n, ast.Subscript) and const_slice(n) is not None and const_slice(n)[2] not in (None, 1))]
    if filt or srt:
        ctx.violate("ORD", "C10.collect", "frames are filtered or re-ordered when they are collected from the generator", gp.where,
                    witness=f"{[src(x)[:40] for x in srt] + [src(g.ifs[0])[:40] for g in filt]}")
    elif gen_comp:
        ctx.ok("ORD", "C10.collect", "frames are collected from the generator by order-preserving, unfiltered comprehensions", gp.where)
    elif [n for n in ast.walk(gp.node) if isinstance(n, ast.For) and "generate_pseudotrajectory" in src(n.iter)]:
        # explicit collection loop:  for _, u in self.generate_pseudotrajectory(): frames.append(...)
        fl_ = [n for n in ast.walk(gp.node) if isinstance(n, ast.For) and "generate_pseudotrajectory" in src(n.iter)][0]
        skips_ = [n for n in ast.walk(fl_) if isinstance(n, (ast.If, ast.Continue, ast.Break, ast.IfExp)) and n is not fl_]
        apps_ = [st_ for st_ in fl_.body if isinstance(st_, ast.Expr) and isinstance(st_.value, ast.Call) and isinstance(st_.value.func, ast.Attribute) and
                 st_.value.func.attr == "append"]
        stores_ = [st_ for st_ in fl_.body if isinstance(st_, ast.Assign) and isinstance(st_.targets[0], ast.Subscript)]
        ins_ = [n for n in ast.walk(fl_) if isinstance(n, ast.Call) and isinstance(n.func, ast.Attribute) and n.func.attr in ("insert", "appendleft")]
        if skips_ or ins_:
            ctx.violate("ORD", "C10.collect", "frames are filtered or re-ordered when they are collected from the generator", gp.where,
                        src((skips_ + ins_)[0])[:80], witness="conditional / front insertion inside the collection loop")
        elif apps_ or stores_:
            ctx.ok("ORD", "C10.collect", "frames are collected from the generator by an unconditional append / indexed store per frame", gp.where)
        else:
            ctx.inconclusive("ORD", "C10.collect", "collection loop over the generator not recognised", gp.where)
    elif [n for n in ast.walk(gp.node) if isinstance(n, ast.For) and isinstance(n.iter, ast.Call) and isinstance(n.iter.func, ast.Attribute) and
          isinstance(n.iter.func.value, ast.Name) and n.iter.func.value.id == "self" and pci.find_method(n.iter.func.attr) is not None and
          _moves_atoms(pci.find_method(n.iter.func.attr).node) and
          any(isinstance(y_, ast.Yield) for y_ in ast.walk(pci.find_method(n.iter.func.attr).node))]:
        # the collector drives the placement generator itself and stacks the coordinates of the two molecules per frame
        fl_ = [n for n in ast.walk(gp.node) if isinstance(n, ast.For) and isinstance(n.iter, ast.Call) and isinstance(n.iter.func, ast.Attribute) and
               isinstance(n.iter.func.value, ast.Name) and n.iter.func.value.id == "self" and pci.find_method(n.iter.func.attr) is not None and
               _moves_atoms(pci.find_method(n.iter.func.attr).node)][0]
        pg_ = pci.find_method(fl_.iter.func.attr)
        ctx.analysed(pg_)
        # the placement generator must be the one the frame rules above were evaluated on (spliced into generate_pseudotrajectory)
        same_gen = any(isinstance(c_, ast.Call) and isinstance(c_.func, ast.Attribute) and c_.func.attr == pg_.name
                       for c_ in ast.walk(pci.methods["generate_pseudotrajectory"].node))
        jumps_ = [n for n in ast.walk(fl_) if isinstance(n, (ast.Continue, ast.Break))]
        top_apps = [st_.value for st_ in fl_.body if isinstance(st_, ast.Expr) and isinstance(st_.value, ast.Call) and
                    isinstance(st_.value.func, ast.Attribute) and st_.value.func.attr == "append" and st_.value.args]
        all_apps = [n for n in ast.walk(fl_) if isinstance(n, ast.Call) and isinstance(n.func, ast.Attribute) and n.func.attr in ("append", "insert", "appendleft", "extend")]
        cg_ = Canon(Canon.single_defs(gp.node.body))
        verdict_ = None
        if len(top_apps) == 1 and len(all_apps) == 1 and not jumps_ and same_gen:
            e_ = cg_.expand(top_apps[0].args[0])
            if isinstance(e_, ast.Call) and (repo.dotted_of(gp.module, e_.func) or "") in ("numpy.vstack", "numpy.concatenate", "numpy.row_stack") and e_.args and \
                    isinstance(e_.args[0], (ast.List, ast.Tuple)) and len(e_.args[0].elts) == 2:
                parts_ = [src(x_).replace(".copy()", "") for x_ in e_.args[0].elts]
                if parts_ == ["self.static_molecule.atoms.positions", "self.moving_molecule.atoms.positions"]:
                    verdict_ = True
                elif parts_ == ["self.moving_molecule.atoms.positions", "self.static_molecule.atoms.positions"]:
                    verdict_ = False
        if jumps_:
            ctx.violate("ORD", "C10.collect", "frames are filtered or re-ordered when they are collected from the generator", gp.where,
                        src(jumps_[0])[:80], witness="break / continue inside the collection loop")
        elif verdict_ is True:
            ctx.ok("ORD", "C10.collect", "one frame per placement, unconditionally appended: coordinates of molecule 1 stacked above those of "
                   "molecule 2 (the order of the topology)", gp.where, src(top_apps[0])[:140])
        elif verdict_ is False:
            ctx.violate("ORD", "C10.collect", "the coordinates of a frame are stacked as molecule 2 above molecule 1 while the topology lists "
                        "molecule 1 first", gp.where, src(top_apps[0])[:140], witness="np.vstack([moving, static])")
        else:
            ctx.inconclusive("ORD", "C10.collect", "collection loop over the placement generator not recognised", gp.where)
    else:
        ctx.inconclusive("ORD", "C10.collect", "collection of the frames from the generator not recognised", gp.where)
    guards = [n for n in ast.walk(gp.node) if isinstance(n, ast.If) and "self.pt" in src(n.test)]
    calls_gen = [n for n in ast.walk(gp.node) if isinstance(n, ast.Call) and src(n.func).endswith("generate_pseudotrajectory")]
    if guards:
        ctx.ok("IDEMP", "C10.once", "the generator is consumed once (init-once guard on self.pt)", gp.where)
    elif calls_gen:
        ctx.violate("IDEMP", "C10.once", "every call regenerates the frames from the molecule's CURRENT geometry (the snapshot is taken when "
                    "the generator starts, the molecule is left at the last frame): the second universe differs from the first", gp.where,
                    src(calls_gen[0]), witness="no init-once guard on self.pt")
    else:
        ctx.inconclusive("IDEMP", "C10.once", "generator use not recognised", gp.where)
    # ---------------- hand-written rotation of row-vector coordinates
    row_vector_rotation(ctx, repo, pci)
    # ---------------- a frame re-seek reloads the coordinates from the file
    reseeks = []
    for mname_, mfi_ in sorted(pci.methods.items()):
        for n in ast.walk(mfi_.node):
            if isinstance(n, ast.Expr) and isinstance(n.value, ast.Subscript) and isinstance(n.value.value, ast.Attribute) and \
                    n.value.value.attr == "trajectory" and src(n.value.value.value).startswith(("self.static_molecule", "self.moving_molecule")):
                reseeks.append((mfi_, n))
    rd_ci = repo.cls("molgri.io", "OneMoleculeReader")
    rd_init = rd_ci.find_method("__init__") if rd_ci is not None else None
    ctx.instance("RESET")
    if reseeks:
        on_the_fly = rd_init is not None and any(isinstance(c_, ast.Call) and isinstance(c_.func, ast.Attribute) and c_.func.attr == "add_transformations"
                                                 for c_ in ast.walk(rd_init.node))
        in_memory = rd_init is not None and any(isinstance(c_, ast.Call) and isinstance(c_.func, ast.Attribute) and c_.func.attr in ("translate", "rotate")
                                                for c_ in ast.walk(rd_init.node))
        ctx.analysed(reseeks[0][0])
        if rd_init is not None:
            ctx.analysed(rd_init)
        if not on_the_fly and in_memory:
            ctx.violate("RESET", "C10.reseek", "the pseudotrajectory re-seeks a frame of a molecule (`.trajectory[k]`): readers that can hold several "
                        "frames (xyz, pdb) then re-read the coordinates from the file, and the centring that the reader applied IN MEMORY "
                        "(atoms.translate) is thrown away - molecule 1 is no longer at the origin and molecule 2 sits at com_file + position_k "
                        "in every frame", reseeks[0][0].where, src(reseeks[0][1])[:100],
                        witness="reader centres with atoms.translate(-com), no on-the-fly transformation is registered")
        elif on_the_fly:
            ctx.ok("RESET", "C10.reseek", "frames are re-sought, the reader's centring is an on-the-fly transformation that is re-applied on every "
                   "frame load", reseeks[0][0].where)
        else:
            ctx.inconclusive("RESET", "C10.reseek", "frames are re-sought; how the reader centres the molecules was not recognised", reseeks[0][0].where)
    else:
        ctx.ok("RESET", "C10.reseek", "the pseudotrajectory never re-seeks a frame of the molecules (in-memory coordinates stay as placed)", where)
    # ---------------- sibling selections of the second molecule
    selection_siblings(ctx, repo, "C10")
    # ---------------- quaternion convention in assignment
    at = repo.cls("molgri.molecules.transitions", "AssignmentTool")
    qa = at.methods.get("_get_quaternion_assignments")
    if qa is not None:
        ctx.analysed(qa)
        rc_ = [n for n in ast.walk(qa.node) if isinstance(n, ast.Call) and (repo.dotted_of(qa.module, n.func) or "").startswith("scipy.spatial.transform.Rotation")
               and "b_array" in src(n)]
        ctx.instance("PARITY")
        bad = [c for c in rc_ for k in c.keywords if k.arg == "scalar_first" and isinstance(k.value, ast.Constant) and k.value.value is True]
        if bad:
            ctx.violate("PARITY", "C10.convention.assign", "assignment reads the grid quaternions scalar-first while the pseudotrajectory reads them "
                        "scalar-last", qa.where, src(bad[0])[:100], witness="scalar_first=True")
        elif rc_:
            ctx.ok("PARITY", "C10.convention.assign", "assignment builds grid rotations with the same scalar-last convention", qa.where, src(rc_[0])[:100])
        else:
            ctx.inconclusive("PARITY", "C10.convention.assign", "construction of the grid rotations in the assignment not found", qa.where)
    # ---------------- writer: both molecules centred, wiring of PtWriter
    tw = repo.cls("molgri.io", "TwoMoleculeWriter")
    init_w = tw.methods.get("__init__")
    if init_w is None:
        raise AnalysisError("anchor vanished: TwoMoleculeWriter.__init__")
    ctx.analysed(init_w)
    for h_ in sorted(helper_closure(tw, ["__init__"]) - {"__init__"}):
        if tw.find_method(h_) is not None:
            ctx.analysed(tw.find_method(h_))
    # the constructor with its private helpers spliced in: centring may live in a helper (today: _center_both_molecules) or in __init__ itself
    class _View:
        pass
    cb = _View()
    cb.node, cb.where = splice_self_calls(tw, init_w.node), init_w.where
    ccb = Canon(Canon.single_defs(cb.node.body))
    trs = [n for n in ast.walk(cb.node) if isinstance(n, ast.Call) and isinstance(n.func, ast.Attribute) and n.func.attr == "translate"]
    ctx.instance("PARITY")
    verdicts = []
    for t in trs:
        a = t.args[0] if t.args else {k.arg: k.value for k in t.keywords}.get("t")
        recv = ccb.text(t.func.value)
        atxt = ccb.text(a).replace(" ", "") if a is not None else ""
        if atxt in (f"-{recv}.center_of_mass()", f"-1*{recv}.center_of_mass()", f"-({recv}.center_of_mass())"):
            verdicts.append("ok")
        elif atxt == f"{recv}.center_of_mass()":
            verdicts.append("plus")
        elif atxt.endswith(".center_of_mass()") and atxt.startswith("-"):
            verdicts.append("other")
        else:
            verdicts.append("unknown")
    # paired form inside the constructor / its private helpers:
    #   both = (self.central_molecule, self.moving_molecule); coms = [m.atoms.center_of_mass() for m in both]
    #   for m, c in zip(both, coms): m.atoms.translate(-c)
    if len(trs) == 1 and verdicts == ["unknown"]:
        t = trs[0]
        from ..model import set_parents as _sp
        _sp(cb.node)
        lp = getattr(t, "_parent", None)
        while lp is not None and not isinstance(lp, ast.For):
            lp = getattr(lp, "_parent", None)
        a = t.args[0] if t.args else {k.arg: k.value for k in t.keywords}.get("t")
        if lp is not None and a is not None and isinstance(lp.target, ast.Tuple) and len(lp.target.elts) == 2 and \
                all(isinstance(e_, ast.Name) for e_ in lp.target.elts) and isinstance(lp.iter, ast.Call) and src(lp.iter.func) == "zip" and \
                len(lp.iter.args) == 2:
            xv, cv = lp.target.elts[0].id, lp.target.elts[1].id
            S_, L_ = lp.iter.args
            Se, Le = ccb.expand(S_), ccb.expand(L_)
            if isinstance(Se, (ast.Tuple, ast.List)) and isinstance(Le, ast.ListComp) and len(Le.generators) == 1 and not Le.generators[0].ifs and \
                    isinstance(Le.generators[0].target, ast.Name) and \
                    src(ccb.expand(Le.generators[0].iter)) == src(Se):
                yv = Le.generators[0].target.id
                own = src(Le.elt).replace(" ", "") == f"{yv}.atoms.center_of_mass()" and src(t.func.value) == f"{xv}.atoms" and \
                    src(a).replace(" ", "") in (f"-{cv}", f"-1*{cv}")
                members = {src(e_) for e_ in Se.elts}
                if own and {"self.central_molecule", "self.moving_molecule"} <= members:
                    verdicts = ["ok", "ok"]
                    trs = [t, t]
    # centring delegated to a module-level helper:  helper(self.central_molecule, self.moving_molecule)  whose body translates every
    # molecule it is given by minus that molecule's own centre of mass (centres may be collected first, pairing by zip)
    helper_ok = None
    if not trs:
        for c_ in [n for n in ast.walk(cb.node) if isinstance(n, ast.Call) and isinstance(n.func, ast.Name)]:
            hf = tw.module.functions.get(c_.func.id)
            if hf is None:
                continue
            htr = [n for n in ast.walk(hf.node) if isinstance(n, ast.Call) and isinstance(n.func, ast.Attribute) and n.func.attr == "translate"]
            if not htr:
                continue
            ctx.analysed(hf)
            trs = htr
            passed = {ccb.text(a_) for a_ in c_.args}
            both = {"self.central_molecule", "self.moving_molecule"} <= passed
            hcn = Canon(Canon.single_defs(hf.node.body))
            good = 0
            for t in htr:
                a = t.args[0] if t.args else None
                recv = t.func.value            # X.atoms
                # enclosing loop  for X, C in zip(S, L)  with L = [Y.atoms.center_of_mass() for Y in S]   or   for X in S: ... translate(-X.atoms.center_of_mass())
                lp = getattr(t, "_parent", None)
                while lp is not None and not isinstance(lp, ast.For):
                    lp = getattr(lp, "_parent", None)
                atxt = hcn.text(a).replace(" ", "") if a is not None else ""
                if atxt in (f"-{src(recv)}.center_of_mass()", f"-({src(recv)}.center_of_mass())"):
                    good += 1
                    continue
                if lp is not None and isinstance(lp.target, ast.Tuple) and len(lp.target.elts) == 2 and isinstance(lp.iter, ast.Call) and \
                        src(lp.iter.func) == "zip" and len(lp.iter.args) == 2:
                    xv, cv = (e_.id if isinstance(e_, ast.Name) else None for e_ in lp.target.elts)
                    S_, L_ = lp.iter.args
                    Le = hcn.expand(L_)
                    if isinstance(Le, ast.ListComp) and len(Le.generators) == 1 and not Le.generators[0].ifs and \
                            src(Le.generators[0].iter) == src(S_) and isinstance(Le.generators[0].target, ast.Name):
                        yv = Le.generators[0].target.id
                        if src(Le.elt).replace(" ", "") == f"{yv}.atoms.center_of_mass()" and src(recv) == f"{xv}.atoms" and atxt == f"-{cv}":
                            good += 1
            helper_ok = both and good == len(htr)
            break
    if helper_ok:
        ctx.ok("PARITY", "C10.writer.centre", "the writer hands both molecules to a helper that translates each molecule it is given by minus that "
               "molecule's own centre of mass", cb.where)
    elif helper_ok is False:
        ctx.inconclusive("PARITY", "C10.writer.centre", "centring is delegated to a helper whose idiom is not recognised", cb.where,
                         witness=str([src(t) for t in trs]))
    elif len(trs) == 2 and verdicts == ["ok", "ok"]:
        ctx.ok("PARITY", "C10.writer.centre", "the writer translates each molecule by minus its own centre of mass", cb.where)
    elif "plus" in verdicts or "other" in verdicts:
        ctx.violate("PARITY", "C10.writer.centre", "a molecule is not translated by minus its OWN centre of mass: the precondition 'molecules "
                    "centred' is not established by the writer", cb.where, witness=str([src(t) for t in trs]))
    else:
        ctx.inconclusive("PARITY", "C10.writer.centre", "centring idiom not recognised", cb.where, witness=str([src(t) for t in trs]))
    if len(trs) >= 1:
        ctx.ok("DOM", "C10.writer.centre_called", "centring happens at construction of the writer", init_w.where)
    else:
        # the reader centres too (center_com, default True): a writer that relies on it is not judged
        rd = [n for n in ast.walk(cb.node) if isinstance(n, ast.Call) and isinstance(n.func, ast.Name) and n.func.id == "OneMoleculeReader"]
        off = [n for n in rd for k in n.keywords if k.arg == "center_com" and isinstance(k.value, ast.Constant) and k.value.value is False] + \
              [n for n in rd if len(n.args) >= 2 and isinstance(n.args[1], ast.Constant) and n.args[1].value is False]
        if rd and not off:
            ctx.inconclusive("DOM", "C10.writer.centre_called", "no translate call is reachable from TwoMoleculeWriter.__init__; the molecules are "
                             "centred only by OneMoleculeReader's own transformation", init_w.where)
        else:
            ctx.violate("DOM", "C10.writer.centre_called", "nothing centres the molecules when the writer is constructed: the precondition of the "
                        "pseudotrajectory (both molecules centred at the origin) is not established", init_w.where,
                        witness="no translate call is reachable from TwoMoleculeWriter.__init__ through its helpers")
    pw = repo.cls("molgri.io", "PtWriter")
    pinit = pw.methods.get("__init__")
    if pinit is not None and init is not None:
        ctx.analysed(pinit)
        pc = [n for n in ast.walk(pinit.node) if isinstance(n, ast.Call) and isinstance(n.func, ast.Name) and n.func.id == "Pseudotrajectory"]
        # the construction may live in a helper of the writer: reached from __init__ (eager, as today) or only on first use (lazy)
        reach = {"__init__"}
        grow = True
        while grow:
            grow = False
            for m_ in list(reach):
                # every definition of the name along the hierarchy (super().__init__() runs the parent's constructor as well)
                for fm_ in [c_.methods[m_] for c_ in pw.mro() if m_ in c_.methods]:
                    for n in ast.walk(fm_.node):
                        if isinstance(n, ast.Call) and isinstance(n.func, ast.Attribute) and isinstance(n.func.value, ast.Name) and \
                                n.func.value.id == "self" and n.func.attr not in reach and pw.find_method(n.func.attr) is not None:
                            reach.add(n.func.attr)
                            grow = True
        lazy_home = None
        if not pc:
            for c_ in pw.mro():
                for name_, fm_ in c_.methods.items():
                    found_ = [n for n in ast.walk(fm_.node) if isinstance(n, ast.Call) and isinstance(n.func, ast.Name) and n.func.id == "Pseudotrajectory"]
                    if found_ and not pc:
                        pc = found_
                        ctx.analysed(fm_)
                        if name_ not in reach:
                            lazy_home = fm_
        if lazy_home is not None:
            # built on first use: the molecules must still be in the state the constructor left them in (centred).  Any method of the
            # writer that moves one of them in place before that first use changes every frame.
            movers = []
            for c_ in pw.mro():
                for name_, fm_ in c_.methods.items():
                    if name_ in reach or fm_ is lazy_home:
                        continue
                    for n in ast.walk(fm_.node):
                        if isinstance(n, ast.Call) and isinstance(n.func, ast.Attribute) and n.func.attr in ("translate", "rotate", "rotateby", "transform", "wrap", "unwrap") and \
                                src(n.func.value).startswith(("self.moving_molecule", "self.central_molecule")):
                            movers.append((f"{c_.name}.{name_}", src(n)[:100]))
                        if isinstance(n, (ast.Assign, ast.AugAssign)):
                            for t_ in (n.targets if isinstance(n, ast.Assign) else [n.target]):
                                if src(t_).startswith(("self.moving_molecule", "self.central_molecule")):
                                    movers.append((f"{c_.name}.{name_}", norm_stmt(n)[:100]))
            ctx.instance("DOM")
            if movers:
                ctx.violate("DOM", "C10.writer.lazy", "the pseudotrajectory is built on first use, from whatever state the two molecules are in at "
                            "that moment, while another method of the writer moves a molecule in place: called before the first use it "
                            "shifts the second molecule in EVERY frame (it is no longer centred when it is rotated and placed)", lazy_home.where,
                            src(pc[0])[:140], witness="; ".join(f"{w_}: {t_}" for w_, t_ in movers[:3]))
            else:
                ctx.ok("DOM", "C10.writer.lazy", "the pseudotrajectory is built on first use and no method of the writer moves a molecule before that",
                       lazy_home.where)
        ctx.instance("FLOW")
        b = _bind(pc[0], init.node) if pc else None
        if b is None:
            ctx.inconclusive("FLOW", "C10.writer.wiring", "construction of the Pseudotrajectory in PtWriter not recognised", pinit.where)
        else:
            got = {k: src(v) for k, v in b.items()}
            want = {"molecule1": "self.central_molecule", "molecule2": "self.moving_molecule", "full_grid": "self.grid_array"}
            swapped = got.get("molecule1") == want["molecule2"] or got.get("molecule2") == want["molecule1"]
            if all(got.get(k) == v for k, v in want.items()):
                ctx.ok("FLOW", "C10.writer.wiring", "PtWriter passes (central molecule, moving molecule, loaded grid array) to the matching "
                       "parameters", pinit.where, src(pc[0]))
            elif swapped:
                ctx.violate("FLOW", "C10.writer.wiring", "PtWriter hands the moving molecule to the static role (or vice versa)", pinit.where,
                            src(pc[0]), witness=str(got))
            else:
                ctx.inconclusive("FLOW", "C10.writer.wiring", "arguments of Pseudotrajectory(...) not recognised", pinit.where, witness=str(got))
    ctx.require_instances("RESET", 3, "reset obligations")
    ctx.trust(*META["trusted"])
    ctx.assume(*META["assumptions"])


def selection_siblings(ctx, repo, pid):
    """the three `bynum` selections of the second molecule (pts.py, io.py, transitions.py) agree and start after molecule 1"""
    sels = []
    for modname, cname, fname in (("molgri.molecules.pts", "Pseudotrajectory", "_determine_which_molecule"),
                                  ("molgri.io", "TwoMoleculeReader", "_determine_second_molecule"),
                                  ("molgri.molecules.transitions", "AssignmentTool", "_determine_second_molecule")):
        ci = repo.cls(modname, cname)
        f = ci.methods.get(fname)
        if f is None:
            raise AnalysisError(f"anchor vanished: {cname}.{fname}")
        ctx.analysed(f)
        # the string may be assembled in a private helper (method or module-level function) of its own
        from ..model import FunctionInfo as _FI, set_parents as _sp
        sp_ = splice_self_calls(ci, f.node, module=ci.module)
        _sp(sp_)
        f = _FI(f.name, f.qualname, f.module, sp_, f.cls)
        js = [n for n in ast.walk(f.node) if isinstance(n, ast.JoinedStr) and any(isinstance(v, ast.Constant) and "bynum" in str(v.value) for v in n.values)]
        # the variant that selects molecule 2 contains a '+1' start
        for j in js:
            parts = []
            for v in j.values:
                if isinstance(v, ast.Constant):
                    parts.append(("c", " ".join(str(v.value).split())))
                else:
                    parts.append(("e", src(v.value)))
            sels.append((f, j, parts))
    second = [(f, j, p) for f, j, p in sels if any(k == "e" and "+1" in e.replace(" ", "") for k, e in p) and
              sum(1 for k, e in p if k == "e") == 2]
    ctx.instance("PAIR", len(second))
    if len(second) < 3:
        ctx.inconclusive("PAIR", f"{pid}.selection", "second-molecule selection strings not found in all three places", "molgri/molecules/pts.py", witness=f"{len(second)} found")
    else:
        def norm(parts, f):
            # first expr must be <atoms of molecule 1> + 1, second <total> + 1
            consts = tuple(c for k, c in parts if k == "c")
            exprs = [e.replace(" ", "") for k, e in parts if k == "e"]
            return consts, tuple(e.endswith("+1") for e in exprs)
        norms = {norm(p, f) for f, j, p in second}
        ctx.check(len(norms) == 1, "PAIR", f"{pid}.selection", "pseudotrajectory, reader and assignment select the second molecule with the same "
                  "`bynum <n1+1>:<n_total+1>` pattern (atoms of molecule 1 come first)", "molgri/molecules/pts.py", witness=str(norms))
        from ..alg import Poly
        N1, N2 = Poly.sym("n1"), Poly.sym("n2")

        def role(txt):
            t = txt.lower()
            for key, val in (("static", N1), ("central", N1), ("molecule1", N1), ("first", N1), ("m1", N1),
                             ("moving", N2), ("reference", N2), ("molecule2", N2), ("second", N2), ("m2", N2),
                             ("universe", N1 + N2), ("total", N1 + N2)):
                if key in t:
                    return val
            return None

        def ev(e, defs, depth=0):
            if depth > 8:
                return None
            if isinstance(e, ast.Constant) and isinstance(e.value, int):
                return Poly.const(e.value)
            if isinstance(e, ast.Name):
                if e.id in defs:
                    return ev(defs[e.id], defs, depth + 1)
                return None
            if isinstance(e, ast.BinOp) and isinstance(e.op, (ast.Add, ast.Sub)):
                a, b = ev(e.left, defs, depth + 1), ev(e.right, defs, depth + 1)
                if a is None or b is None:
                    return None
                return a + b if isinstance(e.op, ast.Add) else a - b
            if isinstance(e, ast.Call) and isinstance(e.func, ast.Name) and e.func.id == "len" and len(e.args) == 1:
                a = e.args[0]
                if isinstance(a, ast.Attribute) and a.attr == "atoms":
                    a = a.value
                if isinstance(a, ast.Name) and a.id in defs:
                    return role(a.id) or role(src(defs[a.id]))
                return role(src(a))
            if isinstance(e, ast.Attribute) and e.attr == "n_atoms":
                a = e.value
                if isinstance(a, ast.Attribute) and a.attr == "atoms":
                    a = a.value
                if isinstance(a, ast.Name) and a.id in defs:
                    return role(a.id) or role(src(defs[a.id]))
                return role(src(a))
            return None
        for f, j, p in second:
            defs = Canon.single_defs(f.node.body)
            vals = [ev(v.value, defs) for v in j.values if isinstance(v, ast.FormattedValue)]
            if len(vals) != 2 or any(v is None for v in vals):
                ctx.inconclusive("PAIR", f"{pid}.selection.{f.cls.name}", "bounds of the second-molecule selection not derived as atom counts",
                                 f.where, witness=src(j))
            elif vals[0] == N1 + 1 and vals[1] == N1 + N2 + 1:
                ctx.ok("PAIR", f"{pid}.selection.{f.cls.name}", "selection of molecule 2 is `bynum n1+1 : n1+n2+1` (n1 = atoms of the first "
                       "molecule, which Merge puts first)", f.where, src(j))
            else:
                ctx.violate("PAIR", f"{pid}.selection.{f.cls.name}", "the second-molecule selection does not start after the n1 atoms of "
                            "molecule 1 / end at the last atom", f.where, src(j),
                            witness=f"derived bounds {vals[0].pretty()} : {vals[1].pretty()} (expected n1 + 1 : n1 + n2 + 1)")


# ---------------------------------------------------------------------------------------------------------------------
def qmat_verdict(fnode):
    """A function that builds rotation matrices entry by entry from quaternion components: compare the nine entry polynomials with
    R(q) of a unit quaternion (scalar-last: components unpacked as x, y, z, w in that order), modulo x^2+y^2+z^2+w^2 = 1.
    -> (verdict, detail) with verdict in {'ok', 'transposed', 'scalar_first', 'wrong'} or None when the function is not of that shape."""
    from ..alg import Poly
    comp = None
    for n in ast.walk(fnode):
        if isinstance(n, ast.Assign) and len(n.targets) == 1 and isinstance(n.targets[0], ast.Tuple) and len(n.targets[0].elts) == 4 and \
                all(isinstance(x, ast.Name) for x in n.targets[0].elts):
            comp = [x.id for x in n.targets[0].elts]
    if comp is None:
        return None
    sym = {c: Poly.sym(k) for c, k in zip(comp, ("q0", "q1", "q2", "q3"))}

    def ev(e):
        if isinstance(e, ast.Constant) and isinstance(e.value, (int, float)) and not isinstance(e.value, bool):
            from fractions import Fraction
            return Poly.const(Fraction(e.value).limit_denominator(10 ** 9))
        if isinstance(e, ast.Name):
            return sym.get(e.id)
        if isinstance(e, ast.UnaryOp) and isinstance(e.op, (ast.USub, ast.UAdd)):
            v = ev(e.operand)
            return None if v is None else (Poly.const(0) - v if isinstance(e.op, ast.USub) else v)
        if isinstance(e, ast.BinOp):
            a, b = ev(e.left), ev(e.right)
            if a is None or b is None:
                return None
            if isinstance(e.op, ast.Add):
                return a + b
            if isinstance(e.op, ast.Sub):
                return a - b
            if isinstance(e.op, ast.Mult):
                return a * b
            if isinstance(e.op, ast.Div) and b.is_const() and b.as_const() != 0:
                return a / b
            if isinstance(e.op, ast.Pow) and b.is_const() and b.as_const() == 2:
                return a * a
        return None
    entries = {}
    for n in ast.walk(fnode):
        if isinstance(n, ast.Assign) and len(n.targets) == 1 and isinstance(n.targets[0], ast.Subscript):
            t = n.targets[0]
            idx = t.slice.elts if isinstance(t.slice, ast.Tuple) else [t.slice]
            consts = [x.value for x in idx if isinstance(x, ast.Constant) and isinstance(x.value, int)]
            if len(consts) == 2 and all(0 <= c <= 2 for c in consts):
                v = ev(n.value)
                if v is not None:
                    entries[tuple(consts)] = v
    # literal form: np.array([[..],[..],[..]])
    if not entries:
        for n in ast.walk(fnode):
            if isinstance(n, (ast.List, ast.Tuple)) and len(n.elts) == 3 and all(isinstance(r, (ast.List, ast.Tuple)) and len(r.elts) == 3 for r in n.elts):
                vals = {(i, j): ev(n.elts[i].elts[j]) for i in range(3) for j in range(3)}
                if all(v is not None for v in vals.values()):
                    entries = vals
    if len(entries) != 9:
        return None
    x, y, z, w = (Poly.sym(k) for k in ("q0", "q1", "q2", "q3"))

    def R(x, y, z, w):
        return {(0, 0): 1 - 2 * (y * y + z * z), (0, 1): 2 * (x * y - z * w), (0, 2): 2 * (x * z + y * w),
                (1, 0): 2 * (x * y + z * w), (1, 1): 1 - 2 * (x * x + z * z), (1, 2): 2 * (y * z - x * w),
                (2, 0): 2 * (x * z - y * w), (2, 1): 2 * (y * z + x * w), (2, 2): 1 - 2 * (x * x + y * y)}
    one = Poly.const(1)

    def norm(p):
        # reduce modulo the unit-norm relation: replace the square of the LAST component
        return p      # entries are compared in both diagonal spellings below
    def same(A, B):
        for k in A:
            d = A[k] - B[k]
            if d.is_zero():
                continue
            # diagonal may be written as w^2 + x^2 - y^2 - z^2: differs from 1 - 2(y^2+z^2) by (x^2+y^2+z^2+w^2 - 1)
            u = x * x + y * y + z * z + w * w - one
            if (d - u).is_zero() or (d + u).is_zero():
                continue
            return k
        return None
    scalar_last = R(x, y, z, w)
    scalar_first = R(y, z, w, x)       # the first unpacked component taken as the scalar
    transposed = {(j, i): v for (i, j), v in scalar_last.items()}
    if same(entries, scalar_last) is None:
        return "ok", "entries equal R(q) for q = (x, y, z, w)"
    if same(entries, transposed) is None:
        return "transposed", "entries equal R(q)^T = R(q)^-1"
    if same(entries, scalar_first) is None:
        return "scalar_first", "entries equal R(q) with the FIRST component read as the scalar part"
    k = same(entries, scalar_last)
    return "wrong", f"entry [{k[0]},{k[1]}] is {entries[k].pretty()} but R(q)[{k[0]},{k[1]}] = {scalar_last[k].pretty()}"
