"""C11 — frame assignment (partial): index composition (LAYOUT), outer bound (LIN), NaN path, selector polarity/axis (SELECT)."""
from __future__ import annotations

import ast

from ..alg import Poly
from ..interp import Interp, Hooks
from ..values import *
from .. import transfer as T
from ..voro import find_terms
from ..astutil import normaliser_functions
from ..model import AnalysisError, src, norm_stmt

META = {
    "explanation": "AssignmentTool's composition and selection kernels are interpreted abstractly with symbolic grid sizes: the full "
                   "index is derived as the polynomial (t*n_o + o)*n_b + b (equal to the row layout of C09); the radial selector is "
                   "argmin |r_k - |com||; the outer bound is derived as 3/2*r_T - 1/2*r_{T-1} (= last shell boundary of C16) and NaN is "
                   "returned exactly on the path `not include_outliers and |com| > bound`; the direction selector is argmin along the "
                   "grid axis of cdist(grid directions, com direction); the rotation selector is argmin along the grid-rotation axis of "
                   "the magnitudes of the relative rotations.",
    "decided": ["index composition (t*n_o+o)*n_b+b with n_o = len(o_array), n_b = len(b_array)", "nearest radius by absolute difference",
                "outer bound = R_T and NaN only beyond it unless outliers are included", "nearest direction / rotation: argmin, along the axis "
                "that ranges over grid points, of a distance-like quantity"],
    "not_decided": ["recovery of the molecule's rotation from principal axes for continuous inputs", "MDAnalysis centre-of-mass arithmetic"],
    "trusted": [T.TABLE_VERSION, "scipy cdist(A,B)[a,b] = d(A_a,B_b); Rotation.magnitude() is the rotation angle"],
    "assumptions": ["n_t >= 2"],
}

n_b, n_o, n_t, L = Poly.sym("n_b"), Poly.sym("n_o"), Poly.sym("n_t"), Poly.sym("n_frames")
TR = "molgri.molecules.transitions"


class AHooks(Hooks):
    stub = True

    def call(self, interp, fv, args, kwargs, node):
        if isinstance(fv, FuncV) and fv.fi.name in ("_get_t_assignments", "_get_o_assignments", "_get_quaternion_assignments") and self.stub:
            return Num(Poly.sym({"_get_t_assignments": "t", "_get_o_assignments": "o", "_get_quaternion_assignments": "b"}[fv.fi.name]))
        if isinstance(fv, FuncV) and fv.fi.name == "_get_rotation_matrices":
            f_ = interp.fresh_idx("f")
            return Grid([[(f_, L)], [(interp.fresh_idx("x"), Poly.const(3))], [(interp.fresh_idx("y"), Poly.const(3))]],
                        Num(Poly.app("P", Poly.atom(f_))))
        if isinstance(fv, FuncV) and fv.fi.module.name == "molgri.space.utils":
            return Term(fv.fi.name, args, kwargs)
        if isinstance(fv, ExtV) and fv.dotted == "scipy.spatial.transform.Rotation":
            return ObjV(ext="Rotation", origin=Term("Rotation", args, kwargs))
        if isinstance(fv, ExtV) and fv.dotted.startswith("pandas."):
            return Term("pandas", args)
        return None

    def method(self, interp, recv, name, args, kwargs, node):
        if isinstance(recv, ObjV) and recv.ext == "Rotation" and name == "as_matrix":
            b = recv.origin.args[0] if recv.origin.args else None
            if isinstance(b, Grid) and isinstance(b.elem, Num):
                return Grid([b.dims[0], [(interp.fresh_idx("x"), Poly.const(3))], [(interp.fresh_idx("y"), Poly.const(3))]],
                            Num(Poly.app("Rgrid", Poly.atom(b.dims[0][0][0]))))
        return None


def make_obj(repo, interp, **kw):
    ci = repo.cls(TR, "AssignmentTool")
    o = ObjV(cls=ci)
    o.attrs.update({"o_array": T.mat(interp, "O", n_o, Poly.const(3)), "b_array": T.mat(interp, "B", n_b, Poly.const(4)),
                    "t_array": T.vec(interp, "r", n_t), "include_outliers": Const(False), "cartesian_grid": Const(True)})
    o.attrs.update(kw)
    return ci, o


def run(ctx, repo, tier):
    # ------------------------------------------------------------ composition
    interp = Interp(repo, AHooks())
    ci, o = make_obj(repo, interp)
    for m in ("get_full_assignments", "_get_position_assignments", "_t_assignment_function", "_o_assignment_function", "_get_quaternion_assignments"):
        if ci.methods.get(m) is None:
            raise AnalysisError(f"anchor vanished: AssignmentTool.{m}")
        ctx.analysed(ci.methods[m])
    fa = ci.methods["get_full_assignments"]
    res = interp.call_function(fa, [], {}, self_obj=o)
    t, od, b = Poly.sym("t"), Poly.sym("o"), Poly.sym("b")
    ctx.instance("LAYOUT")
    exp = (t * n_o + od) * n_b + b
    if isinstance(res, Num) and not res.p.has_top():
        ctx.check(res.p == exp, "LAYOUT", "C11.composition", "assigned cell index = (t*n_o + o)*n_b + b, the row layout of the full grid "
                  "(C09), with n_o = len(o_array), n_b = len(b_array)", fa.where, "position*len(b_array) + quaternion",
                  witness=f"derived {res.p.pretty()} ; expected {exp.pretty()}", derived=res.p.pretty())
    else:
        ctx.inconclusive("LAYOUT", "C11.composition", "index composition not derived", fa.where, witness=contains_top(res) or vstr(res)[:200])
    # the three grids come from the decomposition in the documented order (checked in C09 as well)
    # ------------------------------------------------------------ radial selector, bound, NaN path
    tf = ci.methods["_t_assignment_function"]
    r_at = lambda p: Poly.app("at", "r", Poly.lift(p))
    bound = Poly.const(3) / 2 * r_at(n_t - 1) - Poly.const(1) / 2 * r_at(n_t - 2)

    def is_nearest_radius(v):
        if not (isinstance(v, Term) and v.op in ("argmin", "argmax")):
            return None
        a0 = v.args[0]
        good = v.op == "argmin" and isinstance(a0, Term) and a0.op == "abs" and isinstance(a0.args[0], Term) and a0.args[0].op == "sub"
        if good:
            x, y = a0.args[0].args
            g = x if isinstance(x, Grid) else y
            s = y if isinstance(x, Grid) else x
            good = isinstance(g, Grid) and isinstance(g.elem, Num) and g.elem.p == r_at(Poly.atom(g.dims[0][0][0])) and g.dim_len(0) == n_t and \
                isinstance(s, Term) and s.op == "norm" and "center_of_mass" in vstr(s)
        return good
    for inc in (True, False):
        interp = Interp(repo, AHooks())
        _, o = make_obj(repo, interp, include_outliers=Const(inc))
        ag = ObjV(ext="AtomGroup")
        res = interp.call_function(tf, [ag], {}, self_obj=o)
        ctx.instance("SELECT")
        tag = f"C11.radial.{'outliers' if inc else 'strict'}"
        if inc:
            g = is_nearest_radius(res)
            if g is None and isinstance(res, Term) and res.op == "phi" and any(isinstance(tup.items[1], Num) and tup.items[1].p == Poly.sym("nan") for tup in res.args):
                ctx.violate("LIN", tag, "NaN can be returned although outliers are to be included", tf.where, "if self.include_outliers: ...",
                            witness=vstr(res)[:300])
            elif g is None:
                ctx.inconclusive("SELECT", tag, "radial selection not derived", tf.where, witness=contains_top(res) or vstr(res)[:200])
            else:
                ctx.check(g, "SELECT", tag, "with outliers included every frame is assigned to the radius nearest to |com| (argmin of the "
                          "absolute difference over the n_t radii)", tf.where, "np.argmin(np.abs(self.t_array - norm(com)))", witness=vstr(res)[:250])
        else:
            alts = []
            if isinstance(res, Term) and res.op == "phi":
                for tup in res.args:
                    alts.append((tup.items[0].items, tup.items[1]))
            if len(alts) != 2:
                if is_nearest_radius(res):
                    ctx.violate("LIN", tag, "without outliers a placement beyond the outermost shell boundary must be assigned NaN, but the "
                                "nearest radius is returned on every path", tf.where, "if self.include_outliers: ...", witness=vstr(res)[:300])
                else:
                    ctx.inconclusive("LIN", tag, "expected two outcomes (NaN / nearest radius)", tf.where, witness=contains_top(res) or vstr(res)[:300])
                continue
            nan_alt = [a for a in alts if isinstance(a[1], Num) and a[1].p == Poly.sym("nan")]
            sel_alt = [a for a in alts if not (isinstance(a[1], Num) and a[1].p == Poly.sym("nan"))]
            if len(nan_alt) != 1 or len(sel_alt) != 1:
                ctx.violate("LIN", tag, "outcomes of the strict radial assignment are not {NaN beyond the bound, nearest radius otherwise}", tf.where,
                            witness=vstr(res)[:300])
                continue
            conds = nan_alt[0][0]
            ctx.instance("LIN", 2)
            okc = len(conds) == 1 and isinstance(conds[0], CondV) and conds[0].kind == "opaque" and conds[0].args[0] in (">", ">=") and \
                isinstance(conds[0].args[1], Term) and conds[0].args[1].op == "norm" and "center_of_mass" in vstr(conds[0].args[1]) and \
                isinstance(conds[0].args[2], Num)
            if not okc:
                ctx.violate("LIN", tag + ".nanpath", "NaN is not returned exactly when |com| exceeds the outer bound", tf.where,
                            "if np.linalg.norm(ag.center_of_mass()) > outer_bound: return np.nan", witness="; ".join(vstr(c) for c in conds)[:300])
            else:
                got = conds[0].args[2].p
                ctx.ok("LIN", tag + ".nanpath", "NaN is returned only on the path `not include_outliers and |com| > bound`", tf.where)
                ctx.check(got == bound, "LIN", tag + ".bound", "outer bound = r_T + (r_T - r_{T-1})/2, the last shell boundary R_T of the radial "
                          "grid (C16)", tf.where, "outer_bound = self.t_array[-1] + 0.5 * (self.t_array[-1] - self.t_array[-2])",
                          witness=f"derived {got.pretty()} ; expected {bound.pretty()}")
            g = is_nearest_radius(sel_alt[0][1])
            ctx.check(bool(g), "SELECT", tag + ".nearest", "inside the bound the nearest radius is selected", tf.where, witness=vstr(sel_alt[0][1])[:200])
    # ------------------------------------------------------------ direction selector
    of = ci.methods["_o_assignment_function"]
    for cart in (True, False):
        interp = Interp(repo, AHooks())
        _, o = make_obj(repo, interp, cartesian_grid=Const(cart))
        res = interp.call_function(of, [ObjV(ext="AtomGroup")], {}, self_obj=o)
        ctx.instance("SELECT")
        tag = f"C11.direction.{'euclidean' if cart else 'cosine'}"
        if not (isinstance(res, Term) and res.op in ("argmin", "argmax")):
            ctx.inconclusive("SELECT", tag, "direction selection not derived", of.where, witness=contains_top(res) or vstr(res)[:200])
            continue
        cd = res.args[0]
        ax = res.kw.get("axis").v if isinstance(res.kw.get("axis"), Const) else None
        roles = None
        metric = None
        if isinstance(cd, Term) and cd.op == "cdist" and len(cd.args) >= 2:
            def role(x):
                if isinstance(x, Grid) and "at2(O" in vstr(x):
                    return "grid"
                if "center_of_mass" in vstr(x):
                    return "com"
                return "?"
            roles = (role(cd.args[0]), role(cd.args[1]))
            metric = cd.kw.get("metric").v if isinstance(cd.kw.get("metric"), Const) else None
        good = res.op == "argmin" and ((roles == ("grid", "com") and ax == 0) or (roles == ("com", "grid") and ax == 1))
        ctx.check(good, "SELECT", tag, "the direction-grid point nearest to the centre-of-mass direction is selected: argmin along the axis "
                  "that ranges over the grid directions", of.where, "np.argmin(cdist(self.o_array, com_direction), axis=0)",
                  witness=f"selector {res.op}, cdist roles {roles}, axis {ax}")
        ctx.check(metric in ("euclidean", "cos", "cosine", "sqeuclidean"), "SELECT", tag + ".metric", "distance-like metric on unit vectors "
                  "(euclidean / cosine are order-equivalent there)", of.where, witness=str(metric))
        nv = find_terms(cd, lambda t_: t_.op in normaliser_functions(repo)) if cd is not None else []
        ctx.check(bool(nv), "SELECT", tag + ".unit", "the centre of mass is reduced to its direction (normalised) before the comparison", of.where,
                  witness="com not normalised")
    # ------------------------------------------------------------ rotation selector
    qf = ci.methods["_get_quaternion_assignments"]
    h = AHooks()
    h.stub = False
    interp = Interp(repo, h)
    _, o = make_obj(repo, interp)
    res = interp.call_function(qf, [], {}, self_obj=o)
    ctx.instance("SELECT")
    am = find_terms(res, lambda t_: t_.op in ("argmin", "argmax"))
    if len(am) != 1:
        ctx.inconclusive("SELECT", "C11.rotation", "rotation selection not derived", qf.where, witness=contains_top(res) or vstr(res)[:300])
    else:
        a = am[0]
        ax = a.kw.get("axis").v if isinstance(a.kw.get("axis"), Const) else None
        arr = a.args[0]
        good = False
        detail = vstr(arr)[:200]
        if isinstance(arr, ObjV) and arr.ext == "ndarray" and "dims" in arr.attrs and len(arr.stores) == 1:
            dims = arr.attrs["dims"].items_p
            frames, idx, val, aug, st = arr.stores[0]
            loops = [f_ for f_ in frames if f_.kind == "loop"]
            mags = find_terms(val, lambda t_: t_.op == "m.magnitude")
            uses_grid_rot = any(a_[0] == "app" and a_[1] == "Rgrid" for a_ in atoms_of_value(val))
            row_is_grid = len(loops) == 1 and loops[0].extent == n_b and isinstance(idx, Num) and idx.p == Poly.atom(loops[0].idx)
            good = a.op == "argmin" and dims == [n_b, L] and row_is_grid and ax == 0 and bool(mags) and uses_grid_rot
            detail = f"selector {a.op}, array shape {[d.pretty() for d in dims]}, row index {vstr(idx)}, axis {ax}, magnitude used: {bool(mags)}"
        recognised = isinstance(arr, ObjV) and arr.ext == "ndarray" and "dims" in arr.attrs and len(arr.stores) == 1
        if a.op == "argmax":
            ctx.violate("SELECT", "C11.rotation", "the grid rotation with the LARGEST rotation angle is selected (argmax)", qf.where,
                        "np.argmin(alignment_magnitudes, axis=0)", witness=detail)
        elif recognised:
            ctx.check(good, "SELECT", "C11.rotation", "the grid rotation with the smallest rotation angle (magnitude of the relative rotation) is "
                      "selected: argmin along the axis that ranges over the n_b grid rotations", qf.where,
                      "np.argmin(alignment_magnitudes, axis=0)", witness=detail)
        else:
            ctx.inconclusive("SELECT", "C11.rotation", "the array of rotation magnitudes is not filled in a recognised way (one store per grid "
                             "rotation)", qf.where, witness=detail)
    # the assignment analyses the second molecule only: its selection must start after the atoms of molecule 1 and agree with the
    # selection used when the pseudotrajectory / reader split the same universe
    from .C10 import selection_siblings
    selection_siblings(ctx, repo, "C11")
    sign_completion(ctx, repo)
    rotation_matrix_word(ctx, repo)
    nan_marker_casts(ctx, repo)
    ctx.require_instances("SELECT", 5, "selector obligations")
    ctx.trust(*META["trusted"])
    ctx.assume(*META["assumptions"])


def atoms_of_value(v):
    from ..interp import atoms_of
    out = set()
    for t_ in find_terms(v, lambda x: True):
        for a in list(t_.args) + list(t_.kw.values()):
            out |= atoms_of(a)
    out |= atoms_of(v)
    return out


def sign_completion(ctx, repo):
    """SIGNFIX: in AssignmentTool._determine_positive_directions the right-handed completion (the sign triple is REPLACED by one of the
    allowed right-handed triples) may run only when exactly one sign is undetermined; reachability of the replacement is evaluated
    for 0..3 undetermined signs from the comparisons on the path (enclosing tests and earlier `if ..: raise/return` exits)."""
    import ast as _a
    from ..astutil import Canon
    at = repo.cls("molgri.molecules.transitions", "AssignmentTool")
    fi = at.methods.get("_determine_positive_directions")
    if fi is None:
        ctx.inconclusive("SELECT", "C11.signfix", "anchor vanished: AssignmentTool._determine_positive_directions", at.module.relpath)
        return
    ctx.analysed(fi)
    ctx.instance("SELECT")
    cn = Canon(Canon.single_defs(fi.node.body))

    def is_count(e):
        """np.sum(np.isclose(D, 0)) / np.count_nonzero(np.isclose(D, 0)) / np.isclose(D, 0).sum()"""
        e = cn.expand(e)
        inner = None
        if isinstance(e, _a.Call) and src(e.func).split(".")[-1] in ("sum", "count_nonzero"):
            if e.args:
                inner = e.args[0]
            elif isinstance(e.func, _a.Attribute):
                inner = e.func.value
        if isinstance(inner, _a.Call) and src(inner.func).split(".")[-1] in ("isclose", "equal") and len(inner.args) >= 2 and \
                isinstance(inner.args[1], _a.Constant) and inner.args[1].value == 0:
            return True
        if isinstance(inner, _a.Compare) and len(inner.ops) == 1 and isinstance(inner.ops[0], _a.Eq) and \
                isinstance(inner.comparators[0], _a.Constant) and inner.comparators[0].value == 0:
            return True
        return False

    def ev(test, n):
        """truth of `test` when n signs are undetermined; None if the test is not a comparison of that count"""
        if isinstance(test, _a.UnaryOp) and isinstance(test.op, _a.Not):
            r = ev(test.operand, n)
            return None if r is None else (not r)
        if isinstance(test, _a.BoolOp):
            rs = [ev(v, n) for v in test.values]
            if any(r is None for r in rs):
                return None
            return all(rs) if isinstance(test.op, _a.And) else any(rs)
        if isinstance(test, _a.Compare) and len(test.ops) == 1:
            l, r = test.left, test.comparators[0]
            op = test.ops[0]
            if is_count(l) and isinstance(r, _a.Constant) and isinstance(r.value, int):
                a_, b_ = n, r.value
            elif is_count(r) and isinstance(l, _a.Constant) and isinstance(l.value, int):
                a_, b_ = l.value, n
            else:
                return None
            return {_a.Eq: a_ == b_, _a.NotEq: a_ != b_, _a.Lt: a_ < b_, _a.LtE: a_ <= b_, _a.Gt: a_ > b_, _a.GtE: a_ >= b_}.get(type(op))
        if isinstance(test, _a.Call) and src(test.func).split(".")[-1] == "any" and test.args:
            # np.any(np.isclose(D, 0))  ==  count >= 1
            inner = cn.expand(test.args[0])
            if isinstance(inner, _a.Call) and src(inner.func).split(".")[-1] == "isclose" and len(inner.args) >= 2 and \
                    isinstance(inner.args[1], _a.Constant) and inner.args[1].value == 0:
                return n >= 1
        return None
    # the atom that fixes the signs is chosen by ATOM ORDER (the first atom with three non-zero projections): the same atom in the
    # reference and in every frame of a rigid molecule.  A choice by an extremum over the atoms (farthest atom per axis) is decided
    # by rounding noise whenever two symmetry-equivalent atoms tie, so an axis sign can flip between reference and frame.
    ctx.instance("SELECT")
    ext = [c for c in _a.walk(fi.node) if isinstance(c, _a.Call) and src(c.func).split(".")[-1] in ("argmax", "argmin", "nanargmax", "nanargmin")]
    if ext:
        ctx.violate("SELECT", "C11.signfix.reference", "the atom that fixes the sign of a principal axis is chosen by an extremum over the atoms "
                    "(per axis): for molecules with symmetry-equivalent atoms (projections +a and -a) rounding noise picks the winner frame by "
                    "frame, one axis sign flips relative to the reference and the recovered rotation is off by 180 degrees", fi.where,
                    src(ext[0])[:140], witness="water with equal O-H bonds: |proj(H1)| == |proj(H2)| up to 1 ulp")
    else:
        ctx.ok("SELECT", "C11.signfix.reference", "the sign-fixing atom is chosen by atom order, not by an extremum over the atoms", fi.where)
    # the replacement:  D = <loop variable of a loop over literal sign triples>
    repl = None
    for loop in _a.walk(fi.node):
        if not isinstance(loop, _a.For) or not isinstance(loop.target, _a.Name):
            continue
        it = cn.expand(loop.iter)
        if isinstance(it, _a.Name):
            # a module-level (or class-level) constant table
            mdefs = [s_.value for s_ in fi.module.tree.body + (at.node.body if hasattr(at, "node") else [])
                     if isinstance(s_, _a.Assign) and len(s_.targets) == 1 and isinstance(s_.targets[0], _a.Name) and s_.targets[0].id == it.id]
            if len(mdefs) == 1:
                it = mdefs[0]
        if not (isinstance(it, (_a.List, _a.Tuple)) and it.elts and all(isinstance(x, (_a.List, _a.Tuple)) for x in it.elts)):
            continue
        for st in _a.walk(loop):
            if isinstance(st, _a.Assign) and len(st.targets) == 1 and isinstance(st.targets[0], _a.Name) and \
                    isinstance(st.value, _a.Name) and st.value.id == loop.target.id:
                repl = (loop, st)
    if repl is None:
        # the completion may live in a helper:  D = self._complete(D)  whose body returns the loop variable of a loop over literal triples
        for st_ in _a.walk(fi.node):
            if not (isinstance(st_, _a.Assign) and len(st_.targets) == 1 and isinstance(st_.value, _a.Call) and
                    isinstance(st_.value.func, _a.Attribute) and isinstance(st_.value.func.value, _a.Name) and st_.value.func.value.id in ("self", at.name)):
                continue
            hm = at.find_method(st_.value.func.attr)
            if hm is None:
                continue
            hcn = Canon(Canon.single_defs(hm.node.body))
            for hl in _a.walk(hm.node):
                if not (isinstance(hl, _a.For) and isinstance(hl.target, _a.Name)):
                    continue
                hit = hcn.expand(hl.iter)
                if isinstance(hit, (_a.List, _a.Tuple)) and hit.elts and all(isinstance(x, (_a.List, _a.Tuple)) for x in hit.elts) and \
                        any(isinstance(r_, _a.Return) and isinstance(r_.value, _a.Name) and r_.value.id == hl.target.id for r_ in _a.walk(hl)):
                    ctx.analysed(hm)
                    repl = (st_, st_)
    if repl is None:
        ctx.inconclusive("SELECT", "C11.signfix", "right-handed completion of the sign triple not recognised", fi.where)
        return
    loop, st = repl
    # path conditions of the loop
    conds = []          # (test, polarity)
    node = loop
    while node is not fi.node:
        parent = getattr(node, "_parent", None)
        if parent is None:
            break
        if isinstance(parent, _a.If):
            if any(node is x for x in parent.body):
                conds.append((parent.test, True))
            elif any(node is x for x in parent.orelse):
                conds.append((parent.test, False))
        # earlier exits in the same block
        for fld in ("body", "orelse"):
            blk = getattr(parent, fld, None)
            if isinstance(blk, list) and any(node is x for x in blk):
                for prev in blk[:[k for k, x in enumerate(blk) if x is node][0]]:
                    if isinstance(prev, _a.If) and not prev.orelse and prev.body and isinstance(prev.body[-1], (_a.Raise, _a.Return)):
                        conds.append((prev.test, False))
        node = parent
    reach = set()
    for n in (0, 1, 2, 3):
        ok = True
        for test, pol in conds:
            r = ev(test, n)
            if r is None:
                ctx.inconclusive("SELECT", "C11.signfix", "a condition on the path to the sign completion is not a comparison of the number of "
                                 "undetermined signs", fi.where, witness=src(test)[:120])
                return
            if r != pol:
                ok = False
                break
        if ok:
            reach.add(n)
    if reach == {1}:
        ctx.ok("SELECT", "C11.signfix", "the sign triple is completed from the right-handed triples only when exactly one sign is undetermined",
               fi.where, norm_stmt(st))
    elif 0 in reach:
        ctx.violate("SELECT", "C11.signfix", "the right-handed completion also runs for fully determined sign triples: a triple with product -1 "
                    "matches an allowed triple in exactly two places and gets one sign flipped, the recovered rotation (hence b) is wrong for "
                    "non-planar molecules", fi.where, norm_stmt(st), witness=f"replacement reachable for {sorted(reach)} undetermined signs")
    elif 1 not in reach:
        ctx.violate("SELECT", "C11.signfix", "the completion of a single undetermined sign is never executed: planar molecules keep a zero sign",
                    fi.where, norm_stmt(st), witness=f"replacement reachable for {sorted(reach)} undetermined signs")
    else:
        ctx.inconclusive("SELECT", "C11.signfix", "sign completion reachable for an unexpected set of cases", fi.where, witness=str(sorted(reach)))


def nan_marker_casts(ctx, repo):
    """DTYPE: a frame outside the grid is marked with NaN by the radial assignment.  NaN survives float arithmetic (t*n_o + o stays NaN)
    but not a cast to an integer type: `.astype(int)` turns it into -2**63, which the index arithmetic wraps to a valid-looking cell.
    Taint: methods that can return NaN, methods / helpers that apply them per frame; a cast to int of data derived from them is wrong."""
    at = repo.cls("molgri.molecules.transitions", "AssignmentTool")
    methods = {}
    for c in at.mro():
        for name, fm in c.methods.items():
            methods.setdefault(name, fm)

    def returns_nan(fm):
        for r in ast.walk(fm.node):
            if isinstance(r, ast.Return) and r.value is not None:
                t = src(r.value).replace(" ", "")
                if t in ("np.nan", "numpy.nan", "float('nan')", 'float("nan")', "math.nan", "np.NaN"):
                    return True
        return False
    tainted = {n for n, fm in methods.items() if returns_nan(fm)}
    seeds = set(tainted)
    # parameters that receive a tainted method at some call site
    tainted_params = {}
    changed = True
    while changed:
        changed = False
        for n, fm in methods.items():
            refs = {x.attr for x in ast.walk(fm.node) if isinstance(x, ast.Attribute) and isinstance(x.value, ast.Name) and x.value.id == "self"}
            for c in ast.walk(fm.node):
                if isinstance(c, ast.Call) and isinstance(c.func, ast.Attribute) and isinstance(c.func.value, ast.Name) and c.func.value.id == "self" and \
                        c.func.attr in methods:
                    g = methods[c.func.attr]
                    params = [a.arg for a in g.node.args.args][1:]
                    for k, a in enumerate(c.args):
                        if k < len(params) and any(isinstance(x, ast.Attribute) and isinstance(x.value, ast.Name) and x.value.id == "self" and x.attr in tainted
                                                   for x in ast.walk(a)):
                            if params[k] not in tainted_params.setdefault(g.name, set()):
                                tainted_params[g.name].add(params[k])
                                changed = True
                    for kw in c.keywords:
                        if kw.arg and any(isinstance(x, ast.Attribute) and isinstance(x.value, ast.Name) and x.value.id == "self" and x.attr in tainted
                                          for x in ast.walk(kw.value)):
                            if kw.arg not in tainted_params.setdefault(g.name, set()):
                                tainted_params[g.name].add(kw.arg)
                                changed = True
            if n not in tainted and (refs & tainted or tainted_params.get(fm.name)):
                tainted.add(n)
                changed = True
    ctx.instance("QMAT")
    if not seeds:
        ctx.ok("QMAT", "C11.nan.cast", "no assignment function marks frames with NaN", at.module.relpath)
        return
    INT_T = ("int", "np.int64", "np.int32", "np.int_", "numpy.int64", "np.intp", "'int'", '"int"', "np.integer", "'int64'", '"int64"', "np.uint64", "np.int16")
    bad, seen = [], 0
    for n, fm in sorted(methods.items()):
        if n not in tainted:
            continue
        # names whose value may carry the marker (flow-insensitive closure over local definitions)
        defs = {}
        for a in ast.walk(fm.node):
            if isinstance(a, ast.Assign) and len(a.targets) == 1 and isinstance(a.targets[0], ast.Name):
                defs.setdefault(a.targets[0].id, []).append(a.value)
        hot = set(tainted_params.get(fm.name, set()))

        def is_hot(e):
            for x in ast.walk(e):
                if isinstance(x, ast.Attribute) and isinstance(x.value, ast.Name) and x.value.id == "self" and x.attr in tainted:
                    return True
                if isinstance(x, ast.Name) and x.id in hot:
                    return True
            return False
        grow = True
        while grow:
            grow = False
            for nm, vs in defs.items():
                if nm not in hot and any(is_hot(v) for v in vs):
                    hot.add(nm)
                    grow = True
        for c in ast.walk(fm.node):
            recv = None
            if isinstance(c, ast.Call) and isinstance(c.func, ast.Attribute) and c.func.attr == "astype" and c.args and src(c.args[0]) in INT_T:
                recv = c.func.value
            elif isinstance(c, ast.Call) and src(c.func) in ("np.asarray", "np.array", "numpy.asarray", "numpy.array") and c.args and \
                    any(k.arg == "dtype" and src(k.value) in INT_T for k in c.keywords):
                recv = c.args[0]
            if recv is None:
                continue
            seen += 1
            guarded = any(isinstance(x, ast.Call) and src(x.func).split(".")[-1] in ("nan_to_num", "isnan", "isfinite", "nanmax", "where")
                          for x in ast.walk(recv))
            if is_hot(recv) and not guarded:
                bad.append((fm, c))
    for fm, c in bad:
        ctx.violate("QMAT", "C11.nan.cast", "per-frame assignments that mark frames outside the grid with NaN are cast to an integer type: NaN "
                    "becomes -2**63 (no longer NaN), and the index arithmetic n_o*t + o (times n_b, plus b) wraps it to a valid-looking "
                    "cell, so outliers are silently assigned instead of being left unassigned", fm.where, src(c)[:140],
                    witness=f"NaN marker produced by {sorted(seeds)}")
    if not bad:
        ctx.ok("QMAT", "C11.nan.cast", f"the NaN marker of frames outside the grid ({', '.join(sorted(seeds))}) is never cast to an integer type "
               f"({seen} integer casts examined)", at.module.relpath)


def rotation_matrix_word(ctx, repo):
    """ROTMAT: the per-frame rotation handed to the quaternion assignment is, as a matrix expression,

            A_k · D(s_k) · D(s_ref)^-1 · A_ref^-1          (A = principal axes as COLUMNS, D(s) = diagonal matrix of the axis signs)

    i.e. the signs scale the axis COLUMNS of the frame matrix and the reference matrix is inverted unscaled (diagonal factors commute
    with each other but not with A).  The expression is evaluated to a word over these factors: `M * v`, np.multiply(M, np.tile(v,(3,1)))
    append D(v) on the right (column scaling), `M * v[:, None]` / `v[:, None] * M` put D(v) on the left (row scaling)."""
    import ast as _a
    from ..astutil import Canon
    at = repo.cls("molgri.molecules.transitions", "AssignmentTool")
    gr = at.methods.get("_get_rotation_matrices")
    ctx.instance("QMAT")
    if gr is None:
        ctx.inconclusive("QMAT", "C11.rotmat", "anchor vanished: AssignmentTool._get_rotation_matrices", at.module.relpath)
        return
    ctx.analysed(gr)

    class Unknown(Exception):
        pass

    def inv(word):
        return [(k_, w_, t_, not i_) for k_, w_, t_, i_ in reversed(word)]

    def who(e, env):
        """'frame' / 'ref' for the object whose axes / signs are taken"""
        e = env["cn"].expand(e)
        t = src(e)
        if t.startswith("self.reference_universe"):
            return "ref"
        root = e
        while isinstance(root, (_a.Attribute, _a.Call, _a.Subscript)):
            root = root.func if isinstance(root, _a.Call) else root.value
        if isinstance(root, _a.Name) and root.id in env["frame_params"]:
            return "frame"
        if t.startswith("self.trajectory_universe"):
            return "frame"
        raise Unknown(f"object {t[:60]}")

    def vec(e, env):
        """sign vector expression -> list of D factors"""
        e = env["cn"].expand(e)
        if isinstance(e, _a.Name) and e.id in env["bound"]:
            return env["bound"][e.id]["vec"]
        if isinstance(e, _a.BinOp) and isinstance(e.op, _a.Div):
            return vec(e.left, env) + [(k_, w_, t_, not i_) for k_, w_, t_, i_ in vec(e.right, env)]
        if isinstance(e, _a.BinOp) and isinstance(e.op, _a.Mult):
            return vec(e.left, env) + vec(e.right, env)
        if isinstance(e, _a.Call) and isinstance(e.func, _a.Attribute) and e.func.attr == "_determine_positive_directions" and \
                len(e.args) + len(e.keywords) == 1:
            return [("D", who(e.args[0] if e.args else e.keywords[0].value, env), False, False)]
        if isinstance(e, _a.Call) and src(e.func) in ("np.array", "np.asarray") and e.args:
            return vec(e.args[0], env)
        raise Unknown(f"sign vector {src(e)[:60]}")

    def is_vec(e, env):
        try:
            vec(e, env)
            return True
        except Unknown:
            return False

    def mat(e, env):
        e = env["cn"].expand(e)
        if isinstance(e, _a.Name) and e.id in env["bound"]:
            return env["bound"][e.id]["mat"]
        if isinstance(e, _a.Attribute) and e.attr == "T":
            w = mat(e.value, env)
            if len(w) == 1 and w[0][0] == "A":
                k_, w_, t_, i_ = w[0]
                return [(k_, w_, not t_, i_)]
            raise Unknown("transpose of a product")
        if isinstance(e, _a.Call) and isinstance(e.func, _a.Attribute) and e.func.attr == "principal_axes" and not e.args:
            return [("A", who(e.func.value, env), True, False)]          # rows are the axes: A^T in the column convention
        if isinstance(e, _a.Call) and src(e.func) in ("np.linalg.inv", "numpy.linalg.inv", "inv", "np.linalg.pinv") and len(e.args) == 1:
            return inv(mat(e.args[0], env))
        if isinstance(e, _a.Call) and src(e.func) in ("np.matmul", "np.dot", "numpy.matmul", "numpy.dot") and len(e.args) == 2:
            return mat(e.args[0], env) + mat(e.args[1], env)
        if isinstance(e, _a.Call) and isinstance(e.func, _a.Attribute) and e.func.attr == "dot" and len(e.args) == 1:
            return mat(e.func.value, env) + mat(e.args[0], env)
        if isinstance(e, _a.BinOp) and isinstance(e.op, _a.MatMult):
            return mat(e.left, env) + mat(e.right, env)
        if isinstance(e, _a.Call) and src(e.func) in ("np.multiply", "numpy.multiply") and len(e.args) == 2:
            return scale(e.args[0], e.args[1], env)
        if isinstance(e, _a.BinOp) and isinstance(e.op, _a.Mult):
            return scale(e.left, e.right, env)
        if isinstance(e, _a.BinOp) and isinstance(e.op, _a.Div):
            # M / v : column scaling by 1/v
            w = scale(e.left, e.right, env)
            nm = len(mat_or_none(e.left, env) or [])
            return w[:nm] + [(k_, w_, t_, not i_) for k_, w_, t_, i_ in w[nm:]] if mat_or_none(e.left, env) is not None else (_ for _ in ()).throw(Unknown("division"))
        if isinstance(e, _a.Call) and src(e.func) in ("np.array", "np.asarray") and e.args:
            return mat(e.args[0], env)
        if isinstance(e, _a.Call) and src(e.func) in ("np.diag", "numpy.diag") and len(e.args) == 1 and not e.keywords and is_vec(e.args[0], env):
            # the diagonal matrix of a sign vector is the factor D itself: its side in the product is where it is written
            return vec(e.args[0], env)
        raise Unknown(f"matrix {src(e)[:70]}")

    def mat_or_none(e, env):
        try:
            return mat(e, env)
        except Unknown:
            return None

    def scale(a, b, env):
        """elementwise product of a matrix with a broadcast sign vector"""
        for m_, v_ in ((a, b), (b, a)):
            mw = mat_or_none(m_, env)
            if mw is None:
                continue
            ve = env["cn"].expand(v_)
            # row scaling: v[:, np.newaxis] / v[:, None] / v.reshape(-1, 1) / np.tile(v, (3,1)).T
            if isinstance(ve, _a.Subscript) and isinstance(ve.slice, _a.Tuple) and len(ve.slice.elts) == 2 and \
                    isinstance(ve.slice.elts[0], _a.Slice) and src(ve.slice.elts[1]) in ("np.newaxis", "None") and is_vec(ve.value, env):
                return vec(ve.value, env) + mw
            if isinstance(ve, _a.Call) and isinstance(ve.func, _a.Attribute) and ve.func.attr == "reshape" and \
                    src(ve).replace(" ", "").endswith("reshape(-1,1)") and is_vec(ve.func.value, env):
                return vec(ve.func.value, env) + mw
            if isinstance(ve, _a.Attribute) and ve.attr == "T" and isinstance(ve.value, _a.Call) and src(ve.value.func) in ("np.tile", "numpy.tile") and \
                    is_vec(ve.value.args[0], env):
                return vec(ve.value.args[0], env) + mw
            # column scaling: plain 1-D vector, v[np.newaxis, :], np.tile(v, (3, 1))
            if isinstance(ve, _a.Call) and src(ve.func) in ("np.tile", "numpy.tile") and len(ve.args) == 2 and \
                    src(ve.args[1]).replace(" ", "") in ("(3,1)", "[3,1]") and is_vec(ve.args[0], env):
                return mw + vec(ve.args[0], env)
            if isinstance(ve, _a.Subscript) and isinstance(ve.slice, _a.Tuple) and len(ve.slice.elts) == 2 and \
                    src(ve.slice.elts[0]) in ("np.newaxis", "None") and isinstance(ve.slice.elts[1], _a.Slice) and is_vec(ve.value, env):
                return mw + vec(ve.value, env)
            if is_vec(ve, env):
                return mw + vec(ve, env)
        raise Unknown(f"elementwise product {src(a)[:40]} * {src(b)[:40]}")

    try:
        cn = Canon(Canon.single_defs(gr.node.body))
        env = {"cn": cn, "frame_params": set(), "bound": {}}
        rets = [n for n in _a.walk(gr.node) if isinstance(n, _a.Return) and n.value is not None]
        if len(rets) != 1:
            raise Unknown("expected one return")
        # the per-frame matrices: worker_pool.map(partial(self._f, ag=..., ...), frames)  ->  word of _f's return with the bound keywords
        frames_name = None
        per_frame = None
        for n in _a.walk(gr.node):
            if isinstance(n, _a.Call) and isinstance(n.func, _a.Attribute) and n.func.attr in ("map", "imap", "starmap") and n.args:
                f0 = cn.expand(n.args[0])
                if isinstance(f0, _a.Call) and src(f0.func) in ("partial", "functools.partial") and f0.args and isinstance(f0.args[0], _a.Attribute):
                    m = at.find_method(f0.args[0].attr)
                    if m is None:
                        raise Unknown("per-frame function not found")
                    ctx.analysed(m)
                    kw = {k.arg: k.value for k in f0.keywords}
                    mrets = [r for r in _a.walk(m.node) if isinstance(r, _a.Return) and r.value is not None]
                    if len(mrets) != 1:
                        raise Unknown("per-frame function has several returns")
                    menv = {"cn": Canon(Canon.single_defs(m.node.body)), "frame_params": set(), "bound": {}}
                    for p_ in m.params()[1:]:
                        if p_ in kw:
                            val = kw[p_]
                            if is_vec(val, env):
                                menv["bound"][p_] = {"vec": vec(val, env)}
                            else:
                                try:
                                    w_ = who(val, env)
                                except Unknown:
                                    w_ = None
                                if w_ == "frame":
                                    menv["frame_params"].add(p_)
                                elif w_ == "ref":
                                    raise Unknown("reference object handed to the per-frame function")
                    per_frame = mat(mrets[0].value, menv)
                    par = getattr(n, "_parent", None)
                    if isinstance(par, _a.Assign) and isinstance(par.targets[0], _a.Name):
                        frames_name = par.targets[0].id
        if per_frame is None or frames_name is None:
            raise Unknown("per-frame map not recognised")
        env["bound"][frames_name] = {"mat": per_frame}
        env["cn"] = Canon({k_: v_ for k_, v_ in Canon.single_defs(gr.node.body).items() if k_ != frames_name})
        word = mat(rets[0].value, env)
    except Unknown as e:
        ctx.inconclusive("QMAT", "C11.rotmat", "the per-frame rotation matrix is not derived as a product of axis matrices and sign scalings", gr.where,
                         witness=str(e))
        return

    def normal(word):
        """adjacent diagonal factors commute: sort every run of D factors; cancel D(x) D(x)^-1"""
        out, run = [], []
        # principal-axes matrices are orthogonal: A^T == A^-1
        word = [(k_, w_, False, (i_ != t_)) if k_ == "A" else (k_, w_, t_, i_) for k_, w_, t_, i_ in word]
        for f_ in word + [None]:
            if f_ is not None and f_[0] == "D":
                run.append(f_)
                continue
            run.sort()
            # cancel pairs
            k = 0
            while k + 1 < len(run):
                if run[k][:3] == run[k + 1][:3] and run[k][3] != run[k + 1][3]:
                    del run[k:k + 2]
                    k = max(k - 1, 0)
                else:
                    k += 1
            out += run
            run = []
            if f_ is not None:
                out.append(f_)
        return out

    def show(word):
        def one(f_):
            k_, w_, t_, i_ = f_
            base = ("A_" if k_ == "A" else "D(s_") + ("k" if w_ == "frame" else "ref") + ("" if k_ == "A" else ")")
            # stored orientation: principal_axes() rows = axes; A (columns = axes) is principal_axes().T, recorded with t_ == False
            return base + ("^T" if (k_ == "A" and t_) else "") + ("^-1" if i_ else "")
        return " · ".join(one(f_) for f_ in word) or "I"
    want = [("A", "frame", False, False), ("D", "frame", False, False), ("D", "ref", False, True), ("A", "ref", False, True)]
    got = normal(word)
    # for sign vectors (entries +-1) D^-1 == D: compare modulo the inversion flag of D factors
    strip = lambda w: [(k_, w_, t_, (i_ if k_ == "A" else False)) for k_, w_, t_, i_ in w]
    if strip(got) == strip(normal(want)):
        ctx.ok("QMAT", "C11.rotmat", "per-frame rotation = A_k · D(s_k) · D(s_ref)^-1 · A_ref^-1 (signs scale the axis columns of the frame "
               "matrix; the reference axes are inverted unscaled)", gr.where, derived=show(got))
    else:
        ctx.violate("QMAT", "C11.rotmat", "the per-frame rotation is not A_k · D(s_k) · D(s_ref)^-1 · A_ref^-1: a sign matrix sits on the wrong "
                    "side of an axis matrix (row scaling instead of column scaling), so the recovered rotation - still a proper rotation - is "
                    "wrong whenever the sign matrix does not commute with the axes", gr.where, src(rets[0].value)[:160],
                    witness=f"derived {show(got)} ; expected {show(normal(want))}")
