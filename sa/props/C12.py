"""C12 — MSM transition matrix = symmetrised, row-normalised lag-tau count matrix (KERNEL + LIN + MIRROR + DOM)."""
from __future__ import annotations

from ..alg import Poly
from ..interp import Interp, Hooks, Frame
from ..values import *
from .. import transfer as T

META = {
    "explanation": "Abstract interpretation of MSM.get_one_tau_transition_matrix (with the window generators inlined) for "
                   "symbolic trajectory length L and lag tau>=1, in both window modes: derives the index set of every "
                   "window, the range of window starts, the guards under which a window is counted, the two count "
                   "emissions and the normalisation term, and compares them with the property by linear arithmetic. "
                   "Universal in L, tau, the trajectory contents and the number of cells.",
    "decided": ["window index set = {k, k+tau}", "k ranges over 0, step, 2*step, ... < L-tau (tight), in bounds",
                "step = 1 (sliding) / tau (non-overlapping)", "windows containing NaN are not counted",
                "counts are mirrored: C[a,b]+=1 and C[b,a]+=1 under the same guard",
                "normalisation: left-multiplication by diag(1/row sums), zero sums replaced before the reciprocal"],
    "not_decided": ["floating-point division"],
    "trusted": [T.TABLE_VERSION, "scipy dok/csr semantics: M[a,b]+=1 accumulates; diags(v).dot(M) scales row i by v[i]"],
    "assumptions": ["tau >= 1 integer", "trajectory entries are cell indices or NaN"],
}


class C12Hooks(Hooks):
    """`not isnan(el)` for an element of a window is implied by an enclosing guard `not isnan(window).any()`"""

    def decide(self, interp, cond):
        c = cond
        neg = False
        while isinstance(c, CondV) and c.kind == "not":
            neg = not neg
            c = c.args[0]
        if isinstance(c, CondV) and c.kind == "opaque" and c.args and c.args[0] == "isnan" and neg:
            el = c.args[1]
            for fr in interp.frames:
                if fr.kind != "guard":
                    continue
                g = fr.cond
                gn = False
                while isinstance(g, CondV) and g.kind == "not":
                    gn = not gn
                    g = g.args[0]
                if gn and isinstance(g, CondV) and g.kind == "opaque" and g.args[0] == "any":
                    arr = g.args[1]
                    if isinstance(arr, Grid) and isinstance(arr.elem, CondV) and arr.elem.kind == "opaque" and \
                            arr.elem.args[0] == "isnan":
                        inner = arr.elem.args[1]
                        # el must be an instance of inner (same polynomial up to the slice index)
                        if isinstance(inner, Num) and isinstance(el, Num):
                            idxs = [a for d in arr.dims for a, _ in d]
                            if _instance_of(el.p, inner.p, idxs):
                                interp.events.append(("nan_filter_redundant", interp.where()))
                                return True
        return None


def _instance_of(p: Poly, pattern: Poly, idxs) -> bool:
    if p == pattern:
        return True
    # allow p to use a different (loop) index atom in place of the slice index
    pa = [a for a in p.all_atoms_deep() if a[0] == "sym" and "#" in a[1]]
    for i in idxs:
        for a in pa:
            if pattern.subs({i: Poly.atom(a)}) == p:
                return True
    return False


def analyse_mode(ctx, repo, noncorr: bool):
    mode = "noncorrelated" if noncorr else "sliding"
    fi = repo.func("molgri.molecules.transitions", "MSM.get_one_tau_transition_matrix")
    ci = repo.cls("molgri.molecules.transitions", "MSM")
    where = fi.where
    ctx.analysed(fi)
    interp = Interp(repo, C12Hooks())
    L, tau, N = Poly.sym("L"), Poly.sym("tau"), Poly.sym("N")
    interp.ge1_atoms.add(("sym", "tau"))
    self_obj = ObjV(cls=ci)
    self_obj.attrs["assigned_trajectory"] = T.vec(interp, "x", L, hint="f")
    self_obj.attrs["total_num_cells"] = Num(N)
    res = interp.call_function(fi, [Num(tau), Const(noncorr)], {}, self_obj=self_obj)
    for f in interp.functions_entered:
        ctx.analysed(f)
    ctx.unresolved.extend(interp.unresolved)
    ctx.notes.extend(f"[{mode}] {n}" for n in interp.notes)
    tag = f"C12.{mode}"
    ctx.extra[f"derived_{mode}"] = vstr(res.origin if isinstance(res, ObjV) else res)[:900]

    # ---------------------------------------------------------------- an early return of an EMPTY matrix ("no window fits")
    if isinstance(res, Term) and res.op == "phi" and len(res.args) == 2:
        alts = []
        for a in res.args:
            if isinstance(a, TupleV) and len(a.items) == 2:
                g_ = a.items[0]
                gl = list(g_.items) if isinstance(g_, TupleV) else (list(g_) if isinstance(g_, (tuple, list)) else [g_])
                alts.append((gl, a.items[1]))
        empty = [(g[0], v) for g, v in alts if T.is_sparse(v) and len(g) == 1 and isinstance(g[0], CondV) and g[0].kind in ("cmp", "and", "or", "not") and
                 not (isinstance(v.origin, Term) and v.origin.op == "spdot")]
        full = [(g, v) for g, v in alts if T.is_sparse(v) and isinstance(v.origin, Term) and v.origin.op == "spdot" and not g]
        if len(empty) == 1 and len(full) == 1 and empty[0][1] is not full[0][1]:
            def ev_(c_, Lv, tv):
                """truth of a condition over L and tau at a point; None when it reads anything else"""
                if not isinstance(c_, CondV):
                    return None
                if c_.kind == "cmp":
                    o_, x1, x2 = c_.args
                    x_ = (x1 - x2).subs({("sym", "L"): Poly.const(Lv), ("sym", "tau"): Poly.const(tv)})
                    if not x_.is_const():
                        return None
                    x_ = x_.as_const()
                    return {"<": x_ < 0, "<=": x_ <= 0, ">": x_ > 0, ">=": x_ >= 0, "==": x_ == 0, "!=": x_ != 0}[o_]
                if c_.kind == "not":
                    r_ = ev_(c_.args[0], Lv, tv)
                    return None if r_ is None else (not r_)
                if c_.kind in ("and", "or"):
                    rs_ = [ev_(a__, Lv, tv) for a__ in c_.args]
                    if any(r_ is None for r_ in rs_):
                        return None
                    return all(rs_) if c_.kind == "and" else any(rs_)
                return None
            ctx.instance("LIN")
            cex = None
            decided = ev_(empty[0][0], 3, 1) is not None
            if decided:
                for Lv in range(0, 8):
                    for tv in range(1, 8):
                        holds = ev_(empty[0][0], Lv, tv)
                        if holds and Lv - tv >= 1 and cex is None:
                            cex = (Lv, tv)
            if decided:
                if cex is not None:
                    ctx.violate("LIN", f"{tag}.early_empty", "the `no window fits` early return also fires when a window does fit: a trajectory of "
                                "L frames has max(L - tau, 0) windows (x_k, x_{k+tau}), so the empty matrix may be returned only for L <= tau", where,
                                vstr(empty[0][0])[:100], witness=f"L = {cex[0]}, tau = {cex[1]}: {cex[0] - cex[1]} window(s), but the condition "
                                f"{vstr(empty[0][0])} holds and an all-zero matrix is returned")
                else:
                    ctx.ok("LIN", f"{tag}.early_empty", "the early return of an empty matrix is taken only when no window fits (L <= tau)", where,
                           vstr(empty[0][0])[:100])
                res = full[0][1]
            if not decided:
                pass
    # ---------------------------------------------------------------- normalisation term
    if not (T.is_sparse(res) and isinstance(res.origin, Term)):
        ctx.inconclusive("KERNEL", f"{tag}.result", "return value not derived", where, witness=contains_top(res) or vstr(res)[:200])
        return
    org = res.origin
    if org.op != "spdot":
        r = contains_top(org)
        # the raw count matrix returned without any normalisation is a definite deviation; other assemblies are not judged
        if not r and org.op in ("tocsr", "tocoo", "tocsc", "dok"):
            ctx.violate("KERNEL", f"{tag}.norm.form", "the count matrix is returned without row normalisation", where,
                        construct=vstr(org)[:200], witness=f"top-level operation is {org.op}")
        else:
            ctx.inconclusive("KERNEL", f"{tag}.norm.form", "result is not of the form diag(1/rowsum).dot(C)", where,
                             construct=vstr(org)[:200], witness=r or f"top-level operation is {org.op}")
        return
    A, B = org.args

    def origin_of(fz):
        o = fz.args[0] if isinstance(fz, Term) and fz.op == "sparse" else None
        return o
    oA, oB = origin_of(A), origin_of(B)
    ctx.instance("KERNEL", 4)
    # which side is the diagonal matrix?
    def is_diag(o):
        return isinstance(o, Term) and o.op == "diags"
    if is_diag(oB) and not is_diag(oA):
        ctx.violate("KERNEL", f"{tag}.norm.side", "count matrix is multiplied by the diagonal matrix on the RIGHT (column "
                    "scaling); rows must be scaled", where, construct="C.dot(D)", witness="spdot(C, diags(...))")
        return
    if not is_diag(oA):
        r = contains_top(A)
        (ctx.inconclusive if r else ctx.violate)("KERNEL", f"{tag}.norm.diag", "left factor is not a diagonal matrix built "
                                                 "with diags(...)", where, construct=vstr(oA)[:200], witness=r or vstr(oA)[:200])
        return
    ctx.ok("KERNEL", f"{tag}.norm.side", "diagonal matrix multiplies from the left (row scaling)", where)
    dv = oA.args[0] if oA.args else None
    off = oA.kw.get("offsets", oA.args[1] if len(oA.args) > 1 else Num(0))
    if not (isinstance(off, Num) and off.p.is_zero()):
        ctx.violate("KERNEL", f"{tag}.norm.offset", "normalising matrix not on the main diagonal", where, construct="diags(...)",
                    witness=vstr(off))
    # dv = reciprocal(setitem(spsum(C, axis), ==0, 1))   (or 1/x)
    v = dv
    recip = False
    if isinstance(v, Term) and v.op == "reciprocal":
        recip = True
        v = v.args[0]
    elif isinstance(v, Term) and v.op == "div" and isinstance(v.args[0], Num) and v.args[0].p == Poly.const(1):
        recip = True
        v = v.args[1]
    if not recip:
        r = contains_top(dv)
        (ctx.inconclusive if r else ctx.violate)("KERNEL", f"{tag}.norm.recip", "diagonal values are not the reciprocal of "
                                                 "the sums", where, construct="np.reciprocal(sums)", witness=r or vstr(dv)[:200])
        return
    ctx.ok("KERNEL", f"{tag}.norm.recip", "diagonal = reciprocal of the sums", where)
    guarded = False
    unread = None

    def zero_test(mask, base, op):
        return isinstance(mask, CondV) and mask.kind == "opaque" and mask.args[0] == op and isinstance(mask.args[2], Num) \
            and mask.args[2].p.is_zero() and vkey(mask.args[1]) == vkey(base)
    while isinstance(v, Term) and v.op in ("setitem", "where"):
        if v.op == "setitem":
            base, mask, val = v.args
            if zero_test(mask, base, "==") and isinstance(val, Num) and not val.p.is_zero():
                guarded = True
            v = base
        else:
            # np.where(s == 0, c, s)  /  np.where(s != 0, s, c)
            if len(v.args) != 3:
                break
            mask, a_, b_ = v.args
            if zero_test(mask, b_, "==") and isinstance(a_, Num) and not a_.p.is_zero():
                guarded, v = True, b_
            elif zero_test(mask, a_, "!=") and isinstance(b_, Num) and not b_.p.is_zero():
                guarded, v = True, a_
            else:
                unread = v
                break
    ctx.instance("DOM")
    if unread is not None:
        pass
    elif guarded:
        ctx.ok("DOM", f"{tag}.norm.zero_guard", "zero sums are replaced by a non-zero value before the reciprocal", where,
               construct="sums[sums == 0] = 1")
    else:
        ctx.violate("DOM", f"{tag}.norm.zero_guard", "no replacement of zero row sums dominates the reciprocal: unvisited "
                    "cells give inf/NaN rows instead of zero rows", where, construct="np.reciprocal(sums)",
                    witness="path from sums = C.sum(...) to reciprocal without `sums[sums == 0] = c`")
    if unread is not None:
        ctx.inconclusive("KERNEL", f"{tag}.norm.sums", "normaliser passes through a selection the rule does not read", where, witness=vstr(unread)[:200])
        return
    if not (isinstance(v, Term) and v.op == "spsum"):
        r = contains_top(v)
        (ctx.inconclusive if r else ctx.violate)("KERNEL", f"{tag}.norm.sums", "normaliser is not the row sum of the count "
                                                 "matrix", where, construct="sums = ...", witness=r or vstr(v)[:200])
        return
    ax = v.kw["axis"].v
    summed = v.args[0]
    same = summed.kw["uid"].v == B.kw["uid"].v and summed.kw["stores"].v == B.kw["stores"].v
    ctx.check(same, "PAIR", f"{tag}.norm.same_matrix", "the sums are taken from the very matrix that is scaled", where,
              "sums = sparse_count_matrix.sum(...)", witness=f"summed matrix #{summed.kw['uid'].v} vs scaled #{B.kw['uid'].v}")

    # ---------------------------------------------------------------- window slice geometry (LIN)
    sl = [e for e in interp.events if e[0] == "strided_slice"]
    for e in sl:
        _, lo, hi, st_, n_, w_, g_, frs = e
        ctx.instance("LIN")
        good = (hi - lo == tau + 1) and st_ == tau
        ctx.check(good, "LIN", f"{tag}.window.slice", "slice has stop-start = tau+1 and stride tau (exactly the two elements "
                  "k and k+tau for tau>=1)", w_, "seq[k: k + len_window + 1: len_window]",
                  witness=f"stop-start = {(hi - lo).pretty()}, stride = {st_.pretty()}")
    no_strided_slice = not sl

    # ---------------------------------------------------------------- count emissions
    # follow B back to the dok object
    o = oB
    dok = None
    while isinstance(o, Term) and o.op in ("tocsr", "tocoo", "tocsc", "copy", "astype"):
        obj = o.args[0]
        if isinstance(obj, ObjV):
            if isinstance(obj.origin, Term) and obj.origin.op == "dok":
                dok = obj
                break
            o = obj.origin
        else:
            break
    if dok is None:
        ctx.inconclusive("KERNEL", f"{tag}.count.obj", "count matrix object not found behind the scaled matrix", where,
                         witness=vstr(oB)[:200])
        return
    shp = dok.origin.args[0] if dok.origin.args else None
    ctx.check(isinstance(shp, TupleV) and len(shp.items) == 2 and all(isinstance(x, Num) and x.p == N for x in shp.items),
              "KERNEL", f"{tag}.count.shape", "count matrix has shape (total_num_cells, total_num_cells)", where,
              "dok_array((n, n))", witness=vstr(shp))
    stores = dok.stores
    ctx.instance("MIRROR", len(stores))
    for e in interp.events:
        if e[0] == "unpack_unguarded":
            ctx.violate("DOM", f"{tag}.nan.unpack", "a window tuple whose NaN elements were filtered out is unpacked into two "
                        "names without a dominating length check: a window containing NaN raises ValueError instead of "
                        "being skipped", e[2], construct="el1, el2 = cell_slice",
                        witness="element guards: " + "; ".join(vstr(c) for c in e[1]))
            return
    if len(stores) == 0:
        r = [e for e in interp.events if e[0] == "loop_over_splice"]
        if any(o.status == "VIOLATED" and o.oid == f"{tag}.window.slice" for o in ctx.obs):
            return
        ctx.inconclusive("MIRROR", f"{tag}.count.none", "no count emission derived", where,
                         witness=(vstr(r[0][1])[:200] if r else "the counting loop was not summarised"))
        return
    ems = []
    for frames, idx, val, aug, st in stores:
        if not (isinstance(idx, TupleV) and len(idx.items) == 2 and all(isinstance(x, Num) for x in idx.items)):
            ctx.inconclusive("MIRROR", f"{tag}.count.index", "emission index not derived", where, witness=vstr(idx)[:200])
            return
        ems.append((frames, idx.items[0].p, idx.items[1].p, val, aug, st))
    # symmetric emission
    sym_ok = True
    used = [False] * len(ems)
    for i, (fr, a, b, val, aug, st) in enumerate(ems):
        if used[i]:
            continue
        if a == b:
            used[i] = True
            continue
        found = False
        for j in range(len(ems)):
            if j != i and not used[j]:
                fr2, a2, b2, val2, aug2, _ = ems[j]
                if a2 == b and b2 == a and vkey(val2) == vkey(val) and aug2 == aug and \
                        [f.fid for f in fr2] == [f.fid for f in fr]:
                    used[i] = used[j] = True
                    found = True
                    break
        if not found:
            sym_ok = False
            ctx.violate("MIRROR", f"{tag}.count.mirror", "count emission C[a,b] has no mirrored emission C[b,a] with the same "
                        "value under the same guard", where, construct=f"C[{a.pretty()}, {b.pretty()}] += ...",
                        witness="one-sided counting: the matrix is not symmetrised")
    if sym_ok:
        ctx.ok("MIRROR", f"{tag}.count.mirror", "every emission C[a,b]+=v is mirrored by C[b,a]+=v under the same guard", where)
    if ax != 1 and not (ax == 0 and sym_ok):
        ctx.violate("KERNEL", f"{tag}.norm.axis", "sums must run along axis 1 (row sums)", where,
                    construct="sparse_count_matrix.sum(axis=...)", witness=f"axis={ax}")
    else:
        ctx.ok("KERNEL", f"{tag}.norm.axis", f"sums along axis {ax} (row sums; axis 0 is equivalent only because the count "
               f"matrix is symmetric)", where)
    # the first emission defines the window
    fr, a, b, val, aug, st = ems[0]
    ctx.check(aug == "Add" and isinstance(val, Num) and val.p == Poly.const(1), "KERNEL", f"{tag}.count.increment",
              "each counted window adds exactly 1", where, "C[a, b] += 1", witness=f"op={aug} value={vstr(val)}")
    loops = [f for f in fr if f.kind == "loop"]
    guards = [f for f in fr if f.kind == "guard"]
    if len(loops) != 1:
        ctx.inconclusive("LIN", f"{tag}.window.loops", "expected exactly one loop over window starts", where,
                         witness=f"{len(loops)} loop frames")
        return
    lp = loops[0]
    k = Poly.atom(lp.idx)
    info = lp.info
    if not (isinstance(info, tuple) and info and info[0] == "range"):
        ctx.inconclusive("LIN", f"{tag}.window.range", "window starts are not produced by range(...)", where, witness=str(info)[:100])
        return
    _, start, stop, step = info
    x_at = lambda p: Poly.app("at", "x", p)
    kk = start + step * k
    ctx.instance("LIN", 5)
    exp_step = tau if noncorr else Poly.const(1)
    ctx.check(start.is_zero(), "LIN", f"{tag}.window.start", "first window starts at k=0", where, "range(0, ...)",
              witness=f"start={start.pretty()}")
    if stop == L - tau:
        ctx.ok("LIN", f"{tag}.window.stop", "k < L - tau: tight (last admissible window (L-tau-1, L-1) included, k+tau <= L-1)",
               where, derived=f"stop={stop.pretty()}")
    else:
        d = stop - (L - tau)
        if d.is_const():
            w = ("the last admissible window(s) are dropped" if d.as_const() < 0 else
                 "start indices beyond L-tau-1 are produced: the slice yields a single element / reads past the end")
        else:
            w = "range bound is not L - tau"
        ctx.violate("LIN", f"{tag}.window.stop", "range of window starts must be k < L - tau", where,
                    construct="range(0, len(seq) - len_window, step)", witness=f"stop = {stop.pretty()}: {w}")
    ctx.check(step == exp_step, "LIN", f"{tag}.window.step", f"step between window starts is {exp_step.pretty()} in {mode} mode",
              where, "range(..., step)", witness=f"step={step.pretty()}")
    # index set {k, k+tau}
    pair_ok = (a == x_at(kk) and b == x_at(kk + tau))
    if pair_ok:
        ctx.ok("LIN", f"{tag}.window.pair", "counted pair is (x[k], x[k+tau])", where, derived=f"({a.pretty()}, {b.pretty()})")
    elif a.has_top() or b.has_top():
        ctx.inconclusive("LIN", f"{tag}.window.pair", "window elements not derived", where, witness="; ".join(a.top_reasons() + b.top_reasons()))
    else:
        ctx.violate("LIN", f"{tag}.window.pair", "counted pair is not (x[k], x[k+tau])", where,
                    construct="seq[k : k + len_window + 1 : len_window]", witness=f"derived ({a.pretty()}, {b.pretty()})")
    # NaN handling: some guard must exclude windows containing NaN (either form), given that el1, el2 exist
    nan_guard = False
    guard_conds = [g.cond for g in guards]
    for e in interp.events:
        if e[0] == "unpack_implies":
            guard_conds.extend(e[1])
    # (i) `not isnan(window).any()` or (ii) both elements individually tested
    per_elem = set()
    for c in guard_conds:
        neg = False
        while isinstance(c, CondV) and c.kind == "not":
            neg = not neg
            c = c.args[0]
        if not (isinstance(c, CondV) and c.kind == "opaque" and neg):
            continue
        if c.args[0] == "any" and isinstance(c.args[1], Grid) and isinstance(c.args[1].elem, CondV) and \
                c.args[1].elem.kind == "opaque" and c.args[1].elem.args[0] == "isnan":
            nan_guard = True
            W = c.args[1]
            ext = W.dim_len(0)
            ctx.instance("LIN")
            if ext == Poly.const(2):
                ctx.ok("LIN", f"{tag}.nan.extent", "the NaN test looks at exactly the two frames of the window", where)
            else:
                ctx.violate("LIN", f"{tag}.nan.extent", "the NaN test covers more frames than the two end points of the window: a valid pair "
                            "(x_k, x_{k+tau}) is dropped whenever an unassigned frame lies strictly between them", where,
                            "if not np.isnan(<window>).any()", witness=f"tested frames: {ext.pretty()} (expected 2); e.g. [0, nan, 1] with tau = 2")
        if c.args[0] == "isnan" and isinstance(c.args[1], Num):
            per_elem.add(c.args[1].p)
    if a in per_elem and b in per_elem:
        nan_guard = True
    redundant = any(e[0] == "nan_filter_redundant" for e in interp.events)
    ctx.instance("DOM")
    if nan_guard:
        ctx.ok("DOM", f"{tag}.nan", "a window containing NaN is never counted (guard on isnan dominates both emissions)", where,
               derived="; ".join(vstr(c) for c in guard_conds))
    else:
        ctx.violate("DOM", f"{tag}.nan", "no NaN guard dominates the count emissions: windows containing NaN are counted", where,
                    construct="sparse_count_matrix[el1, el2] += 1", witness="guards on the path: " + ("; ".join(vstr(c) for c in guard_conds) or "none"))


def stride_after_filter(ctx, repo):
    """STRIDE: the non-overlapping windows sit at positions k = 0, tau, 2*tau, ... of the TRAJECTORY.  A stride applied to the
    output of a generator that drops elements (a yield under an `if`) counts surviving windows instead of positions: after the
    first dropped (NaN) window every later window is at the wrong k."""
    import ast
    mod = repo.module("molgri.molecules.transitions")
    gens = {}
    for name, f in mod.functions.items():
        ys = [y for y in ast.walk(f.node) if isinstance(y, (ast.Yield, ast.YieldFrom))]
        if ys:
            filtered = False
            for y in ys:
                p_ = getattr(y, "_parent", None)
                while p_ is not None and p_ is not f.node:
                    if isinstance(p_, ast.If):
                        filtered = True
                    p_ = getattr(p_, "_parent", None)
            gens[name.split(".")[-1]] = filtered
    # functions that merely return such a generator
    changed = True
    while changed:
        changed = False
        for name, f in mod.functions.items():
            nm = name.split(".")[-1]
            if nm in gens:
                continue
            rets = [r.value for r in ast.walk(f.node) if isinstance(r, ast.Return) and r.value is not None]
            if len(rets) == 1 and isinstance(rets[0], ast.Call) and isinstance(rets[0].func, ast.Name) and rets[0].func.id in gens:
                gens[nm] = gens[rets[0].func.id]
                changed = True
    ctx.instance("ORD", len(gens) + 1)
    scope = [f for n_, f in mod.functions.items() if n_.split(".")[-1] in ("window", "noncorr_window")] + \
        [m for c in mod.classes.values() if c.name == "MSM" for m in c.methods.values()]
    bad = []
    for f in scope:
        from ..astutil import Canon
        cn = Canon(Canon.single_defs(f.node.body))

        def filtered_gen(e, depth=0):
            e = cn.expand(e) if depth == 0 else e
            for c_ in ast.walk(e):
                if isinstance(c_, ast.Call) and isinstance(c_.func, ast.Name) and gens.get(c_.func.id):
                    return c_.func.id
            return None
        for n in ast.walk(f.node):
            if isinstance(n, ast.Call) and src_(n.func).split(".")[-1] == "islice":
                step = n.args[3] if len(n.args) >= 4 else None
                if step is not None and not (isinstance(step, ast.Constant) and step.value in (1, None)):
                    g = filtered_gen(n.args[0])
                    if g:
                        bad.append((f, n, g))
            elif isinstance(n, ast.Subscript) and isinstance(n.slice, ast.Slice) and n.slice.step is not None and \
                    not (isinstance(n.slice.step, ast.Constant) and n.slice.step.value in (1, None)):
                g = filtered_gen(n.value)
                if g and isinstance(cn.expand(n.value), ast.Call):
                    bad.append((f, n, g))
    for f, n, g in bad:
        ctx.violate("ORD", "C12.noncorrelated.stride", f"a stride is applied to the OUTPUT of `{g}`, which drops windows that contain NaN: the "
                    "stride then counts surviving windows, not trajectory positions, so after the first dropped window the non-overlapping "
                    "windows are no longer at k = 0, tau, 2*tau, ...", f.where, src_(n)[:160],
                    witness="x = [0, 1, nan, 3, 4, 5, 6], tau = 2: windows kept start at k = 0, 3 (not 0, 2, 4)")
    if not bad:
        ctx.ok("ORD", "C12.noncorrelated.stride", "no stride is applied to the output of a filtering window generator (the stride is the step of "
               "the position loop)", "molgri/molecules/transitions.py:noncorr_window")


def src_(n):
    import ast
    return ast.unparse(n)


def negative_slice_bounds(ctx, repo):
    """LIN: `x[:len(x) - p]` is the first len(x)-p elements only while p <= len(x); for p > len(x) the bound is negative and numpy counts it
    from the END (wrap-around): windows appear for trajectories shorter than the lag, where there must be none.  `range(0, len(x) - p)`
    is empty for a negative stop, a slice is not."""
    import ast
    from ..astutil import Canon
    mod = repo.module("molgri.molecules.transitions")
    bad, n_sites = [], 0
    for f in [f_ for n_, f_ in mod.functions.items() if n_.split(".")[-1] in ("window", "noncorr_window")]:
        params = set(f.params())
        cn = Canon(Canon.single_defs(f.node.body))
        guards = [g for g in ast.walk(f.node) if isinstance(g, (ast.If, ast.Assert)) and "len(" in src_(g.test)]
        for sub in [n for n in ast.walk(f.node) if isinstance(n, ast.Subscript) and isinstance(n.slice, ast.Slice)]:
            for bound in (sub.slice.upper, sub.slice.lower):
                if bound is None:
                    continue
                b = cn.expand(bound)
                if isinstance(b, ast.BinOp) and isinstance(b.op, ast.Sub) and isinstance(b.left, ast.Call) and src_(b.left.func) == "len" and \
                        isinstance(b.right, ast.Name) and b.right.id in params:
                    n_sites += 1
                    guarded = any(b.right.id in src_(g.test) for g in guards)
                    if not guarded:
                        bad.append((f, sub, b))
    ctx.instance("LIN", n_sites + 1)
    for f, sub, b in bad:
        ctx.violate("LIN", "C12.window.negative_bound", f"the slice bound `{src_(b)}` becomes negative when the lag exceeds the length of the "
                    "trajectory, and a negative slice bound counts from the end: windows that wrap around the end of the trajectory are "
                    "produced where there must be none", f.where, src_(sub)[:140],
                    witness="len(seq) = 10, tau = 12: seq[:-2] has 8 elements, paired with np.roll(seq, -12)")
    if not bad:
        ctx.ok("LIN", "C12.window.negative_bound", "no slice bound of the form len(x) - lag without a guard on the lag", "molgri/molecules/transitions.py:window")


def blocked_stride(ctx, repo):
    """STRIDE (blocks): windows at k = 0, s, 2s, ... taken block-wise as `seq[a:b:s]` for block starts a = 0, B, 2B, ... are at the
    right positions only if every block start is a multiple of the stride, i.e. if B is a multiple of s.  A block size that does not
    depend on s restarts the stride at every block."""
    import ast
    mod = repo.module("molgri.molecules.transitions")
    bad, n_sites = [], 0
    for f in [f_ for n_, f_ in mod.functions.items() if n_.split(".")[-1] in ("window", "noncorr_window")]:
        params = set(f.params())
        for lp in [n for n in ast.walk(f.node) if isinstance(n, ast.For) and isinstance(n.target, ast.Name) and isinstance(n.iter, ast.Call) and
                   src_(n.iter.func) == "range" and len(n.iter.args) == 3]:
            B = n_B = lp.iter.args[2]
            a = lp.target.id
            for sub in [n for n in ast.walk(lp) if isinstance(n, ast.Subscript) and isinstance(n.slice, ast.Slice) and n.slice.step is not None]:
                S = n.slice.step if False else sub.slice.step
                if not (isinstance(S, ast.Name) and S.id in params):
                    continue
                lower = sub.slice.lower
                if lower is None or not any(isinstance(x, ast.Name) and x.id == a for x in ast.walk(lower)):
                    continue
                # a BLOCK slice: its upper bound is derived from the block size (it spans many windows), unlike the two-element
                # window slice seq[k : k+tau+1 : tau] of the plain position loop
                from ..astutil import Canon
                cn = Canon(Canon.single_defs(lp.body))
                upper = cn.expand(sub.slice.upper) if sub.slice.upper is not None else None
                b_names = {x.id for x in ast.walk(B) if isinstance(x, ast.Name)}
                if upper is None or not b_names or not (b_names & {x.id for x in ast.walk(upper) if isinstance(x, ast.Name)}):
                    continue
                n_sites += 1
                if S.id not in b_names:
                    bad.append((f, sub, lp, S.id))
    ctx.instance("LIN", n_sites + 1)
    for f, sub, lp, sname in bad:
        ctx.violate("LIN", "C12.window.blocks", f"strided windows are taken block by block (`{src_(sub)[:60]}`) and the block size "
                    f"`{src_(lp.iter.args[2])}` does not depend on the stride `{sname}`: unless the stride divides the block size, the windows of "
                    "every later block start at positions that are not multiples of the stride", f.where, src_(lp.iter)[:120],
                    witness=f"block start a = {src_(lp.iter.args[2])}, stride s: positions a + j*s are multiples of s only if s | a")
    if not bad:
        ctx.ok("LIN", "C12.window.blocks", "no block-wise strided slicing whose block size is independent of the stride", "molgri/molecules/transitions.py:window")


def run(ctx, repo, tier):
    for noncorr in (False, True):
        analyse_mode(ctx, repo, noncorr)
    stride_after_filter(ctx, repo)
    blocked_stride(ctx, repo)
    negative_slice_bounds(ctx, repo)
    # get_all_tau_transition_matrices forwards the mode flag unchanged
    fa = repo.func("molgri.molecules.transitions", "MSM.get_all_tau_transition_matrices")
    ctx.analysed(fa)
    import ast
    calls = [n for n in ast.walk(fa.node) if isinstance(n, ast.Call) and isinstance(n.func, ast.Attribute)
             and n.func.attr == "get_one_tau_transition_matrix"]
    ctx.instance("FLOW", len(calls))
    for c in calls:
        kw = {k.arg: k.value for k in c.keywords}
        arg = kw.get("noncorrelated_windows", c.args[1] if len(c.args) > 1 else None)
        ok = isinstance(arg, ast.Name) and arg.id == "noncorrelated_windows"
        ctx.check(ok, "FLOW", "C12.all_taus.flag", "get_all_tau_transition_matrices passes its window-mode flag on unchanged",
                  fa.where, ast.unparse(c), witness="mode flag is not forwarded")
        t = c.args[0] if c.args else kw.get("tau")
        # the argument must be the element variable of a loop over the `taus` parameter
        tau_param = fa.params()[1] if len(fa.params()) > 1 else "taus"
        elem_vars = set()
        for lp in ast.walk(fa.node):
            if isinstance(lp, (ast.For, ast.comprehension)):
                it_, tg = lp.iter, lp.target
                if isinstance(it_, ast.Call) and isinstance(it_.func, ast.Name) and it_.func.id == "enumerate" and it_.args and \
                        isinstance(tg, ast.Tuple) and len(tg.elts) == 2:
                    it_, tg = it_.args[0], tg.elts[1]
                if isinstance(it_, ast.Name) and it_.id == tau_param and isinstance(tg, ast.Name):
                    elem_vars.add(tg.id)
        if isinstance(t, ast.Name) and t.id in elem_vars:
            ctx.ok("FLOW", "C12.all_taus.tau", "each tau of the input array is passed to get_one_tau_transition_matrix", fa.where, ast.unparse(c))
        elif isinstance(t, ast.Subscript) and isinstance(t.value, ast.Name) and t.value.id == tau_param:
            ctx.ok("FLOW", "C12.all_taus.tau", "taus are passed by index from the input array", fa.where, ast.unparse(c))
        elif isinstance(t, ast.Constant) or (isinstance(t, ast.Name) and t.id not in elem_vars and t.id != tau_param and not elem_vars):
            ctx.violate("FLOW", "C12.all_taus.tau", "the lag passed to get_one_tau_transition_matrix is not the current element of the "
                        "input array", fa.where, ast.unparse(c), witness=ast.unparse(t) if t is not None else "no argument")
        else:
            ctx.inconclusive("FLOW", "C12.all_taus.tau", "lag argument not recognised as an element of the input array", fa.where,
                             witness=ast.unparse(t) if t is not None else "no argument")
    # every requested lag gets its matrix: the loop over the taus must not stop early (a `break` assumes an ascending tau array and leaves
    # the later entries unset / at their placeholder) nor skip a tau without an explicit placeholder being the documented result
    tau_loops = [lp for lp in ast.walk(fa.node) if isinstance(lp, ast.For) and
                 any(isinstance(c_, ast.Call) and isinstance(c_.func, ast.Attribute) and c_.func.attr == "get_one_tau_transition_matrix" for c_ in ast.walk(lp))]
    ctx.instance("DOM", max(1, len(tau_loops)))
    brk = [b for lp in tau_loops for b in ast.walk(lp) if isinstance(b, (ast.Break, ast.Return))]
    cond_calls = []
    for lp in tau_loops:
        for c_ in ast.walk(lp):
            if isinstance(c_, ast.Call) and isinstance(c_.func, ast.Attribute) and c_.func.attr == "get_one_tau_transition_matrix":
                p_ = getattr(c_, "_parent", None)
                while p_ is not None and p_ is not lp:
                    if isinstance(p_, ast.If):
                        cond_calls.append(p_)
                    p_ = getattr(p_, "_parent", None)
    conts = [b for lp in tau_loops for b in ast.walk(lp) if isinstance(b, ast.Continue)]
    # comprehension form: (self.get_one_tau_transition_matrix(t, ..) for t in taus) consumed by a loop / np.array / list
    comps_ = [c_ for c_ in ast.walk(fa.node) if isinstance(c_, (ast.GeneratorExp, ast.ListComp)) and
              any(isinstance(x_, ast.Call) and isinstance(x_.func, ast.Attribute) and x_.func.attr == "get_one_tau_transition_matrix" for x_ in ast.walk(c_.elt))]
    if not tau_loops and comps_:
        filt_ = [g_ for c_ in comps_ for g_ in c_.generators if g_.ifs]
        names_ = {a_.targets[0].id for a_ in ast.walk(fa.node) if isinstance(a_, ast.Assign) and len(a_.targets) == 1 and
                  isinstance(a_.targets[0], ast.Name) and a_.value in comps_}
        consumers_ = [lp for lp in ast.walk(fa.node) if isinstance(lp, ast.For) and
                      any((isinstance(x_, ast.Name) and x_.id in names_) or x_ in comps_ for x_ in ast.walk(lp.iter))]
        jumps_ = [b for lp in consumers_ for b in ast.walk(lp) if isinstance(b, (ast.Break, ast.Return, ast.Continue))]
        sliced_ = [x_ for x_ in ast.walk(fa.node) if isinstance(x_, ast.Call) and ast.unparse(x_.func).split(".")[-1] in ("islice", "takewhile", "dropwhile", "filter")]
        if filt_ or jumps_ or sliced_:
            ctx.inconclusive("DOM", "C12.all_taus.every", "a lag time can be skipped under a condition", fa.where,
                             witness=ast.unparse((filt_[0].ifs[0] if filt_ else (jumps_ + sliced_)[0]))[:100])
        else:
            ctx.ok("DOM", "C12.all_taus.every", "every lag time of the input array gets its transition matrix (unfiltered comprehension over the "
                   "lag times, consumed completely)", fa.where)
    elif not tau_loops:
        ctx.inconclusive("DOM", "C12.all_taus.every", "loop over the lag times not recognised", fa.where)
    elif brk:
        ctx.violate("DOM", "C12.all_taus.every", "the loop over the lag times can stop early: the taus after the one that triggers the exit never get "
                    "their transition matrix (the exit assumes an ascending array of lag times)", fa.where, "break", 
                    witness="taus = [1, 12, 2] on 10 frames: the matrix for tau = 2 is never computed")
    elif cond_calls or conts:
        ctx.inconclusive("DOM", "C12.all_taus.every", "a lag time can be skipped under a condition", fa.where,
                         witness=ast.unparse((cond_calls or [None])[0].test)[:100] if cond_calls else "continue")
    else:
        ctx.ok("DOM", "C12.all_taus.every", "every lag time of the input array gets its transition matrix (no early exit, no skip)", fa.where)
    # ---------------------------------------------------------------- the stored trajectory keeps the cell indices exactly
    mci = repo.cls("molgri.molecules.transitions", "MSM")
    minit = mci.find_method("__init__")
    ctx.instance("FLOW")
    if minit is None:
        ctx.inconclusive("FLOW", "C12.trajectory.exact", "anchor vanished: MSM.__init__", mci.module.relpath)
    else:
        ctx.analysed(minit)
        NARROW = ("float32", "float16", "half", "single", "int32", "int16", "int8", "uint8", "uint16", "uint32", "'f4'", '"f4"', "'f2'", "'i4'", "'i2'")
        st = [n for n in ast.walk(minit.node) if isinstance(n, ast.Assign) and any(ast.unparse(t) == "self.assigned_trajectory" for t in n.targets)]
        narrowed = [n for a in st for n in ast.walk(a.value)
                    if (isinstance(n, ast.keyword) and n.arg == "dtype" and any(k in ast.unparse(n.value) for k in NARROW)) or
                    (isinstance(n, ast.Call) and isinstance(n.func, ast.Attribute) and n.func.attr in ("astype", "view") and n.args and
                     any(k in ast.unparse(n.args[0]) for k in NARROW)) or
                    (isinstance(n, ast.Call) and ast.unparse(n.func).split(".")[-1] in ("float32", "float16", "int32", "int16", "single", "half"))]
        if not st:
            ctx.inconclusive("FLOW", "C12.trajectory.exact", "the trajectory is not stored by MSM.__init__", minit.where)
        elif narrowed:
            ctx.violate("FLOW", "C12.trajectory.exact", "the assigned trajectory is stored in a NARROWER number type: float32 represents integers "
                        "exactly only up to 2**24 (int32 up to 2**31), so on a grid with more cells a frame is credited to a neighbouring "
                        "cell index and the counts land in the wrong row / column", minit.where, ast.unparse(st[0])[:140],
                        witness="cell 16777217 stored as float32 reads back as 16777216")
        else:
            ctx.ok("FLOW", "C12.trajectory.exact", "the assigned trajectory is stored without narrowing its number type", minit.where)
    ctx.require_instances("LIN", 10, "linear-arithmetic obligations on the window code")
    ctx.require_instances("MIRROR", 4, "count emissions")
    ctx.trust(*META["trusted"])
    ctx.assume(*META["assumptions"])
