"""C13 — merging / deleting cells: ORD (order-kind pairing), PAIR (version stamps), DOM, sibling agreement."""
from __future__ import annotations

import ast

from ..alg import Poly
from ..interp import Interp, Hooks
from ..values import *
from .. import transfer as T
from ..model import AnalysisError, src, norm_stmt
from ..rules.ordkind import OrdAnalysis, Kind, ASC, DESC, UNORDERED, SETK, UNKNOWN

META = {
    "explanation": "Order-kind dataflow (ASC/DESC/UNORDERED/...) over merge_matrix_cells, delete_rate_cells and merge_sublists "
                   "decides that matrix axes and the index list are selected in one order on every path; version-stamp "
                   "analysis (abstract interpretation with the two lumping functions summarised) decides that "
                   "SQRA.cut_and_merge returns a matrix and an index list from the same version for all four limit "
                   "combinations; sqra_normalize is interpreted abstractly in its dense and sparse branch; the workflow "
                   "stores both results. All rules reason about code paths, hence about all matrices and all operation histories.",
    "decided": ["row/column selectors are ascending on every path (list(set-set) is flagged: hash order)",
                "index list is filtered with the same index set, order-preserving", "pops in descending order",
                "group representative = smallest member (groups ascending on both branches)", "modified groups re-sorted",
                "inputs are not mutated (deep copy before mutation)", "cut_and_merge returns (matrix, list) of one version",
                "deletion re-normalises with diagonal = -row sum in dense and sparse branch", "workflow stores matrix and list"],
    "not_decided": ["numerical equality of the lumped sums (P^T M P is delegated to scipy)", "transitive closure inside networkx"],
    "trusted": ["CPython: list(set) iterates in hash-slot order; sorted()/np.unique ascending", "networkx.connected_components",
                T.TABLE_VERSION],
    "assumptions": ["cell indices are non-negative ints"],
}

RM = "molgri.molecules.rate_merger"


def selector_sites(fn_node):
    """subscripts that select rows/columns with an index sequence: X[:, K], X[K, :], np.ix_(K, K)"""
    out = []
    for n in ast.walk(fn_node):
        if isinstance(n, ast.Subscript) and isinstance(n.slice, ast.Tuple) and len(n.slice.elts) == 2:
            a, b = n.slice.elts
            full = lambda s: isinstance(s, ast.Slice) and s.lower is None and s.upper is None and s.step is None
            if full(a) and not isinstance(b, ast.Slice):
                out.append((n, b, "columns"))
            elif full(b) and not isinstance(a, ast.Slice):
                out.append((n, a, "rows"))
        if isinstance(n, ast.Call) and isinstance(n.func, ast.Attribute) and n.func.attr == "ix_":
            for a in n.args:
                out.append((n, a, "ix_"))
    return out


def check_selectors(ctx, oa: OrdAnalysis, fi, minimum, tag):
    sites = selector_sites(fi.node)
    ctx.instance("ORD", len(sites))
    names = set()
    for node, k_expr, axis in sites:
        k = oa.expr_kind.get(id(k_expr))
        if k is None:
            ctx.inconclusive("ORD", f"{tag}.selector", "selector expression not reached by the order analysis", fi.where, src(node))
            continue
        if isinstance(k_expr, ast.Name):
            names.add(k_expr.id)
        if k.order == ASC:
            ctx.ok("ORD", f"{tag}.selector.{axis}", f"{axis} of the matrix are selected in ascending order", fi.where, src(node),
                   derived=f"{src(k_expr)}: ASC ({k.why})")
        elif k.order in (UNORDERED, SETK):
            ctx.violate("ORD", f"{tag}.selector.{axis}", f"{axis} of the matrix are selected in the iteration order of a set "
                        "while the index list keeps ascending row order: matrix rows and index list disagree when the kept "
                        "indices are sparse in the hash table (e.g. keep {90..99} of 100 -> 96,..,99,90,..,95)", fi.where,
                        src(node), witness=f"{src(k_expr)}: {k.order} ({k.why})",
                        key=f"ORD|molgri/molecules/rate_merger.py|to_keep = list(set - set)")
        elif k.order == DESC:
            ctx.violate("ORD", f"{tag}.selector.{axis}", f"{axis} selected in descending order against an ascending index list",
                        fi.where, src(node), witness=f"{src(k_expr)}: DESC ({k.why})")
        else:
            ctx.inconclusive("ORD", f"{tag}.selector.{axis}", f"order of the {axis} selector is not derivable", fi.where, src(node),
                             witness=f"{src(k_expr)}: {k.order} ({k.why})")
    if len(sites) < minimum:
        ctx.inconclusive("ORD", f"{tag}.selector.count", f"expected at least {minimum} row/column selector(s) in {fi.name}", fi.where,
                         witness=f"found {len(sites)}")
    return names


def check_no_input_mutation(ctx, oa, fi, tag, params):
    ctx.instance("OWN")
    bad = [e for e in oa.events if e[0] == "mutates_alias" and (e[3] & set(params))]
    if bad:
        for e in bad:
            ctx.violate("OWN", f"{tag}.input_mutation", f"in-place {e[4]} on a value that may share storage with the caller's "
                        f"argument {sorted(e[3] & set(params))}: the caller's index list is modified", fi.where, src(e[2]),
                        witness="no deep copy between the parameter and the mutated container")
    else:
        ctx.ok("OWN", f"{tag}.input_mutation", f"no in-place mutation reaches the caller's {', '.join(params)} (deep-copied first)",
               fi.where)


def lump_product(ctx, fm):
    """LUMP: the matrix returned by merge_matrix_cells is, as a matrix expression, P^T · M · P (M the input matrix, P the merge
    matrix): a word over matrix atoms with transposition flags is propagated through dot / @ / .T / format conversions."""
    import ast as _a
    params = fm.params()
    M = params[0] if params else "my_matrix"
    CONV = {"tocsc", "tocsr", "tocoo", "todense", "toarray", "astype", "copy", "asformat", "tolil", "todok"}

    def T(word):
        return [(a_, not t_) for a_, t_ in reversed(word)]

    def ev(e, env):
        if isinstance(e, _a.Name):
            return env.get(e.id, [(e.id, False)])
        if isinstance(e, _a.Attribute) and e.attr == "T":
            w = ev(e.value, env)
            return T(w) if w is not None else None
        if isinstance(e, _a.Subscript):
            return ev(e.value, env)
        if isinstance(e, _a.BinOp) and isinstance(e.op, _a.MatMult):
            a_, b_ = ev(e.left, env), ev(e.right, env)
            return a_ + b_ if a_ is not None and b_ is not None else None
        if isinstance(e, _a.Call) and isinstance(e.func, _a.Attribute):
            if e.func.attr in ("dot", "__matmul__") and len(e.args) == 1:
                a_, b_ = ev(e.func.value, env), ev(e.args[0], env)
                return a_ + b_ if a_ is not None and b_ is not None else None
            if e.func.attr == "transpose" and not e.args:
                w = ev(e.func.value, env)
                return T(w) if w is not None else None
            if e.func.attr in CONV:
                return ev(e.func.value, env)
            d = src(e.func)
            if d in ("np.dot", "np.matmul", "numpy.dot", "numpy.matmul") and len(e.args) == 2:
                a_, b_ = ev(e.args[0], env), ev(e.args[1], env)
                return a_ + b_ if a_ is not None and b_ is not None else None
            if d in ("np.transpose", "numpy.transpose") and len(e.args) == 1:
                w = ev(e.args[0], env)
                return T(w) if w is not None else None
            if d in ("np.asarray", "np.array", "numpy.asarray", "numpy.array") and e.args:
                return ev(e.args[0], env)
        if isinstance(e, _a.Call) and isinstance(e.func, _a.Name) and e.func.id in ("csr_array", "csc_array", "coo_array", "csr_matrix") and \
                len(e.args) == 1 and isinstance(e.args[0], _a.Name):
            return ev(e.args[0], env)
        return None

    SPARSE_CTORS = ("csr_array", "csc_array", "coo_array", "csr_matrix", "csc_matrix", "coo_matrix")

    def triplet_ctor(e):
        """coo_array((data, (rows, cols)) [, shape=...]) possibly followed by format conversions -> (call, has_shape) else None"""
        while isinstance(e, _a.Call) and isinstance(e.func, _a.Attribute) and e.func.attr in CONV:
            e = e.func.value
        if isinstance(e, _a.Call) and src(e.func).split(".")[-1] in SPARSE_CTORS and e.args and isinstance(e.args[0], _a.Tuple) and \
                len(e.args[0].elts) == 2 and isinstance(e.args[0].elts[1], _a.Tuple):
            return e, (len(e.args) >= 2 or any(k.arg == "shape" for k in e.keywords))
        return None

    def linear_paths(stmts, budget=[64]):
        """straight-line statement sequences of the body, one per combination of branch choices; a path ends at its Return"""
        paths = [([], [], False)]                      # (statements, branch conditions taken, terminated)
        for st in stmts:
            nxt = []
            for seq, conds, done in paths:
                if done:
                    nxt.append((seq, conds, done))
                elif isinstance(st, _a.If):
                    for branch, tag in ((st.body, src(st.test)), (st.orelse, "not (" + src(st.test) + ")")):
                        for bseq, bconds, bdone in linear_paths(branch, budget):
                            nxt.append((seq + bseq, conds + [tag] + bconds, bdone))
                elif isinstance(st, (_a.For, _a.While, _a.With)):
                    for bseq, bconds, bdone in linear_paths(st.body, budget):
                        nxt.append((seq + bseq, conds + bconds, False))
                elif isinstance(st, _a.Try):
                    for bseq, bconds, bdone in linear_paths(st.body + st.finalbody, budget):
                        nxt.append((seq + bseq, conds + bconds, bdone))
                elif isinstance(st, _a.Return):
                    nxt.append((seq + [st], conds, True))
                else:
                    nxt.append((seq + [st], conds, False))
            paths = nxt
            if len(paths) > budget[0]:
                raise OverflowError
        return paths

    def run_path(seq):
        env, triplets = {}, {}
        for st in seq:
            if isinstance(st, _a.Assign) and len(st.targets) == 1 and isinstance(st.targets[0], _a.Name):
                nm = st.targets[0].id
                tc = triplet_ctor(st.value)
                if tc is not None:
                    env.pop(nm, None)
                    triplets[nm] = (st, tc[1])
                    continue
                w = ev(st.value, env)
                if not (w is not None and len(w) == 1 and w[0][0] == nm):
                    triplets.pop(nm, None)
                if w is not None and len(w) >= 2:
                    env[nm] = w
                elif w is not None and len(w) == 1 and w[0][0] != nm:
                    env[nm] = w                     # alias / transposed alias of another matrix
                    if w[0][0] in triplets:
                        triplets[nm] = triplets[w[0][0]]
                elif w is not None and len(w) == 1:
                    if w[0][1]:
                        env[nm] = w                 # X = X.T
                else:
                    env[nm] = None                  # not a matrix word
            elif isinstance(st, _a.Return) and st.value is not None:
                v = st.value.elts[0] if isinstance(st.value, _a.Tuple) and st.value.elts else st.value
                tc = triplet_ctor(v)
                if tc is not None:
                    return None, (st, tc[1])
                if isinstance(v, _a.Name) and v.id in env and env[v.id] is None:
                    return None, None
                w = ev(v, {k_: w_ for k_, w_ in env.items() if w_ is not None}) if not any(
                    isinstance(n_, _a.Name) and n_.id in env and env[n_.id] is None for n_ in _a.walk(v)) else None
                if w is not None and len(w) == 1 and w[0][0] in triplets and not w[0][1]:
                    return None, triplets[w[0][0]]
                return w, None
        return "no-return", None

    ctx.instance("LUMP")
    try:
        paths = linear_paths(fm.node.body)
    except OverflowError:
        ctx.inconclusive("LUMP", "C13.merge.product", "too many branch combinations in merge_matrix_cells", fm.where)
        return
    words, unknown = [], []
    for seq, conds, done in paths:
        w, trip = run_path(seq)
        if w == "no-return":
            continue
        if trip is not None and not trip[1]:
            ctx.violate("LUMP", "C13.merge.product", "on a path the returned matrix is built directly from (data, (rows, cols)) triplets WITHOUT a "
                        "shape: its shape is inferred from the stored entries, so surviving cells without stored entries (isolated cells at the "
                        "end) vanish and the matrix no longer has one row per index group (and differs from the dense result)", fm.where,
                        norm_stmt(trip[0]), witness="path: " + (" and ".join(conds) if conds else "unconditional"))
            return
        if w is None:
            unknown.append(conds)
        else:
            words.append(w)
    def show(w):
        return " · ".join(a_ + ("^T" if t_ else "") for a_, t_ in w)
    if not words or unknown:
        ctx.inconclusive("LUMP", "C13.merge.product", "the returned matrix is not derived as a product of matrices" +
                         (" on the path " + " and ".join(unknown[0]) if unknown and unknown[0] else ""), fm.where)
        return
    words = [w for k_, w in enumerate(words) if w not in words[:k_]]
    for w in words:
        prod = [x for x in w]
        if len(prod) == 1 and prod[0] == (M, False):
            continue            # nothing to merge: input returned
        good = len(prod) == 3 and prod[1] == (M, False) and prod[0][0] == prod[2][0] and prod[0][0] != M and prod[0][1] is True and prod[2][1] is False
        if good:
            ctx.ok("LUMP", "C13.merge.product", f"lumped matrix = {show(prod)} (rows and columns summed with the same merge matrix)", fm.where,
                   derived=show(prod))
        elif len(prod) == 3 and sorted(a_ for a_, _ in prod).count(M) == 1 and len({a_ for a_, _ in prod}) == 2:
            ctx.violate("LUMP", "C13.merge.product", "the lumped matrix is not P^T · M · P: entry (A,B) is not the sum of the original entries "
                        "over i in A, j in B (for a non-symmetric rate matrix rows no longer sum to zero)", fm.where,
                        "result = merge_matrix.T.dot(my_matrix.dot(merge_matrix))", witness=f"derived {show(prod)}")
        else:
            ctx.inconclusive("LUMP", "C13.merge.product", "form of the lumping product not recognised", fm.where, witness=show(prod))


def run(ctx, repo, tier):
    fm = repo.func(RM, "merge_matrix_cells")
    lump_product(ctx, fm)
    fd = repo.func(RM, "delete_rate_cells")
    fs = repo.func(RM, "merge_sublists")
    fn = repo.func(RM, "sqra_normalize")
    for f in (fm, fd, fs, fn):
        ctx.analysed(f)

    # ------------------------------------------------------------ merge_sublists: sorted groups
    oa_s = OrdAnalysis(repo, fs).run()
    ctx.instance("ORD")
    rk = None
    for _, k, _ in oa_s.returns:
        rk = k if rk is None else k
    inner = rk.inner if rk else None
    if inner is not None and inner.order == ASC:
        ctx.ok("ORD", "C13.sublists.sorted", "merge_sublists returns groups whose members are ascending", fs.where,
               derived=f"return kind inner={inner.order} ({inner.why})")
    elif inner is not None and inner.order in (UNORDERED, SETK):
        ctx.violate("ORD", "C13.sublists.sorted", "merge_sublists returns groups in set iteration order (not sorted)", fs.where,
                    "return [...]", witness=f"inner kind {inner.order} ({inner.why})")
    else:
        ctx.inconclusive("ORD", "C13.sublists.sorted", "order of the groups returned by merge_sublists not derivable", fs.where,
                         witness=str(rk))
    # uses connected components of a graph built from ALL sublists
    cc_calls = [n for n in ast.walk(fs.node) if isinstance(n, ast.Call) and (repo.dotted_of(fs.module, n.func) or "").endswith("connected_components")]
    ctx.instance("FLOW")
    ctx.check(len(cc_calls) >= 1, "FLOW", "C13.sublists.closure", "transitive closure is delegated to connected components "
              "(networkx)", fs.where, "connected_components(G)", witness="no connected_components call")
    check_no_input_mutation(ctx, oa_s, fs, "C13.sublists", ["input_list"])
    # every sub-list contributes its nodes and its consecutive edges, unconditionally (otherwise the closure is not transitive)
    # candidate helper functions: nested definitions and module-level functions reachable from merge_sublists by name
    reach_, todo_ = [], [fs.node]
    while todo_:
        cur_ = todo_.pop()
        for c_ in ast.walk(cur_):
            if isinstance(c_, ast.Call) and isinstance(c_.func, ast.Name):
                g_ = fs.module.functions.get(c_.func.id)
                if g_ is not None and g_.cls is None and g_.node not in reach_ and g_.node is not fs.node:
                    reach_.append(g_.node)
                    todo_.append(g_.node)
                    ctx.analysed(g_)
    helper_defs = [n for n in ast.walk(fs.node) if isinstance(n, ast.FunctionDef) and n is not fs.node] + reach_
    builders = [n for n in helper_defs if
                any(isinstance(c, ast.Call) and isinstance(c.func, ast.Attribute) and c.func.attr in ("add_edges_from", "add_edge") for c in ast.walk(n))]
    ctx.instance("DOM")
    if len(builders) != 1:
        ctx.inconclusive("DOM", "C13.sublists.graph", "graph construction of merge_sublists not recognised", fs.where, witness=f"{len(builders)} builder functions")
    else:
        b = builders[0]
        loops = [n for n in b.body if isinstance(n, ast.For)]
        if len(loops) != 1:
            ctx.inconclusive("DOM", "C13.sublists.graph", "expected one loop over the sub-lists", fs.where)
        else:
            lp = loops[0]
            part = lp.target.id if isinstance(lp.target, ast.Name) else None
            top_calls = [st.value for st in lp.body if isinstance(st, ast.Expr) and isinstance(st.value, ast.Call)]
            nodes_ok = any(isinstance(c.func, ast.Attribute) and c.func.attr == "add_nodes_from" and c.args and src(c.args[0]) == part for c in top_calls)
            edges_ok = any(isinstance(c.func, ast.Attribute) and c.func.attr == "add_edges_from" and c.args and part in src(c.args[0]) for c in top_calls)
            skips = [n for n in ast.walk(lp) if isinstance(n, (ast.Continue, ast.Break, ast.Return))]
            conds = [n for n in lp.body if isinstance(n, ast.If)]
            if nodes_ok and edges_ok and not skips:
                ctx.ok("DOM", "C13.sublists.graph", "every sub-list adds its members and its consecutive pairs to the closure graph, "
                       "unconditionally", fs.where, src(lp)[:160])
            elif skips or conds:
                ctx.violate("DOM", "C13.sublists.graph", "some sub-lists are skipped / only conditionally added when the closure graph is built: a "
                            "sub-list that bridges two groups introduced by earlier sub-lists is lost, so the result depends on the order of "
                            "the join lists", fs.where, src(lp)[:200],
                            witness="e.g. [[0,4],[1,2],[2,4]] -> [[0,4],[1,2]] instead of [[0,1,2,4]]")
            else:
                ctx.inconclusive("DOM", "C13.sublists.graph", "graph construction idiom not recognised", fs.where, src(lp)[:200])
    edge_fns = [n for n in helper_defs if any(isinstance(c, ast.Yield) for c in ast.walk(n))]
    if len(edge_fns) == 1:
        ef = edge_fns[0]
        ys = [n for n in ast.walk(ef) if isinstance(n, ast.Yield)]
        floops = [n for n in ef.body if isinstance(n, ast.For)]
        ok = len(ys) == 1 and len(floops) == 1 and isinstance(ys[0].value, ast.Tuple) and len(ys[0].value.elts) == 2 and \
            not any(isinstance(n, (ast.If, ast.Continue, ast.Break)) for n in ast.walk(floops[0]))
        if ok:
            cur = floops[0].target.id if isinstance(floops[0].target, ast.Name) else None
            a, b2 = (src(x) for x in ys[0].value.elts)
            upd = [n for n in floops[0].body if isinstance(n, ast.Assign) and isinstance(n.targets[0], ast.Name) and src(n.value) == cur]
            ok = cur in (a, b2) and bool(upd) and upd[0].targets[0].id in (a, b2) and upd[0].targets[0].id != cur
        ctx.instance("DOM")
        ctx.check(ok, "DOM", "C13.sublists.edges", "the edges of a sub-list are all consecutive pairs (a chain connecting every member)", fs.where,
                  src(ef)[-160:], witness="edge generator is conditional or does not chain consecutive members")

    # ------------------------------------------------------------ merge_matrix_cells
    oa_m = OrdAnalysis(repo, fm).run()
    sel_names = check_selectors(ctx, oa_m, fm, 1, "C13.merge")
    check_no_input_mutation(ctx, oa_m, fm, "C13.merge", ["index_list", "all_to_join", "my_matrix"])
    # RE-INDEX: with an existing index list every listed cell is looked up in WHICHEVER group contains it (groups interleave after
    # merges: [[0, 3], [1], ...]); a lookup that assumes groups are contiguous ranges (binary search over first members) misses
    # non-first members and silently skips their merge
    ctx.instance("CANDIDATES")
    lookups = []
    for fn_, node_ in [(fm, fm.node), (fd, fd.node)]:
        for c_ in ast.walk(node_):
            if isinstance(c_, ast.Call) and isinstance(c_.func, ast.Name) and fm.module.functions.get(c_.func.id) is not None and \
                    any(isinstance(a_, ast.Name) and "index_list" in a_.id for a_ in c_.args):
                g_ = fm.module.functions[c_.func.id]
                if g_.name in ("merge_sublists", "merge_matrix_cells", "delete_rate_cells", "sqra_normalize"):
                    continue
                lookups.append((fn_, c_, g_))
    def closure_src(g0):
        seen_, todo_, out_ = {g0.name}, [g0], []
        while todo_:
            g1 = todo_.pop()
            out_.append(g1)
            for c1 in ast.walk(g1.node):
                if isinstance(c1, ast.Call) and isinstance(c1.func, ast.Name):
                    g2 = fm.module.functions.get(c1.func.id)
                    if g2 is not None and g2.cls is None and g2.name not in seen_ and g2.name not in ("merge_sublists", "merge_matrix_cells", "delete_rate_cells"):
                        seen_.add(g2.name)
                        todo_.append(g2)
        return out_
    bad_l = []
    for fn_, c_, g_ in lookups:
        ctx.analysed(g_)
        txt_ = " ".join(src(h_.node) for h_ in closure_src(g_))
        if "bisect" in txt_ or "searchsorted" in txt_:
            bad_l.append((fn_, c_, g_))
    if bad_l:
        fn_, c_, g_ = bad_l[0]
        ctx.violate("CANDIDATES", "C13.merge.reindex", f"cells are located in the index list by a binary search over the groups' first members "
                    f"({g_.name}): groups interleave after a merge ([[0, 3], [1], ...]), a non-first member of such a group is reported as "
                    "absent and its merge / deletion is silently skipped", fn_.where, src(c_)[:140],
                    witness="index_list=[[0, 3], [1], [2]], cell 3: bisect over first members [0, 1, 2] lands on group [2]")
    elif lookups:
        full = all(any(isinstance(x_, ast.ListComp) and any(isinstance(y_, ast.Compare) and isinstance(y_.ops[0], ast.In) for y_ in ast.walk(x_))
                       for h_ in closure_src(g_) for x_ in ast.walk(h_.node)) for _, _, g_ in lookups)
        if full:
            ctx.ok("CANDIDATES", "C13.merge.reindex", "cells are located by a membership scan over ALL groups of the index list", fm.where,
                   src(lookups[0][1])[:120])
        else:
            ctx.inconclusive("CANDIDATES", "C13.merge.reindex", "lookup of cells in the index list not recognised", fm.where, src(lookups[0][1])[:120])
    else:
        ctx.inconclusive("CANDIDATES", "C13.merge.reindex", "no lookup of cells in the index list found", fm.where)
    # group representative: g[0] / g[1:] on group variables must see ascending groups
    rep_sites = []
    for n in ast.walk(fm.node):
        if isinstance(n, ast.Subscript) and isinstance(n.value, ast.Name):
            sl = n.slice
            is0 = isinstance(sl, ast.Constant) and sl.value == 0
            is1 = isinstance(sl, ast.Slice) and isinstance(sl.lower, ast.Constant) and sl.lower.value == 1 and sl.upper is None
            if is0 or is1:
                rep_sites.append(n)
    # the same split written as star-unpacking:  for first, *rest in GROUPS
    star_loops = [lp for lp in ast.walk(fm.node) if isinstance(lp, ast.For) and isinstance(lp.target, ast.Tuple) and len(lp.target.elts) == 2 and
                  isinstance(lp.target.elts[0], ast.Name) and isinstance(lp.target.elts[1], ast.Starred)]
    class _Split:
        """adapter: a star-unpacking loop seen as the split site `G[i][0]` / `G[i][1:]`"""
        def __init__(self, lp):
            self.value, self.slice, self._lp = lp.iter, ast.Constant(value=0), lp
    ctx.instance("ORD", len(rep_sites) + len(star_loops))
    for n in rep_sites + [_Split(lp) for lp in star_loops]:
        k = oa_m.expr_kind.get(id(n.value))
        if isinstance(n, _Split):
            k = k.inner if k is not None else None
        what = "representative (first member)" if isinstance(n.slice, ast.Constant) else "merged members (rest)"
        if isinstance(n, _Split):
            what = "representative and rest (star-unpacked)"
        if k is None:
            if isinstance(n, _Split):
                ctx.inconclusive("ORD", "C13.merge.representative", "order of the star-unpacked groups is not derivable", fm.where, src(n._lp.target))
            continue
        ntxt = f"for {src(n._lp.target)} in {src(n.value)}" if isinstance(n, _Split) else src(n)
        if k.order == ASC:
            ctx.ok("ORD", "C13.merge.representative", f"group split `{ntxt}` acts on an ascending group: {what} is relative "
                   "to the smallest current row", fm.where, ntxt, derived=f"{src(n.value)}: ASC ({k.why})")
        elif k.order in (UNORDERED, SETK, DESC):
            ctx.violate("ORD", "C13.merge.representative", f"group split `{ntxt}` acts on a group that is not ascending: the "
                        "merged cell is not placed at the smallest index", fm.where, ntxt, witness=f"{src(n.value)}: {k.order} ({k.why})")
        elif _unordered_construction(k):
            ctx.violate("ORD", "C13.merge.representative", f"group split `{ntxt}` acts on a group built without any ordering "
                        "operation on some path", fm.where, ntxt, witness=f"{src(n.value)}: {k.order} ({k.why})")
        else:
            ctx.inconclusive("ORD", "C13.merge.representative", f"order of the group in `{ntxt}` is not derivable on every path",
                             fm.where, ntxt, witness=f"{src(n.value)}: {k.order} ({k.why})")
    # CLOSED: the groups that are split into representative + rest must be disjoint and non-empty in the index space of the matrix
    # rows: guaranteed only for the output of merge_sublists (transitive closure) on every path
    grp_lists = []
    for n in ast.walk(fm.node):
        if isinstance(n, ast.ListComp) and len(n.generators) == 1 and isinstance(n.generators[0].target, ast.Name):
            tv = n.generators[0].target.id
            if isinstance(n.elt, ast.Subscript) and isinstance(n.elt.value, ast.Name) and n.elt.value.id == tv and \
                    isinstance(n.elt.slice, ast.Constant) and n.elt.slice.value == 0:
                grp_lists.append(n.generators[0].iter)
    grp_lists += [lp.iter for lp in star_loops]
    ctx.instance("OWN", len(grp_lists))
    for gexpr in grp_lists:
        k = oa_m.expr_kind.get(id(gexpr))
        if k is None:
            continue
        if "closed" in k.tags:
            ctx.ok("OWN", "C13.merge.closed", "the groups used to build the merge matrix are the output of merge_sublists on every path "
                   "(disjoint, non-empty, transitively closed in the row index space)", fm.where, src(gexpr))
        else:
            ctx.violate("OWN", "C13.merge.closed", "on the path with an existing index list the re-indexed groups are not re-closed: groups "
                        "that became overlapping (joined only through an existing merged group) or empty (all members already deleted) "
                        "reach the merge-matrix construction", fm.where, src(gexpr),
                        witness="e.g. index_list=[[0],[1,2],[3]], all_to_join=[[0,2],[1,3]] -> rows [0,1] and [1,2] overlap; "
                                "index_list=[[0],[2]], all_to_join=[[1,3]] -> empty group, to_join[0] raises IndexError",
                        key="OWN|molgri/molecules/rate_merger.py:merge_matrix_cells|re-indexed groups not re-closed")
    has_first = any(isinstance(n.slice, ast.Constant) for n in rep_sites)
    has_rest = any(isinstance(n.slice, ast.Slice) for n in rep_sites)
    if not (has_first and has_rest) and not star_loops:
        ctx.inconclusive("ORD", "C13.merge.representative.count", "expected the representative/rest split of the groups (g[0] and g[1:])",
                         fm.where, witness=f"found {len(rep_sites)}")
    # pops: for v in IT: L.pop(v)   => IT descending
    pops = [e for e in oa_m.events if e[0] == "pop" and e[4]]
    ctx.instance("ORD", len(pops))
    for _, tgt, call, args, loops in pops:
        loop = loops[-1]
        if isinstance(loop, ast.For) and call.args and isinstance(call.args[0], ast.Name) and isinstance(loop.target, ast.Name) \
                and call.args[0].id == loop.target.id:
            k = oa_m.expr_kind.get(id(loop.iter))
            outer = [lp for lp in loops[:-1] if isinstance(lp, ast.For)]
            onames = {x.id for lp in outer for x in ast.walk(lp.target) if isinstance(x, ast.Name)}
            if outer and onames & {x.id for x in ast.walk(loop.iter) if isinstance(x, ast.Name)}:
                # the pops are issued batch by batch (one batch per group): whatever the order inside a batch, the positions of a later
                # batch were computed before the earlier batch shifted the list, and groups may interleave
                ctx.violate("ORD", "C13.merge.pops", "positions are popped group by group with the positions computed beforehand: a batch "
                            "shifts the positions of every later batch that lies above it (descending inside one group does not make the "
                            "whole sequence descending)", fm.where,
                            f"for {src(outer[-1].target)} in {src(outer[-1].iter)}: for {src(loop.target)} in {src(loop.iter)}: {tgt}.pop(...)",
                            witness="e.g. 7 cells, all_to_join=[[0,4],[1,2]]: popping 2 for the second group first moves row 4 to position 3")
            elif k is not None and k.order == DESC:
                ctx.ok("ORD", "C13.merge.pops", "positions are popped in descending order (earlier pops do not shift later ones)",
                       fm.where, src(loop.iter), derived=f"{k.why}")
            elif k is not None and k.order in (ASC, UNORDERED, SETK):
                ctx.violate("ORD", "C13.merge.pops", "positions are popped from the index list in an order that is not descending: "
                            "every pop shifts the positions still to be removed", fm.where, f"for {src(loop.target)} in {src(loop.iter)}: "
                            f"{tgt}.pop(...)", witness=f"{src(loop.iter)}: {k.order} ({k.why})")
            elif k is not None and _unordered_construction(k):
                ctx.violate("ORD", "C13.merge.pops", "positions are popped in the reverse of an order that was never established: "
                            "no sort lies on the path from the construction of the position list to the pops", fm.where,
                            f"for {src(loop.target)} in {src(loop.iter)}: {tgt}.pop(...)", witness=f"{src(loop.iter)}: {k.order} ({k.why})")
            else:
                ctx.inconclusive("ORD", "C13.merge.pops", "order of the popped positions not derivable", fm.where, src(loop.iter),
                                 witness=str(k))
    if not pops:
        ctx.inconclusive("ORD", "C13.merge.pops.count", "no pop of merged positions from the index list found", fm.where)
    # popped set == set removed from the kept columns
    pop_iter_names = set()
    for _, tgt, call, args, loops in pops:
        for nn in ast.walk(loops[-1].iter):
            if isinstance(nn, ast.Name):
                pop_iter_names.add(nn.id)
    keep_defs = [n for n in ast.walk(fm.node) if isinstance(n, ast.Assign) and len(n.targets) == 1 and
                 isinstance(n.targets[0], ast.Name) and n.targets[0].id in sel_names]
    ctx.instance("PAIR")
    if keep_defs and pop_iter_names:
        used = {nn.id for d in keep_defs for nn in ast.walk(d.value) if isinstance(nn, ast.Name)}
        ctx.check(bool(used & pop_iter_names), "PAIR", "C13.merge.same_set", "the positions popped from the index list are the very "
                  "set subtracted from the kept columns", fm.where, norm_stmt(keep_defs[0]),
                  witness=f"kept-columns definition uses {sorted(used)}, pops iterate over {sorted(pop_iter_names)}")
    # modified groups re-sorted
    # a group may be addressed through a local alias:  g = index_list[c]; g.extend(..); g.sort()
    alias_sub = {n.targets[0].id for n in ast.walk(fm.node) if isinstance(n, ast.Assign) and len(n.targets) == 1 and
                 isinstance(n.targets[0], ast.Name) and isinstance(n.value, ast.Subscript) and not isinstance(n.value.slice, ast.Slice)}
    # a group of the index list is a subscript of a list name (`internal_index_list[ci]`) or an alias of one; a dict built locally as a
    # lookup table (`rows_of_cell.setdefault(cell, []).append(row)`) is not a group
    import re as _re
    local_dicts = {n.targets[0].id for n in ast.walk(fm.node) if isinstance(n, ast.Assign) and len(n.targets) == 1 and
                   isinstance(n.targets[0], ast.Name) and (isinstance(n.value, (ast.Dict, ast.DictComp)) or
                                                           (isinstance(n.value, ast.Call) and src(n.value.func) in ("dict", "defaultdict", "collections.defaultdict")))}
    ext = [e for e in oa_m.events if e[0] in ("extend", "append") and e[4] and
           ((_re.match(r"^\w+\[", e[1]) and e[1].split("[")[0] not in local_dicts) or e[1] in alias_sub)]
    sorts = [e for e in oa_m.events if e[0] == "sort"]
    ctx.instance("DOM", len(ext))
    for e in ext:
        tgt, call, loops = e[1], e[2], e[4]
        ok = any(s[1] == tgt and s[3] == ASC and s[2].lineno > call.lineno and s[4] == loops[:len(s[4])] and len(s[4]) >= 1
                 for s in sorts)
        ctx.check(ok, "DOM", "C13.merge.resort", f"group `{tgt}` is re-sorted after members are added to it", fm.where, src(call),
                  witness=f"no `{tgt}.sort()` follows the extension inside the same iteration")
    # a group may also be REPLACED by the concatenation of groups:  L[c] = [x for r in rows for x in L[r]]  /  L[a] + L[b]  /  sum(.., [])
    concat = []
    for n in ast.walk(fm.node):
        if isinstance(n, ast.Assign) and len(n.targets) == 1 and isinstance(n.targets[0], ast.Subscript) and isinstance(n.targets[0].value, ast.Name) and \
                n.targets[0].value.id not in local_dicts and not isinstance(n.targets[0].slice, ast.Slice):
            base = n.targets[0].value.id
            v = n.value
            inner = v
            sorted_wrap = False
            while isinstance(inner, ast.Call) and src(inner.func) in ("sorted", "list", "np.sort", "numpy.sort") and inner.args:
                sorted_wrap = sorted_wrap or src(inner.func) in ("sorted", "np.sort", "numpy.sort")
                inner = inner.args[0]
            reads_groups = any(isinstance(x, ast.Subscript) and isinstance(x.value, ast.Name) and x.value.id == base for x in ast.walk(inner))
            flattening = (isinstance(inner, (ast.ListComp, ast.GeneratorExp)) and len(inner.generators) >= 2) or \
                (isinstance(inner, ast.BinOp) and isinstance(inner.op, ast.Add)) or \
                (isinstance(inner, ast.Call) and src(inner.func).split(".")[-1] in ("sum", "chain", "from_iterable", "concatenate", "hstack"))
            if reads_groups and flattening:
                concat.append((n, src(n.targets[0]), sorted_wrap))
    for n, tgt, sorted_wrap in concat:
        ctx.instance("DOM")
        lp = getattr(n, "_parent", None)
        while lp is not None and not isinstance(lp, (ast.For, ast.While, ast.FunctionDef)):
            lp = getattr(lp, "_parent", None)
        later_sort = any(isinstance(c, ast.Call) and isinstance(c.func, ast.Attribute) and c.func.attr == "sort" and src(c.func.value) == tgt and
                         c.lineno > n.lineno for c in ast.walk(lp if lp is not None else fm.node))
        if sorted_wrap or later_sort:
            ctx.ok("DOM", "C13.merge.resort", f"group `{tgt}` is rebuilt from the joined groups and sorted", fm.where, norm_stmt(n)[:140])
        else:
            ctx.violate("DOM", "C13.merge.resort", f"group `{tgt}` is rebuilt by chaining the joined groups without sorting: each group is sorted, "
                        "their concatenation is not when the groups interleave (a group from an earlier merge holding a cell larger than the "
                        "smallest cell of the group it is joined with), so the index list no longer consists of sorted groups", fm.where,
                        norm_stmt(n)[:140], witness="merge [[0,2]] then [[0,1]] on 4 cells gives [[0,2,1],[3]]")
    if not ext and not concat:
        ctx.inconclusive("DOM", "C13.merge.resort.count", "no extension of a group of the index list found", fm.where)
    # returned pair
    _check_return_pair(ctx, oa_m, fm, "C13.merge")

    # ------------------------------------------------------------ delete_rate_cells
    oa_d = OrdAnalysis(repo, fd).run()
    sel_d = check_selectors(ctx, oa_d, fd, 2, "C13.delete")
    check_no_input_mutation(ctx, oa_d, fd, "C13.delete", ["index_list", "to_remove", "my_matrix"])
    _check_return_pair(ctx, oa_d, fd, "C13.delete")
    # index list filtered with the same selector, order preserving
    ret = [r for r in oa_d.returns if r[2] is not None and len(r[2]) == 2]
    ctx.instance("PAIR")
    if ret:
        node, _, tup = ret[-1]
        lk = tup[1]
        second = node.value.elts[1]
        # find the defining comprehension of the returned list
        comp = None
        if isinstance(second, ast.Name):
            best = -1
            for n in ast.walk(fd.node):
                if isinstance(n, ast.Assign) and len(n.targets) == 1 and isinstance(n.targets[0], ast.Name) and \
                        n.targets[0].id == second.id and n.lineno < node.lineno and n.lineno > best:
                    best = n.lineno
                    v = n.value
                    while isinstance(v, ast.Subscript) and isinstance(v.slice, ast.Slice):
                        v = v.value
                    comp = v if isinstance(v, ast.ListComp) else None
        if comp is not None:
            conds = [c for g in comp.generators for c in g.ifs]
            names = {nn.id for c in conds for nn in ast.walk(c) if isinstance(nn, ast.Name)}
            # names that denote the same SET of indices: x = sorted(y) / list(y) / set(y) / tuple(y) / np.array(y) / np.unique(y)
            same = {}
            for n_ in ast.walk(fd.node):
                if isinstance(n_, ast.Assign) and len(n_.targets) == 1 and isinstance(n_.targets[0], ast.Name) and isinstance(n_.value, ast.Call) \
                        and src(n_.value.func).split(".")[-1] in ("sorted", "list", "set", "tuple", "frozenset", "array", "asarray", "unique") and \
                        len(n_.value.args) == 1 and isinstance(n_.value.args[0], ast.Name):
                    same.setdefault(n_.targets[0].id, set()).add(n_.value.args[0].id)
                    same.setdefault(n_.value.args[0].id, set()).add(n_.targets[0].id)
            closure = set(sel_d)
            grew = True
            while grew:
                grew = False
                for x_ in list(closure):
                    for y_ in same.get(x_, ()):
                        if y_ not in closure:
                            closure.add(y_)
                            grew = True
            ctx.check(bool(names & closure), "PAIR", "C13.delete.same_set", "the index list is filtered with the same index set that "
                      "selects the matrix rows/columns", fd.where, src(comp), witness=f"filter uses {sorted(names)}, selectors use {sorted(sel_d)}")
            ctx.check("order-preserving filter" in lk.why and "reversed" not in lk.why, "ORD", "C13.delete.list_order", "the index list keeps its order while "
                      "entries are dropped", fd.where, src(comp), witness=f"kind: {lk.order} ({lk.why})")
        else:
            ctx.inconclusive("PAIR", "C13.delete.same_set", "definition of the returned index list not recognised", fd.where, src(node))
    # normalisation applied to the reduced matrix and returned
    norm_calls = [n for n in ast.walk(fd.node) if isinstance(n, ast.Call) and isinstance(n.func, ast.Name) and n.func.id == "sqra_normalize"]
    ctx.instance("DOM")
    if norm_calls and ret:
        first = ret[-1][0].value.elts[0]
        assigned = [n for n in ast.walk(fd.node) if isinstance(n, ast.Assign) and n.value in norm_calls]
        ok = bool(assigned) and isinstance(first, ast.Name) and any(isinstance(a.targets[0], ast.Name) and a.targets[0].id == first.id for a in assigned)
        last_sel = max((s[0].lineno for s in selector_sites(fd.node)), default=0)
        ok = ok and all(c.lineno > last_sel for c in norm_calls)
        ctx.check(ok, "DOM", "C13.delete.renormalise", "the reduced matrix is re-normalised (after the row/column selection) and that "
                  "matrix is returned", fd.where, "result = sqra_normalize(result)", witness="normalisation missing, early, or its result not returned")
    else:
        ctx.violate("DOM", "C13.delete.renormalise", "deletion does not re-normalise the diagonal", fd.where, "sqra_normalize(...)",
                    witness="no call to sqra_normalize on the path to the return")

    # ------------------------------------------------------------ sqra_normalize, dense and sparse sibling
    for mode in ("sparse", "dense"):
        interp = Interp(repo, Hooks())
        if mode == "sparse":
            M = T.new_sparse(Term("input", [Const("M")]), "PM", ("in",), None, fmt="csr")
        else:
            M = T.mat(interp, "M", Poly.sym("n"), Poly.sym("n"))
        res = interp.call_function(fn, [M], {})
        ctx.instance("KERNEL")
        tag = f"C13.normalise.{mode}"
        ok = False
        wit = vstr(res.origin if isinstance(res, ObjV) else res)[:300]
        swapped_sparse = False
        if mode == "sparse" and T.is_sparse(res) and isinstance(res.origin, Term) and res.origin.op == "spadd":
            a, b = res.origin.args
            if isinstance(a, Term) and a.op == "sparse" and a.args and isinstance(a.args[0], Term) and a.args[0].op == "diags" and \
                    not (isinstance(b, Term) and b.op == "sparse" and b.args and isinstance(b.args[0], Term) and b.args[0].op == "diags"):
                a, b = b, a
                swapped_sparse = True
            da = b.args[0] if isinstance(b, Term) and b.op == "sparse" else None
            if isinstance(da, Term) and da.op == "diags" and da.args:
                v = da.args[0]
                neg = 0
                while isinstance(v, Term) and v.op in ("neg", "negative"):
                    neg += 1
                    v = v.args[0]
                off = da.kw.get("offsets", da.args[1] if len(da.args) > 1 else Num(0))
                ok = neg % 2 == 1 and isinstance(v, Term) and v.op == "spsum" and v.kw["axis"].v == 1 and \
                    v.args[0].kw["uid"].v == a.kw["uid"].v and isinstance(off, Num) and off.p.is_zero()
        if mode == "dense" and isinstance(res, Term) and res.op == "add":
            a, b = res.args
            if isinstance(a, Term) and a.op == "diag" and not (isinstance(b, Term) and b.op == "diag"):
                a, b = b, a          # dense addition commutes and keeps the ndarray type
            if isinstance(b, Term) and b.op == "diag" and b.args:
                v = b.args[0]
                if isinstance(v, Grid) and isinstance(v.elem, Term) and v.elem.op == "neg":
                    red = v.elem.args[0]
                    ok = isinstance(red, Term) and red.op == "reduce_sum" and isinstance(a, Grid) and a.ndim == 2 and \
                        isinstance(red.kw.get("over"), TupleV) and \
                        [x.p for x in red.kw["over"].items] == [Poly.atom(ax[0]) for ax in a.dims[1]] and vkey(red.args[0]) == vkey(a.elem)
        r = contains_top(res)
        if ok and swapped_sparse:
            ctx.violate("KERNEL", tag, "sparse branch: the sum is written `diags(...) + M`.  scipy gives a sum the container type of its LEFT "
                        "operand and `diags(..., format='csr')` is a csr_matrix, so a csr_array comes back as a csr_matrix: every "
                        "`isinstance(m, csr_array)` branch of this module then takes the dense path on the next operation (np.diag of an "
                        "(n,1) matrix picks one element, the addition broadcasts it), and repeated deletions on sparse input return wrong "
                        "numbers", fn.where, "return my_matrix + sum_diag", witness=wit)
        elif ok:
            ctx.ok("KERNEL", tag, f"{mode} branch returns M + diag(-row sums of M) (axis 1)", fn.where, derived=wit)
        elif r:
            ctx.inconclusive("KERNEL", tag, f"{mode} branch of sqra_normalize not derived", fn.where, witness=r)
        else:
            ctx.violate("KERNEL", tag, f"{mode} branch of sqra_normalize is not M + diag(-sum_axis1(M)): rows no longer sum to zero "
                        "/ the two branches disagree", fn.where, "sum_diag = ...; return my_matrix + sum_diag", witness=wit)

    # ------------------------------------------------------------ cut_and_merge: version stamps (PAIR)
    fc = repo.func("molgri.molecules.transitions", "SQRA.cut_and_merge")
    ci = repo.cls("molgri.molecules.transitions", "SQRA")
    ctx.analysed(fc)

    class VHooks(Hooks):
        def __init__(self):
            self.version = 0
            self.log = []

        def call(self, interp, fv, args, kwargs, node):
            if isinstance(fv, FuncV) and fv.fi.module.name == RM:
                nm = fv.fi.name
                if nm in ("merge_matrix_cells", "delete_rate_cells"):
                    params = fv.fi.params()
                    bound = dict(zip(params, args))
                    bound.update(kwargs)
                    self.version += 1
                    v = self.version
                    self.log.append((nm, v, bound.get("my_matrix"), bound.get("index_list", Const(None))))
                    return TupleV([Term("matrix", [Num(v)]), Term("indexlist", [Num(v)])])
                if nm.startswith("determine_"):
                    return Term(nm, [])
            return None

    combos = [(False, False), (True, False), (False, True), (True, True)]
    for lo, up in combos:
        hooks = VHooks()
        interp = Interp(repo, hooks)
        obj = ObjV(cls=ci)
        obj.attrs.update({"energies": Term("E"), "volumes": Term("V"), "distances": Term("h"), "surfaces": Term("S")})
        M0 = Term("matrix", [Num(0)])
        res = interp.call_function(fc, [M0, Num(Poly.sym("T")), Num(Poly.sym("lower")) if lo else Const(None),
                                        Num(Poly.sym("upper")) if up else Const(None)], {}, self_obj=obj)
        ctx.instance("PAIR")
        desc = f"lower_limit {'given' if lo else 'None'}, upper_limit {'given' if up else 'None'}"
        oid = f"C13.cut_and_merge.{int(lo)}{int(up)}"
        if not (isinstance(res, TupleV) and len(res.items) == 2):
            ctx.inconclusive("PAIR", oid, f"return value of cut_and_merge not derived ({desc})", fc.where,
                             witness=contains_top(res) or vstr(res)[:200])
            continue
        m, l = res.items
        mv = int(m.args[0].p.as_const()) if isinstance(m, Term) and m.op == "matrix" else None
        lv = int(l.args[0].p.as_const()) if isinstance(l, Term) and l.op == "indexlist" else (0 if isinstance(l, Const) and l.v is None else None)
        expect_calls = int(lo) + int(up)
        problems = []
        if mv is None or lv is None:
            ctx.inconclusive("PAIR", oid, f"version stamps not derived ({desc})", fc.where, witness=f"{vstr(m)}, {vstr(l)}")
            continue
        if mv != lv:
            problems.append(f"matrix comes from step {mv} but the index list from step {lv}" + (" (None)" if lv == 0 else ""))
        if mv != expect_calls:
            problems.append(f"{expect_calls} reduction step(s) expected for this combination, returned matrix is version {mv}")
        # threading: each step must receive the previous step's matrix and list
        prev = 0
        for nm, v, min_, lin in hooks.log:
            pm = int(min_.args[0].p.as_const()) if isinstance(min_, Term) and min_.op == "matrix" else None
            pl = int(lin.args[0].p.as_const()) if isinstance(lin, Term) and lin.op == "indexlist" else (0 if isinstance(lin, Const) and lin.v is None else None)
            if pm != prev:
                problems.append(f"{nm} (step {v}) receives matrix version {pm}, expected {prev}")
            if pl != prev:
                problems.append(f"{nm} (step {v}) receives index list version {pl}, expected {prev}" )
            prev = v
        order = [nm for nm, *_ in hooks.log]
        if lo and up and order != ["merge_matrix_cells", "delete_rate_cells"]:
            problems.append(f"order of steps {order}")
        if problems:
            key = "PAIR|molgri/molecules/transitions.py:SQRA.cut_and_merge|lower_limit given, upper_limit None" if (lo and not up) else None
            ctx.violate("PAIR", oid, f"cut_and_merge returns a matrix and an index list that do not belong together ({desc})",
                        fc.where, "return transition_matrix, current_index_list", witness="; ".join(problems), key=key)
        else:
            ctx.ok("PAIR", oid, f"{desc}: matrix and index list come from the same step ({mv}); steps threaded correctly", fc.where)

    # ------------------------------------------------------------ helpers on the cut_and_merge path: reductions of possibly empty selections
    from ..rules.truth import _is_index_expr
    for hname in ("determine_rate_cells_with_too_high_energy", "determine_rate_cells_to_join"):
        hf = repo.func(RM, hname)
        ctx.analysed(hf)
        env = {}
        for n in hf.node.body:
            if isinstance(n, ast.Assign) and isinstance(n.targets[0], ast.Name):
                d = _is_index_expr(repo, hf, n.value, env)
                if d:
                    env[n.targets[0].id] = d
        for n in ast.walk(hf.node):
            if isinstance(n, ast.Call):
                dn = repo.dotted_of(hf.module, n.func) or ""
                is_red = dn in ("numpy.min", "numpy.max", "numpy.amin", "numpy.amax", "numpy.argmin", "numpy.argmax") or \
                    (isinstance(n.func, ast.Attribute) and n.func.attr in ("min", "max", "argmin", "argmax") and not dn.startswith("numpy."))
                if not is_red:
                    continue
                arg = n.args[0] if n.args else (n.func.value if isinstance(n.func, ast.Attribute) else None)
                sel = None
                if isinstance(arg, ast.Subscript) and isinstance(arg.slice, ast.Name) and arg.slice.id in env:
                    sel = arg.slice.id
                if sel is None:
                    continue
                ctx.instance("LEN")
                # guarded by a length test of the selection?
                guarded = False
                unknown_guard = None
                from ..astutil import Canon as _Canon
                cn_ = _Canon(_Canon.single_defs(hf.node.body), protect={sel})

                def empty_truth(test):
                    """truth value of `test` when the selection is EMPTY (None if the test does not speak about its size)"""
                    t = cn_.expand(test)
                    if isinstance(t, ast.UnaryOp) and isinstance(t.op, ast.Not):
                        r_ = empty_truth(t.operand)
                        return None if r_ is None else (not r_)

                    def is_size(x):
                        return (isinstance(x, ast.Call) and isinstance(x.func, ast.Name) and x.func.id == "len" and x.args and src(x.args[0]) == sel) or \
                            (isinstance(x, ast.Attribute) and x.attr == "size" and src(x.value) == sel) or \
                            (isinstance(x, ast.Subscript) and isinstance(x.value, ast.Attribute) and x.value.attr == "shape" and src(x.value.value) == sel)
                    if is_size(t):
                        return False
                    if isinstance(t, ast.Compare) and len(t.ops) == 1:
                        import operator as _o
                        OPS = {ast.Gt: _o.gt, ast.GtE: _o.ge, ast.Lt: _o.lt, ast.LtE: _o.le, ast.Eq: _o.eq, ast.NotEq: _o.ne}
                        l_, r_ = t.left, t.comparators[0]
                        if type(t.ops[0]) in OPS:
                            if is_size(l_) and isinstance(r_, ast.Constant) and isinstance(r_.value, int):
                                return OPS[type(t.ops[0])](0, r_.value)
                            if is_size(r_) and isinstance(l_, ast.Constant) and isinstance(l_.value, int):
                                return OPS[type(t.ops[0])](l_.value, 0)
                    return None
                p_ = getattr(n, "_parent", None)
                child = n
                while p_ is not None and p_ is not hf.node:
                    if isinstance(p_, ast.If):
                        in_body = any(child is x or any(child is y for y in ast.walk(x)) for x in p_.body)
                        tv = empty_truth(p_.test)
                        if tv is not None and tv is (not in_body):
                            guarded = True          # this branch is not taken when the selection is empty
                        elif tv is None and sel in {x.id for x in ast.walk(cn_.expand(p_.test)) if isinstance(x, ast.Name)}:
                            unknown_guard = p_.test
                    child = p_
                    p_ = getattr(p_, "_parent", None)
                if not guarded and unknown_guard is not None:
                    ctx.inconclusive("LEN", f"C13.helper.{hname}.reduction", "a condition on the selection guards the reduction but is not a "
                                     "recognised emptiness test", hf.where, witness=src(unknown_guard)[:100])
                elif guarded:
                    ctx.ok("LEN", f"C13.helper.{hname}.reduction", "reduction over a selection is guarded by a length test", hf.where, src(n)[:100])
                else:
                    ctx.violate("LEN", f"C13.helper.{hname}.reduction", "a minimum/maximum is taken over a selection that is empty when no cell "
                                "satisfies the criterion: the combined cut-and-merge step raises ValueError instead of returning the "
                                "unchanged matrix", hf.where, src(n)[:120], witness=f"`{sel}` = {env[sel]} may be empty (no cell above the limit)",
                                key=f"LEN|molgri/molecules/rate_merger.py:{hname}|reduction of empty selection")

    # ------------------------------------------------------------ workflow stores both results
    from ..snake import Workflows
    wf = Workflows(repo.root)
    rule = wf.file("run_sqra").rules.get("run_sqra")
    if rule is None or rule.run is None:
        raise AnalysisError("anchor vanished: rule run_sqra in workflow/run_sqra")
    body = rule.run
    cm = [n for n in ast.walk(body) if isinstance(n, ast.Assign) and isinstance(n.value, ast.Call) and
          isinstance(n.value.func, ast.Attribute) and n.value.func.attr == "cut_and_merge"]
    ctx.instance("FLOW", len(cm))
    wwhere = "workflow/run_sqra:rule run_sqra"
    if not cm:
        ctx.inconclusive("FLOW", "C13.workflow.call", "call of cut_and_merge in rule run_sqra not found", wwhere)
    else:
        a = cm[0]
        tgt = a.targets[0]
        if isinstance(tgt, ast.Tuple) and len(tgt.elts) == 2 and all(isinstance(x, ast.Name) for x in tgt.elts):
            mname, lname = tgt.elts[0].id, tgt.elts[1].id
            saves = [n for n in ast.walk(body) if isinstance(n, ast.Call) and isinstance(n.func, ast.Attribute) and n.func.attr in ("save_npz", "save")]
            def uses(call, name):
                return any(isinstance(x, ast.Name) and x.id == name for arg in call.args[1:] for x in ast.walk(arg))
            def dest(call):
                return src(call.args[0]) if call.args else ""
            ms = [c for c in saves if uses(c, mname) and c.lineno > a.lineno]
            ls = [c for c in saves if uses(c, lname) and c.lineno > a.lineno]
            ctx.check(any("rate_matrix" in dest(c) for c in ms), "FLOW", "C13.workflow.matrix", "the reduced matrix returned by "
                      "cut_and_merge is what is stored as rate_matrix", wwhere, src(a), witness=f"saves of {mname}: {[src(c) for c in ms]}")
            ctx.check(any("index_list" in dest(c) for c in ls), "FLOW", "C13.workflow.list", "the index list returned by cut_and_merge "
                      "is stored next to the matrix", wwhere, src(a), witness=f"saves of {lname}: {[src(c) for c in ls]}")
        else:
            ctx.violate("FLOW", "C13.workflow.unpack", "the (matrix, index list) pair of cut_and_merge is not unpacked into two names",
                        wwhere, src(a), witness=src(tgt))
        # lower/upper wiring
        call = a.value
        kw = {k.arg: k.value for k in call.keywords}
        for nm, cfg in (("lower_limit", "lower_lim"), ("upper_limit", "upper_lim")):
            v = kw.get(nm)
            if v is None:
                continue
            vn = v.id if isinstance(v, ast.Name) else None
            defs = [n for n in ast.walk(body) if isinstance(n, ast.Assign) and any(isinstance(t, ast.Name) and t.id == vn for t in n.targets)]
            srcs = " ".join(src(d.value) for d in defs)
            ifs = [n for n in ast.walk(body) if isinstance(n, ast.If) and any(d in ast.walk(n) for d in defs)]
            srcs += " " + " ".join(src(i.test) for i in ifs)
            other = "upper_lim" if cfg == "lower_lim" else "lower_lim"
            ctx.instance("FLOW")
            ctx.check(cfg in srcs and other not in srcs, "FLOW", f"C13.workflow.{nm}", f"`{nm}` of cut_and_merge is fed from "
                      f"params.{cfg}", wwhere, src(call), witness=f"definitions of {vn}: {srcs[:200]}")

    ctx.require_instances("ORD", 8, "order-kind rule instances (selectors, representatives, pops)")
    ctx.require_instances("PAIR", 5, "pairing obligations")
    ctx.trust(*META["trusted"])
    ctx.assume(*META["assumptions"])


from ..rules.ordkind import unordered_construction as _unordered_construction


def _check_return_pair(ctx, oa, fi, tag):
    ctx.instance("PAIR")
    rets = [r for r in oa.returns]
    good = [r for r in rets if r[2] is not None and len(r[2]) == 2]
    if not good or len(good) != len(rets):
        ctx.violate("PAIR", f"{tag}.returns_pair", f"{fi.name} must return the pair (matrix, index list) on every path", fi.where,
                    "return ...", witness=f"{len(rets)} return(s), {len(good)} of them pairs")
        return
    for node, _, tup in good:
        lk = tup[1]
        if lk.alias:
            ctx.violate("OWN", f"{tag}.returns_fresh", f"the returned index list may share storage with the caller's argument "
                        f"{sorted(lk.alias)}", fi.where, src(node), witness="returned list aliases an input")
        else:
            ctx.ok("PAIR", f"{tag}.returns_pair", f"{fi.name} returns (matrix, fresh index list)", fi.where, src(node))
