"""C14 — saved geometry -> rate matrix -> spectrum (partial): FLOW wiring across io.py / workflows, PAIR/ORD on the
decomposition, plus the inherited FOLD/TRUTH obligations (F1)."""
from __future__ import annotations

import ast

from ..model import AnalysisError, src, norm_stmt
from ..snake import Workflows
from .. import wiring as W
from ..rules.fold import check_fold
from ..rules.ordkind import OrdAnalysis

META = {
    "explanation": "Label-flow analysis from the FullGrid getters through the saved files of rule run_grid, the rule inputs of run_sqra "
                   "(rules.run_grid.output.* references resolved by the Snakefile front end), the loaders and the local names to the "
                   "arguments of SQRA(...): borders must arrive as `surfaces`, distances as `distances`, volumes as `volumes`; config keys "
                   "must reach the right grid roles at every FullGrid(...) construction of the workflows; borders and distances come from "
                   "one assembly routine (entry order agrees); DecompositionTool decomposes the transpose once (left eigenvectors), sorts "
                   "eigenvalues descending and applies the same permutation to the columns of the eigenvector array; the rotation block "
                   "of the saved geometry is the antipode-folded matrix with a total antipode map (F1).",
    "decided": ["borders->S, distances->h, volumes->V through files, rule inputs, loaders and keyword arguments",
                "num_orientations->b grid, num_directions->o grid, radial_distances_nm->t grid at every FullGrid construction",
                "same assembly path for S and h", "one transpose; descending sort applied to values and to eigenvector columns alike",
                "decomposition rule loads the stored rate matrix and stores values/vectors", "folded rotation block symmetric by construction (TRUTH/FOLD)"],
    "not_decided": ["ARPACK convergence and accuracy", "closeness to a dense eigen-solver", "simplicity of the zero eigenvalue"],
    "trusted": ["scipy.sparse.linalg.eigs returns right eigenvectors of its argument as columns", "Snakefile section grammar of sa/snake.py"],
    "assumptions": [],
}

ROLE_KEY = {"b_grid_name": "num_orientations", "o_grid_name": "num_directions", "t_grid_name": "radial_distances_nm"}


def run(ctx, repo, tier):
    wf = Workflows(repo.root)
    # ------------------------------------------------------------ run_grid: label per output key
    rule_g, table, ctor, f_g = W.run_grid_table(wf)
    out_label = {}
    for key, rec in table.items():
        if rec["getter"] is not None and rec["direct"] and not rec["kwargs"]:
            out_label[key] = W.LABEL_OF_GETTER[rec["getter"]]
    # ------------------------------------------------------------ run_sqra: inputs -> loaders -> SQRA(...)
    f_s = wf.file("run_sqra")
    rule = f_s.rules.get("run_sqra")
    if rule is None or rule.run is None:
        raise AnalysisError("anchor vanished: rule run_sqra in workflow/run_sqra")
    where = "workflow/run_sqra:rule run_sqra"
    imps = W.imports_of(f_s.toplevel)
    imps.update(W.imports_of(rule.run))
    in_label = {}
    for key, expr in rule.sections["input"].keywords.items():
        ref = wf.resolve_rules_ref("run_sqra", expr)
        if ref is not None and ref[0].name == "run_grid" and ref[1] == "output":
            in_label[key] = out_label.get(ref[2], f"?{ref[2]}")
            ctx.instance("FLOW")
    var_label = {}
    for n in ast.walk(rule.run):
        if isinstance(n, ast.Assign) and isinstance(n.targets[0], ast.Name) and isinstance(n.value, ast.Call):
            d = W.dotted_in(imps, n.value.func)
            if d in W.LOAD_FAMILY and n.value.args:
                a = n.value.args[0]
                if isinstance(a, ast.Attribute) and isinstance(a.value, ast.Name) and a.value.id == "input":
                    lab = in_label.get(a.attr)
                    var_label[n.targets[0].id] = (lab, W.LOAD_FAMILY[d], a.attr, n)
    sq = [n for n in ast.walk(rule.run) if isinstance(n, ast.Call) and isinstance(n.func, ast.Name) and n.func.id == "SQRA"]
    ctx.instance("FLOW", 3)
    if len(sq) != 1:
        ctx.inconclusive("FLOW", "C14.sqra.call", "construction SQRA(...) not found in rule run_sqra", where, witness=f"{len(sq)} calls")
    else:
        c = sq[0]
        sci = repo.cls("molgri.molecules.transitions", "SQRA")
        params = sci.find_method("__init__").params()[1:]
        bound = dict(zip(params, c.args))
        bound.update({k.arg: k.value for k in c.keywords if k.arg})
        need = {"volumes": "VOLUMES", "distances": "DISTANCES", "surfaces": "BORDERS"}
        for p_, lab in need.items():
            v = bound.get(p_)
            if not isinstance(v, ast.Name) or v.id not in var_label:
                ctx.inconclusive("FLOW", f"C14.sqra.{p_}", f"argument `{p_}` of SQRA(...) is not a variable loaded from a rule input", where,
                                 src(c)[:200], witness=src(v) if v is not None else "missing")
                continue
            got, fam, inkey, node = var_label[v.id]
            if got == lab:
                ctx.ok("FLOW", f"C14.sqra.{p_}", f"SQRA's `{p_}` receives the saved {lab.lower()} (getter -> file -> rule input "
                       f"`{inkey}` -> loader -> `{v.id}`)", where, src(c)[:200])
            elif got is None or str(got).startswith("?"):
                ctx.inconclusive("FLOW", f"C14.sqra.{p_}", "origin of the loaded file not derived", where, witness=f"input.{inkey}: {got}")
            else:
                ctx.violate("FLOW", f"C14.sqra.{p_}", f"SQRA's `{p_}` receives the saved {str(got).lower()} instead of the {lab.lower()}: "
                            "the rate matrix divides/multiplies the wrong geometric quantity", where, src(c)[:200],
                            witness=f"`{v.id}` = loader(input.{inkey}) which resolves to rules.run_grid.output -> {got}")
            ctx.check(fam == W.EXPECTED_FAMILY[lab], "PAIRIO", f"C14.sqra.{p_}.loader", f"{lab.lower()} are read with the matching loader", where,
                      norm_stmt(node), witness=fam)
        # D and T are passed in the documented order
        grm = [n for n in ast.walk(rule.run) if isinstance(n, ast.Call) and isinstance(n.func, ast.Attribute) and n.func.attr == "get_rate_matrix"]
        if grm:
            a = [src(x) for x in grm[0].args] + [f"{k.arg}={src(k.value)}" for k in grm[0].keywords]
            ctx.check(a in (["D", "params.T"], ["D=D", "T=params.T"]), "FLOW", "C14.sqra.DT", "get_rate_matrix receives (D, T) in this order", where,
                      src(grm[0]), witness=str(a))
    # the energy vector: single named column of the reader
    en = [n for n in ast.walk(rule.run) if isinstance(n, ast.Call) and isinstance(n.func, ast.Attribute) and n.func.attr == "load_single_energy_column"]
    ctx.instance("FLOW")
    ctx.check(len(en) == 1 and "input.energy" in src(en[0]), "FLOW", "C14.sqra.energy", "energies are the named column of the energy file in file "
              "order (row k <-> grid cell k)", where, src(en[0])[:120] if en else "", witness="energy loading not recognised")

    # ------------------------------------------------------------ config keys -> grid roles
    cons = W.fullgrid_constructions(repo, wf)
    n_checked = 0
    for wh, call, bound, params in cons:
        if not wh.startswith("workflow/"):
            continue
        for role, key in ROLE_KEY.items():
            a = bound.get(role)
            if a is None:
                continue
            got = W.config_key_of(a, params)
            if got is None or got.startswith(("name:", "attr:")):
                continue       # not traceable to the configuration: nothing to decide
            n_checked += 1
            ctx.instance("FLOW")
            if got == key:
                ctx.ok("FLOW", f"C14.config.{role}", f"{role} is fed from config key `{key}`", wh, src(call)[:160])
            elif got in ROLE_KEY.values():
                ctx.violate("FLOW", f"C14.config.{role}", f"{role} is fed from config key `{got}` (expected `{key}`): rotation and direction "
                            "counts are swapped for every non-square grid", wh, src(call)[:200], witness=f"{role} <- config[...]['{got}']")
            else:
                ctx.inconclusive("FLOW", f"C14.config.{role}", f"{role} is fed from an unexpected config key", wh, witness=got)
    if n_checked < 6:
        ctx.inconclusive("FLOW", "C14.config.count", "fewer FullGrid constructions traced to config keys than on the pinned tree", "workflow/",
                         witness=f"{n_checked} role bindings traced")
    # ------------------------------------------------------------ S and h from one assembly routine
    fgci = repo.cls("molgri.space.fullgrid", "FullGrid")
    ctx.instance("PAIR")
    same = True
    for g in ("get_full_borders", "get_full_distances", "get_full_adjacency"):
        m = fgci.find_method(g)
        if m is None:
            raise AnalysisError(f"anchor vanished: FullGrid.{g}")
        ctx.analysed(m)
        calls = [n for n in ast.walk(m.node) if isinstance(n, ast.Call) and isinstance(n.func, ast.Attribute) and src(n.func) == "self._get_N_N"]
        rets = [n for n in ast.walk(m.node) if isinstance(n, ast.Return)]
        same = same and len(calls) == 1 and len(rets) == 1 and rets[0].value is calls[0]
    ctx.check(same, "PAIR", "C14.same_assembly", "borders, distances and adjacency are returned directly by one assembly routine, so their "
              "stored entry order agrees (precondition of the element-wise S/h division)", "molgri/space/fullgrid.py:FullGrid._get_N_N",
              witness="a getter post-processes or bypasses _get_N_N")
    # ------------------------------------------------------------ decomposition
    dci = repo.cls("molgri.molecules.transitions", "DecompositionTool")
    gd = dci.methods.get("get_decomposition")
    if gd is None:
        raise AnalysisError("anchor vanished: DecompositionTool.get_decomposition")
    ctx.analysed(gd)
    dw = gd.where
    # the sorting step may live in a private helper (`return self._sort_eigenpairs(values, vectors)`): analyse the spliced method, with a
    # returned pair of expressions named after the arrays they are computed from (`return v.real[o], w.real[:, o]` -> v = ..; w = ..)
    from ..astutil import splice_self_calls as _splice, helper_closure as _hc
    from ..model import FunctionInfo as _FI, set_parents as _setp
    _gd_node = _splice(dci, gd.node, module=dci.module)
    for h_ in sorted(_hc(dci, ["get_decomposition"]) - {"get_decomposition"}):
        if dci.find_method(h_) is not None:
            ctx.analysed(dci.find_method(h_))
    _rets = [n for n in _gd_node.body if isinstance(n, ast.Return) and isinstance(n.value, ast.Tuple) and len(n.value.elts) == 2]
    if len(_rets) == 1 and not all(isinstance(x, ast.Name) for x in _rets[0].value.elts):
        def _base(e):
            nm = {n.id for n in ast.walk(e) if isinstance(n, ast.Name)}
            return nm
        _eg_t = [n for n in ast.walk(_gd_node) if isinstance(n, ast.Assign) and isinstance(n.targets[0], ast.Tuple) and len(n.targets[0].elts) == 2 and
                 all(isinstance(x, ast.Name) for x in n.targets[0].elts) and "eigs" in src(n.value)]
        if len(_eg_t) == 1:
            vn_, wn_ = (x.id for x in _eg_t[0].targets[0].elts)
            e1, e2 = _rets[0].value.elts
            if vn_ in _base(e1) and wn_ not in _base(e1) and wn_ in _base(e2):
                k_ = _gd_node.body.index(_rets[0])
                new_ = []
                if not isinstance(e2, ast.Name):
                    new_.append(ast.Assign(targets=[ast.Name(id=wn_, ctx=ast.Store())], value=e2))
                if not isinstance(e1, ast.Name):
                    new_.append(ast.Assign(targets=[ast.Name(id=vn_, ctx=ast.Store())], value=e1))
                # the vectors are selected first: their index expression may still read the unsorted values
                _gd_node.body[k_:k_ + 1] = new_ + [ast.Return(value=ast.Tuple(elts=[ast.Name(id=vn_, ctx=ast.Load()), ast.Name(id=wn_, ctx=ast.Load())], ctx=ast.Load()))]
                ast.fix_missing_locations(_gd_node)
    _setp(_gd_node)
    gd = _FI(gd.name, gd.qualname, gd.module, _gd_node, gd.cls)
    eg = [n for n in ast.walk(gd.node) if isinstance(n, ast.Call) and (repo.dotted_of(gd.module, n.func) or "").endswith("linalg.eigs")]
    ctx.instance("PARITY")
    if len(eg) != 1:
        ctx.inconclusive("PARITY", "C14.decomp.eigs", "eigs(...) call not found", dw, witness=f"{len(eg)} calls")
    else:
        from ..astutil import Canon
        defs_gd = Canon.single_defs(gd.node.body)
        cgd = Canon(defs_gd)
        a0 = eg[0].args[0] if eg[0].args else {k.arg: k.value for k in eg[0].keywords}.get("A")
        inv = 0
        e = cgd.expand(a0) if a0 is not None else None
        # a scalar rescaling of the operator  (A / s,  A * s,  s * A)  rescales the spectrum: the spectral shift `sigma` is a point of the
        # spectrum of the matrix that eigs is GIVEN, so it has to be rescaled with it (and the eigenvalues scaled back)
        scale_txt = None
        a0_raw = a0
        if isinstance(a0_raw, ast.Name):
            d0 = [n.value for n in gd.node.body if isinstance(n, ast.Assign) and len(n.targets) == 1 and isinstance(n.targets[0], ast.Name) and
                  n.targets[0].id == a0_raw.id]
            a0_raw = d0[-1] if d0 else a0_raw
        if isinstance(a0_raw, ast.BinOp) and isinstance(a0_raw.op, (ast.Div, ast.Mult)):
            l_, r_ = a0_raw.left, a0_raw.right
            mat_side = l_ if "matrix_to_decompose" in src(cgd.expand(l_)) else (r_ if "matrix_to_decompose" in src(cgd.expand(r_)) else None)
            sc_side = r_ if mat_side is l_ else (l_ if mat_side is r_ else None)
            if mat_side is not None and sc_side is not None and "matrix_to_decompose" not in src(sc_side) + ("" if isinstance(sc_side, ast.Constant) else ""):
                scale_txt = src(sc_side)
                e = cgd.expand(mat_side)
                sg = {k.arg: k.value for k in eg[0].keywords}.get("sigma")
                ctx.instance("PARITY")
                if sg is None:
                    ctx.ok("PARITY", "C14.decomp.scale", "the operator is rescaled and no spectral shift is used", dw)
                else:
                    sg_e = cgd.expand(sg)
                    names_sc = {n.id for n in ast.walk(sc_side) if isinstance(n, ast.Name)}
                    uses = bool(names_sc & {n.id for n in ast.walk(sg_e) if isinstance(n, ast.Name)}) or \
                        (isinstance(sc_side, ast.Constant) and src(sc_side) in src(sg_e))
                    if uses:
                        ctx.inconclusive("PARITY", "C14.decomp.scale", "operator and spectral shift are both rescaled (factors not compared)", dw,
                                         witness=f"scale {scale_txt}, sigma {src(sg_e)[:80]}")
                    else:
                        ctx.violate("PARITY", "C14.decomp.scale", "eigs is given the rate matrix rescaled by a scalar while the spectral shift `sigma` "
                                    "stays in the original units: shift-invert then looks for eigenvalues near sigma*scale of the original "
                                    "matrix, so for a negative shift the returned pairs come from another part of the spectrum (the largest "
                                    "returned eigenvalue need not be 0, its vector is not the stationary density)", dw, src(eg[0])[:160],
                                    witness=f"operator {src(a0_raw)[:60]}, sigma={src(sg)}")

        def parity_of(expr):
            """number of transpositions applied to self.matrix_to_decompose inside expr (None if the matrix does not occur)"""
            best = None
            for n in ast.walk(expr):
                if isinstance(n, ast.Attribute) and src(n) == "self.matrix_to_decompose":
                    best = 0 if best is None else best
            if best is None:
                return None
            # count .T / .transpose() wrappers directly around the occurrence
            cnt = []

            def rec(x, depth):
                if isinstance(x, ast.Attribute) and src(x) == "self.matrix_to_decompose":
                    cnt.append(depth)
                    return
                for ch in ast.iter_child_nodes(x):
                    d2 = depth
                    if isinstance(x, ast.Attribute) and x.attr == "T" and ch is x.value:
                        d2 = depth + 1
                    if isinstance(x, ast.Call) and isinstance(x.func, ast.Attribute) and x.func.attr == "transpose" and ch is x.func:
                        d2 = depth + 1
                    if isinstance(x, ast.Attribute) and x.attr == "transpose" and ch is x.value:
                        d2 = depth
                    rec(ch, d2)
            rec(expr, 0)
            return cnt
        # a user-supplied operator for the shift-invert mode must be built from the same (transposed) matrix
        opinv = {k.arg: k.value for k in eg[0].keywords}.get("OPinv")
        if opinv is not None:
            # all local definitions that can reach OPinv (flow-insensitive closure over names)
            reach = set()
            work = [opinv]
            all_defs = {}
            for n in ast.walk(gd.node):
                if isinstance(n, ast.Assign) and len(n.targets) == 1 and isinstance(n.targets[0], ast.Name):
                    all_defs.setdefault(n.targets[0].id, []).append(n.value)
            pars = []
            seen_names = set()
            while work:
                x = work.pop()
                pz = parity_of(x)
                if pz:
                    pars += pz
                for nm in {n.id for n in ast.walk(x) if isinstance(n, ast.Name)} - seen_names:
                    seen_names.add(nm)
                    work += all_defs.get(nm, [])
            ctx.instance("PARITY")
            if not pars:
                ctx.inconclusive("PARITY", "C14.decomp.opinv", "origin of the OPinv operator not recognised", dw, src(opinv)[:120])
            elif any(p_ % 2 == 0 for p_ in pars):
                ctx.violate("PARITY", "C14.decomp.opinv", "the shift-invert operator handed to eigs is built from the UNTRANSPOSED rate matrix "
                            "while eigs is given the transpose: with sigma set the returned vectors are right eigenvectors (constant "
                            "vector for eigenvalue 0), not the stationary density", dw, src(eg[0])[:160],
                            witness=f"transposition counts on the paths into OPinv: {sorted(set(pars))}")
            else:
                ctx.ok("PARITY", "C14.decomp.opinv", "the shift-invert operator is built from the transposed matrix as well", dw)
        while e is not None:
            if isinstance(e, ast.Attribute) and e.attr == "T":
                inv += 1
                e = e.value
            elif isinstance(e, ast.Call) and isinstance(e.func, ast.Attribute) and e.func.attr == "transpose":
                inv += 1
                e = e.func.value
            else:
                break
        base_ok = e is not None and src(e) == "self.matrix_to_decompose"
        if base_ok:
            ctx.check(inv % 2 == 1, "PARITY", "C14.decomp.transpose", "the TRANSPOSE of the rate matrix is decomposed (odd transpose count): "
                      "the returned vectors are left eigenvectors, i.e. the stationary density for the largest eigenvalue", dw, src(eg[0])[:160],
                      witness=f"{inv} transposition(s) of the matrix before eigs")
        else:
            ctx.inconclusive("PARITY", "C14.decomp.transpose", "argument of eigs not recognised", dw, src(a0) if a0 is not None else "")
        tgt = getattr(eg[0], "_parent", None)
        names = [src(t) for t in tgt.targets[0].elts] if isinstance(tgt, ast.Assign) and isinstance(tgt.targets[0], ast.Tuple) else None
    # sorting
    oa = OrdAnalysis(repo, gd).run()
    rets = [n for n in ast.walk(gd.node) if isinstance(n, ast.Return) and isinstance(n.value, ast.Tuple)]
    ctx.instance("ORD", 3)
    if len(rets) != 1 or len(rets[0].value.elts) != 2:
        ctx.inconclusive("ORD", "C14.decomp.return", "get_decomposition does not return one (values, vectors) pair", dw)
    else:
        vname, wname = (src(x) for x in rets[0].value.elts)
        # last index-assignments of both
        def last_def(name):
            ds = [n for n in gd.node.body if isinstance(n, ast.Assign) and src(n.targets[0]) == name]
            return ds[-1] if ds else None
        dv, dwv = last_def(vname), last_def(wname)
        # Order states along the straight-line body.  The eigenvalue array is 'raw' (ARPACK order) until it is sorted; an index vector remembers
        # the state of the array it was computed from: argsort of the RAW values is the sorting permutation, argsort of the already SORTED
        # values is the identity (descending of descending) and moves nothing.
        state = "raw"                      # of vname: raw | DESC | ASC | other
        perms = {}                         # index name -> (direction, state of vname when computed)
        col_perms, row_perm, unknown_w, unknown_v = [], None, None, None
        def elementwise_of(e, name):
            e = strip_elementwise(e)
            return isinstance(e, ast.Name) and e.id == name

        def same_values(text, name):
            """the array an argsort was taken of is `name` up to order-preserving elementwise views (real part of the values)"""
            try:
                return elementwise_of(ast.parse(text, mode="eval").body, name)
            except SyntaxError:
                return text == name
        def strip_elementwise(e):
            while True:
                if isinstance(e, ast.Attribute) and e.attr in ("real", "T") and e.attr == "real":
                    e = e.value
                elif isinstance(e, ast.Call) and src(e.func) in ("np.real", "numpy.real", "np.asarray", "np.array", "np.real_if_close") and e.args:
                    e = e.args[0]
                elif isinstance(e, ast.Call) and isinstance(e.func, ast.Attribute) and e.func.attr in ("astype", "copy") :
                    e = e.func.value
                else:
                    return e
        def sort_dir(e):
            """direction of a value sort of vname: np.sort(v) ASC, np.sort(v)[::-1] / -np.sort(-v) / np.flip(np.sort(v)) DESC"""
            rev = False
            while True:
                if isinstance(e, ast.Subscript) and src(e.slice) == "::-1":
                    rev, e = not rev, e.value
                elif isinstance(e, ast.Call) and src(e.func) in ("np.flip", "numpy.flip", "np.flipud") and len(e.args) == 1:
                    rev, e = not rev, e.args[0]
                else:
                    break
            if isinstance(e, ast.Call) and src(e.func) in ("np.sort", "numpy.sort", "sorted") and e.args and elementwise_of(e.args[0], vname):
                if any(k.arg == "reverse" for k in e.keywords):
                    kw = [k for k in e.keywords if k.arg == "reverse"][0]
                    if isinstance(kw.value, ast.Constant) and kw.value.value is True:
                        rev = not rev
                    elif not (isinstance(kw.value, ast.Constant) and kw.value.value is False):
                        return "?"
                return "DESC" if rev else "ASC"
            if isinstance(e, ast.UnaryOp) and isinstance(e.op, ast.USub) and isinstance(e.operand, ast.Call) and \
                    src(e.operand.func) in ("np.sort", "numpy.sort") and e.operand.args and isinstance(e.operand.args[0], ast.UnaryOp) and \
                    isinstance(e.operand.args[0].op, ast.USub) and elementwise_of(e.operand.args[0].operand, vname):
                return "ASC" if rev else "DESC"
            return None
        def perm_at(e, st):
            """(direction, state of the values it was computed from, statement) of an index expression, None when it is not an argsort"""
            if isinstance(e, ast.Name) and e.id in perms:
                return perms[e.id]
            k_ = oa.expr_kind.get(id(e))
            if k_ is not None and k_.perm_of is not None and k_.perm_of.startswith(("ASC:", "DESC:")):
                d_, of_ = k_.perm_of.split(":", 1)
                return (d_, state, st) if same_values(of_, vname) else ("?", of_, st)
            return None
        nested = [n for st in gd.node.body if not isinstance(st, ast.Assign) for n in ast.walk(st)
                  if isinstance(n, (ast.Assign, ast.AugAssign)) and any(src(t) in (vname, wname) for t in (n.targets if isinstance(n, ast.Assign) else [n.target]))]
        for st in gd.node.body:
            if not isinstance(st, ast.Assign) or len(st.targets) != 1:
                continue
            t, v = st.targets[0], st.value
            if isinstance(t, ast.Tuple):
                continue
            tn = src(t)
            k = oa.expr_kind.get(id(v))
            if k is not None and k.perm_of is not None and k.perm_of.startswith(("ASC:", "DESC:")) and isinstance(t, ast.Name):
                d, of = k.perm_of.split(":", 1)
                perms[tn] = (d, state, st) if same_values(of, vname) else ("?", of, st)
                continue
            if tn == vname:
                if elementwise_of(v, vname):
                    continue
                sd = sort_dir(v)
                if sd in ("ASC", "DESC"):
                    state = sd
                elif isinstance(v, ast.Subscript) and elementwise_of(v.value, vname) and perm_at(v.slice, st) is not None:
                    d, at, _ = perm_at(v.slice, st)
                    if d in ("ASC", "DESC") and at == "raw" and state == "raw":
                        state = d
                    elif d in ("ASC", "DESC") and at == state and at in ("ASC", "DESC"):
                        state = d            # argsort of sorted values: identity (same direction) or reversal
                    else:
                        state, unknown_v = "other", st
                else:
                    state, unknown_v = "other", st
            elif tn == wname:
                if elementwise_of(v, wname):
                    continue
                if isinstance(v, ast.Subscript) and elementwise_of(v.value, wname):
                    sl = v.slice
                    if isinstance(sl, ast.Tuple) and len(sl.elts) == 2 and isinstance(sl.elts[0], ast.Slice) and sl.elts[0].lower is None and \
                            sl.elts[0].upper is None and sl.elts[0].step is None and perm_at(sl.elts[1], st) is not None:
                        col_perms.append((src(sl.elts[1]), perm_at(sl.elts[1], st), st))
                    elif perm_at(sl, st) is not None or (isinstance(sl, ast.Tuple) and perm_at(sl.elts[0], st) is not None):
                        row_perm = st
                    else:
                        unknown_w = st
                else:
                    unknown_w = st
        # every (name, value) binding of the two arrays anywhere in the body, tuple assignments split into their components
        def bindings(root):
            for n_ in ast.walk(root):
                if isinstance(n_, ast.Assign) and len(n_.targets) == 1:
                    t_ = n_.targets[0]
                    if isinstance(t_, ast.Tuple) and isinstance(n_.value, ast.Tuple) and len(t_.elts) == len(n_.value.elts):
                        for a_, b_ in zip(t_.elts, n_.value.elts):
                            yield n_, src(a_), b_
                    elif isinstance(t_, ast.Tuple):
                        for a_ in t_.elts:
                            yield n_, src(a_), n_.value
                    else:
                        yield n_, src(t_), n_.value
        trunc = []
        for st_, nm_, val_ in bindings(gd.node):
            if nm_ == vname and isinstance(val_, ast.Subscript) and elementwise_of(val_.value, vname) and isinstance(val_.slice, ast.Slice) and \
                    (val_.slice.upper is not None or val_.slice.lower is not None):
                trunc.append(st_)
        first_sort = None
        for st_ in gd.node.body:
            if isinstance(st_, ast.Assign) and len(st_.targets) == 1 and src(st_.targets[0]) == vname and not elementwise_of(st_.value, vname) and \
                    st_ not in trunc:
                first_sort = st_
                break
        early = [t_ for t_ in trunc if first_sort is None or t_.lineno < first_sort.lineno]
        nested = [n_ for n_ in nested if not (isinstance(n_, ast.Assign) and isinstance(n_.targets[0], ast.Tuple))]
        # the permutation must not depend on an option: descending by VALUE, always
        perm_names = {st_.value.slice.id for st_ in ast.walk(gd.node) if isinstance(st_, ast.Assign) and isinstance(st_.value, ast.Subscript) and
                      isinstance(st_.value.slice, ast.Name) and src(st_.value.value) == vname}
        gparams = set(gd.params())
        cond_perm = []
        for st_ in ast.walk(gd.node):
            if isinstance(st_, ast.Assign) and len(st_.targets) == 1 and isinstance(st_.targets[0], ast.Name) and st_.targets[0].id in perm_names:
                p_ = getattr(st_, "_parent", None)
                while p_ is not None and p_ is not gd.node:
                    if isinstance(p_, ast.If) and any(isinstance(x_, ast.Name) and x_.id in gparams for x_ in ast.walk(p_.test)):
                        cond_perm.append((st_, p_))
                    p_ = getattr(p_, "_parent", None)
        if cond_perm and not early:
            st_, if_ = cond_perm[0]
            ctx.violate("ORD", "C14.decomp.values", "the order in which eigenpairs are returned depends on an option of the solver call "
                        f"(`{src(if_.test)[:60]}`): for some option values the eigenvalues are not descending by value, element 0 is not the "
                        "largest (zero) eigenvalue and column 0 not the stationary vector", dw, norm_stmt(st_),
                        witness="e.g. which='SR' / 'LM' with a shift: ascending or by-magnitude order")
        elif early:
            ctx.violate("ORD", "C14.decomp.values", "the eigenvalue array is truncated BEFORE it is sorted: a dense solver returns the spectrum in no "
                        "particular order, so an arbitrary subset survives - the largest (zero) eigenvalue and the stationary vector may be "
                        "cut away", dw, norm_stmt(early[0]), witness="slice of the unsorted eigenvalues precedes the descending sort")
        elif nested:
            ctx.inconclusive("ORD", "C14.decomp.values", "eigenvalue / eigenvector arrays are re-assigned inside a nested block", dw, norm_stmt(nested[0]))
            ctx.inconclusive("PAIR", "C14.decomp.vectors", "eigenvalue / eigenvector arrays are re-assigned inside a nested block", dw, norm_stmt(nested[0]))
        else:
            if state == "DESC":
                ctx.ok("ORD", "C14.decomp.values", "eigenvalues leave in descending order (sorted from the raw solver order)", dw, norm_stmt(dv) if dv is not None else "")
            elif state == "ASC":
                ctx.violate("ORD", "C14.decomp.values", "eigenvalues are sorted ascending: the largest (zero) eigenvalue and the stationary vector "
                            "are no longer first", dw, norm_stmt(dv) if dv is not None else "", witness="state ASC at return")
            elif state == "raw":
                ctx.violate("ORD", "C14.decomp.values", "eigenvalues are returned in solver order: nothing sorts them descending", dw, "",
                            witness="no sort of the eigenvalue array on the path to the return")
            else:
                ctx.inconclusive("ORD", "C14.decomp.values", "eigenvalue sorting idiom not recognised", dw, norm_stmt(unknown_v) if unknown_v is not None else "")
            real = [c for c in col_perms if c[1][0] in ("ASC", "DESC") and c[1][1] == "raw"]
            ident = [c for c in col_perms if c[1][0] in ("ASC", "DESC") and c[1][1] == c[1][0]]
            other = [c for c in col_perms if c not in real and c not in ident]
            if row_perm is not None:
                ctx.violate("PAIR", "C14.decomp.vectors", "the permutation is applied to the ROWS (cells) of the eigenvector array instead of its "
                            "columns: eigenvalue k no longer belongs to vector k and cell order is scrambled", dw, norm_stmt(row_perm), witness=src(row_perm.value.slice))
            elif unknown_w is not None or other:
                bad = unknown_w if unknown_w is not None else other[0][2]
                if other and other[0][1][0] == "?":
                    ctx.violate("PAIR", "C14.decomp.vectors", "eigenvectors are permuted with an index vector that is not the argsort of the eigenvalues", dw,
                                norm_stmt(bad), witness=f"{other[0][0]} is the argsort of {other[0][1][1]}")
                else:
                    ctx.inconclusive("PAIR", "C14.decomp.vectors", "eigenvector permutation idiom not recognised", dw, norm_stmt(bad))
            elif len(real) == 1 and state in ("ASC", "DESC") and real[0][1][0] == state:
                ctx.ok("PAIR", "C14.decomp.vectors", "the columns of the eigenvector array are permuted by the argsort (same direction) of the raw "
                       "eigenvalues: vector k belongs to value k", dw, norm_stmt(real[0][2]))
            elif len(real) == 1 and state in ("ASC", "DESC"):
                ctx.violate("PAIR", "C14.decomp.vectors", "eigenvalues and eigenvectors are sorted in opposite directions", dw, norm_stmt(real[0][2]),
                            witness=f"values {state}, vectors {real[0][1][0]}")
            elif not real and state in ("ASC", "DESC"):
                w = (f"{ident[0][0]} is the argsort of the already sorted eigenvalues: the identity permutation" if ident else
                     "no permutation of the eigenvector array follows the sort")
                ctx.violate("PAIR", "C14.decomp.vectors", "eigenvalues are re-ordered but the eigenvectors are not: eigenvalue k no longer belongs to "
                            "column k, the stationary density is no longer column 0", dw, norm_stmt(ident[0][2]) if ident else "", witness=w)
            elif not real and state == "raw":
                ctx.ok("PAIR", "C14.decomp.vectors", "neither array is re-ordered (pairing kept; order reported by C14.decomp.values)", dw, "")
            else:
                ctx.inconclusive("PAIR", "C14.decomp.vectors", "eigenvector permutation not recognised", dw)
    # ------------------------------------------------------------ decomposition rule wiring
    rd = f_s.rules.get("run_decomposition")
    if rd is None or rd.run is None:
        raise AnalysisError("anchor vanished: rule run_decomposition")
    ref = wf.resolve_rules_ref("run_sqra", rd.sections["input"].keywords.get("rate_matrix"))
    ctx.instance("FLOW", 3)
    ctx.check(ref is not None and ref[0].name == "run_sqra" and ref[2] == "rate_matrix", "FLOW", "C14.decomp.input", "the decomposition "
              "rule reads the rate matrix stored by rule run_sqra", "workflow/run_sqra:rule run_decomposition", witness=str(ref[:3]) if ref else "unresolved")
    txt = src(rd.run)
    ctx.check("DecompositionTool(my_matrix)" in txt.replace(" ", "") or "DecompositionTool(" in txt, "FLOW", "C14.decomp.tool", "the loaded matrix is "
              "handed to DecompositionTool", "workflow/run_sqra:rule run_decomposition", witness="")
    saves = [n for n in ast.walk(rd.run) if isinstance(n, ast.Call) and W.dotted_in(W.imports_of(f_s.toplevel), n.func) == "numpy.save"]
    pair_ok = False
    asg = [n for n in ast.walk(rd.run) if isinstance(n, ast.Assign) and isinstance(n.targets[0], ast.Tuple) and "get_decomposition" in src(n.value)]
    if asg and len(saves) == 2:
        v_, w_ = (x.id for x in asg[0].targets[0].elts)
        m_ = {src(s_.args[0]): src(s_.args[1]) for s_ in saves}
        pair_ok = v_ in m_.get("output.eigenvalues", "") and w_ in m_.get("output.eigenvectors", "")
    ctx.check(pair_ok, "FLOW", "C14.decomp.outputs", "eigenvalues and eigenvectors are stored under their own output names", "workflow/run_sqra:rule run_decomposition",
              witness=str([src(s_)[:60] for s_ in saves]))
    # ------------------------------------------------------------ inherited: symmetric position-grid borders and distances (C05):
    # detailed balance of the rate matrix needs S_ij = S_ji and h_ij = h_ji
    from .C05 import analyse as c05_analyse
    for prop in ("border_len", "center_distances"):
        c05_analyse(ctx, repo, prop)
    # the saved volumes are the position-cell volumes (times f^3 times the rotation-cell volumes, see below): V_i of the stationary
    # density V_i*exp(-E_i/RT) is wrong whenever these are
    from ..driver import PrefixCtx as _PCv
    from .C05 import position_volumes as c05_position_volumes
    c05_position_volumes(_PCv(ctx, "C05.", "C14.posvol."), repo)
    # ------------------------------------------------------------ inherited: the lift of the position matrix to the full grid (C02): entry
    # (n_b*i+k, n_b*j+k) of borders AND distances must carry the value of the position pair (i,j) - S_ij/h_ij is formed entry by entry
    from ..driver import PrefixCtx as _PC
    from .C02 import analyse as c02_analyse
    for prop in ("border_len", "center_distances"):
        for nb_ctx in ("sym", "one"):
            c02_analyse(_PC(ctx, "C02.", "C14.lift."), repo, prop, nb_ctx)
    # ------------------------------------------------------------ inherited: folded rotation block
    check_fold(ctx, repo, "C14")
    # ------------------------------------------------------------ inherited: cell order and value of the saved volumes (C02)
    from .C02 import volumes_check, cartesian_parallel
    volumes_check(ctx, repo, "C14")
    # Cartesian position mode: the face areas replace the data of the (symmetric) adjacency matrix entry by entry
    cartesian_parallel(ctx, repo, "C14")
    # ------------------------------------------------------------ inherited: the SQRA kernel itself (C01) on matrices as loaded from .npz
    # (detailed balance w.r.t. V*exp(-E/RT) and zero row sums are properties of that formula; an algebraically equal rewrite that
    #  exponentiates single-cell energies is rejected there because it is not evaluable for large |E|)
    from ..driver import PrefixCtx
    from .C01 import run_context as c01_context
    c01_context(PrefixCtx(ctx, "C01.", "C14.sqra."), repo, tier, "coo")
    ctx.require_instances("FLOW", 10, "wiring obligations")
    ctx.trust(*META["trusted"])
