"""C15 — rotation-cell volumes (partial): COEF, DISPATCH, LAYOUT, SELECT on the volume estimation of voronoi.py."""
from __future__ import annotations

import ast

from ..alg import Poly
from ..interp import Interp, Hooks
from ..values import *
from .. import voro
from ..voro import VO, N, VoroHooks, find_terms
from .. import transfer as T
from ..model import AnalysisError, src, norm_stmt

META = {
    "explanation": "Static analysis of the volume estimation: the equal-share estimate of the tiny-grid model is derived "
                   "symbolically (pi^2/N in 4D, 4*pi/N in 3D, N entries) and the size threshold of the model dispatch is evaluated "
                   "abstractly; the hull estimate is derived as hull.area/2 of the convex hull of the cell's reduced vertices and its "
                   "assigned helper points; helper points are assigned by argmin over the centres (axis/argument roles checked) and "
                   "filtered with the same hemisphere predicate, same polarity, as the upper indices; half-sphere volumes are the "
                   "full-sphere volumes at the upper indices.",
    "decided": ["N<4: equal share pi^2/N (4D) and 4*pi/N (3D), N entries", "volume = hull.area * 1/2 of the 4D hull of the cell's "
                "vertices + helper points", "helper point -> nearest centre (argmin along the centre axis), cell i receives the points "
                "assigned to i", "hemisphere filter polarity agrees with the upper-index selection", "half volumes = full volumes at the "
                "upper indices (first N)"],
    "not_decided": ["the 12% / 30% tolerance bands (numerical)", "qhull"],
    "trusted": [T.TABLE_VERSION, "scipy ConvexHull.area = surface measure of the hull", "scipy cdist(A,B)[a,b] = d(A_a, B_b)"],
    "assumptions": [],
}


def run(ctx, repo, tier):
    # ------------------------------------------------------------ equal share for tiny grids
    mk = repo.cls(VO, "MikroVoronoi")
    gv = mk.methods.get("get_voronoi_volumes")
    if gv is None:
        raise AnalysisError("anchor vanished: MikroVoronoi.get_voronoi_volumes")
    ctx.analysed(gv)
    pi = Poly.sym("pi")
    for d, exp, txt in ((3, 4 * pi / N, "4*pi/N"), (4, pi ** 2 / N, "pi^2/N")):
        interp = Interp(repo, Hooks())
        o = interp.instantiate(mk, [Num(d), Num(N)], {})
        res = interp.call_function(gv, [], {}, self_obj=o)
        ctx.instance("COEF")
        ok = False
        if isinstance(res, ObjV) and res.ext == "ndarray":
            res = T.ndarray_value(interp, res)
        got = vstr(res)[:200]
        recognised = False
        lst = res.args[0] if isinstance(res, Term) and res.op == "array" and res.args else res
        if isinstance(lst, ListV) and len(lst.items) == 1 and isinstance(lst.items[0], Rep) and len(lst.items[0].items) == 1 and \
                isinstance(lst.items[0].items[0], Elem):
            v = lst.items[0].items[0].value
            recognised = isinstance(v, Num)
            ok = isinstance(v, Num) and v.p == exp and lst.items[0].count == N
        if isinstance(res, Grid) and isinstance(res.elem, Num):
            recognised = True
            ok = res.elem.p == exp and res.dim_len(0) == N
        r_ = contains_top(res)
        if ok:
            ctx.ok("COEF", f"C15.equalshare.{d}d", f"fewer than four points in {d}D: every cell gets the equal share {txt}, N entries", gv.where, derived=got)
        elif r_ or not recognised:
            ctx.inconclusive("COEF", f"C15.equalshare.{d}d", "equal-share estimate not derived", gv.where, witness=r_ or got)
        else:
            ctx.violate("COEF", f"C15.equalshare.{d}d", f"equal-share estimate for {d}D tiny grids is not {txt} per cell (N cells)", gv.where,
                        "np.array([.../self.N_points]*self.N_points)", witness=f"derived {got}")
    voro.dispatch_model(ctx, repo, "C15")
    voro.volumes_exact_3d(ctx, repo, "C15")
    # ------------------------------------------------------------ hull estimate
    ci = repo.cls(VO, "RotobjVoronoi")
    av = repo.cls(VO, "AbstractVoronoi")
    interp = Interp(repo, VoroHooks())
    o = ObjV(cls=ci)
    i0 = interp.fresh_idx("g")
    o.attrs["reduced_regions"] = ListV([Loop(i0, N, [Elem(Term("region", [Num(Poly.atom(i0))]))])])
    o.attrs["reduced_vertices"] = Term("reduced_vertices")
    o.attrs["centers"] = T.mat(interp, "C", N, Poly.const(4))
    o.attrs["additional_points"] = T.mat(interp, "AP", Poly.sym("M"), Poly.const(4))
    gvv = av.methods.get("get_voronoi_volumes")
    if gvv is None:
        raise AnalysisError("anchor vanished: AbstractVoronoi.get_voronoi_volumes")
    res = interp.call_function(gvv, [], {}, self_obj=o)
    for f in interp.functions_entered:
        ctx.analysed(f)
    ctx.instance("COEF")
    where = gvv.where
    okh = isinstance(res, Grid) and res.ndim == 1 and res.dim_len(0) == N and isinstance(res.elem, Term) and res.elem.op == "div" and \
        isinstance(res.elem.args[1], Num) and res.elem.args[1].p == Poly.const(2) and isinstance(res.elem.args[0], Term) and \
        res.elem.args[0].op == "attr.area"
    half_mult = isinstance(res, Grid) and isinstance(res.elem, Term) and res.elem.op == "mult" and \
        any(isinstance(a, Num) and a.p == Poly.const(1) / 2 for a in res.elem.args) and any(isinstance(a, Term) and a.op == "attr.area" for a in res.elem.args)
    if okh or half_mult:
        ctx.ok("COEF", "C15.hull.half", "cell volume = one half of the surface measure (`.area`) of the cell's 4D convex hull, one value per "
               "centre", where, derived=vstr(res)[:200])
        hull = [a for a in res.elem.args if isinstance(a, Term) and a.op == "attr.area"][0].args[0]
        org = hull.origin if isinstance(hull, ObjV) else None
        ctx.instance("FLOW")
        if isinstance(org, Term) and org.op == "ConvexHull":
            pts = org.args[0] if org.args else None
            regs = find_terms(pts, lambda t: t.op == "region")
            rv = find_terms(pts, lambda t: t.op == "reduced_vertices")
            # ALL helper points assigned to the cell go into its hull: the element stacked onto the vertices is the per-cell assignment
            # itself (helper points whose nearest centre is i), not a further selection of it
            stacks = find_terms(pts, lambda t: t.op == "vstack")
            ctx.instance("FLOW")
            verdict_h = None
            for stv in stacks:
                lst_ = stv.args[0] if stv.args else None
                elems_ = []
                if isinstance(lst_, ListV):
                    from ..values import flat_elems as _fe
                    elems_ = _fe(lst_.items) or []
                elif isinstance(lst_, TupleV):
                    elems_ = lst_.items
                for e_ in elems_:
                    if "AP" not in vstr(e_):
                        continue
                    def is_assignment(t_):
                        return isinstance(t_, Term) and t_.op == "masked" and isinstance(t_.args[0], Grid) and "argmin" in vstr(t_.args[1]) and \
                            not find_terms(t_.args[0], lambda u: u.op in ("masked", "item", "gather"))
                    if is_assignment(e_):
                        verdict_h = True if verdict_h is None else verdict_h
                    elif isinstance(e_, Term) and e_.op in ("item", "masked", "gather", "slice", "getitem") and e_.args and is_assignment(e_.args[0]):
                        verdict_h = False
                    else:
                        verdict_h = verdict_h if verdict_h is False else "?"
            if verdict_h is True:
                ctx.ok("FLOW", "C15.hull.helpers", "every helper point assigned to cell i (nearest centre) enters the hull of cell i", where)
            elif verdict_h is False:
                ctx.violate("FLOW", "C15.hull.helpers", "the helper points assigned to a cell are filtered AGAIN before its hull is built: the hull of a "
                            "large (strongly curved) cell loses the points that carry its curvature and its measure is under-estimated, so the "
                            "smallest grids fall out of the 12% band of the total", av.methods["get_convex_hulls"].where if "get_convex_hulls" in av.methods else where,
                            "within_region = np.vstack([additional_assignments[i], within_region])", witness="a selection is applied to the per-cell assignment")
            else:
                ctx.inconclusive("FLOW", "C15.hull.helpers", "the helper-point part of the hull input was not recognised", where, witness=vstr(pts)[:200])
            ctx.check(bool(regs) and bool(rv), "FLOW", "C15.hull.points", "the hull of cell i is built from the reduced vertices of region i "
                      "(plus its helper points)", av.methods["get_convex_hulls"].where if "get_convex_hulls" in av.methods else where,
                      witness=vstr(pts)[:300])
        else:
            ctx.inconclusive("FLOW", "C15.hull.points", "hull construction not derived", where, witness=vstr(org)[:200])
    else:
        r_ = contains_top(res)
        (ctx.inconclusive if r_ else ctx.violate)("COEF", "C15.hull.half", "cell volume is not hull.area / 2 (a lost or doubled factor shifts "
                                                  "every cell by 2x)", where, "np.array([detailed.area / 2.0 for detailed in all_hulls_detailed])",
                                                  witness=r_ or vstr(res)[:300])
    # ------------------------------------------------------------ helper points -> nearest centre
    apc = av.methods.get("_additional_points_per_cell")
    if apc is None:
        raise AnalysisError("anchor vanished: AbstractVoronoi._additional_points_per_cell")
    ctx.analysed(apc)
    # a cell's hull must see ALL helper points assigned to it: a slice of the per-cell selection thins (or truncates) them
    sel_names = set()
    thinned = None
    for n in ast.walk(apc.node):
        if isinstance(n, ast.Assign) and len(n.targets) == 1 and isinstance(n.targets[0], ast.Name) and isinstance(n.value, ast.Subscript) and \
                "additional_points" in src(n.value.value) and any(isinstance(c, ast.Compare) for c in ast.walk(n.value.slice)):
            sel_names.add(n.targets[0].id)
    for n in ast.walk(apc.node):
        if isinstance(n, ast.Subscript) and isinstance(n.slice, ast.Slice) and (n.slice.lower is not None or n.slice.upper is not None or n.slice.step is not None):
            base = n.value
            if (isinstance(base, ast.Name) and base.id in sel_names) or (isinstance(base, ast.Subscript) and "additional_points" in src(base.value)
                                                                           and any(isinstance(c, ast.Compare) for c in ast.walk(base.slice))):
                thinned = n
    # ... and ONLY those: a re-definition of the per-cell selection by anything else than the assignment mask hands a cell points that
    # belong to its neighbours (their hulls overlap, volumes are inflated)
    foreign = None
    for n in ast.walk(apc.node):
        if isinstance(n, ast.Assign) and len(n.targets) == 1 and isinstance(n.targets[0], ast.Name) and n.targets[0].id in sel_names:
            v_ = n.value
            is_mask = isinstance(v_, ast.Subscript) and "additional_points" in src(v_.value) and any(isinstance(c, ast.Compare) and
                                                                                                   isinstance(c.ops[0], ast.Eq) for c in ast.walk(v_.slice))
            derived = any(isinstance(x, ast.Name) and x.id in sel_names for x in ast.walk(v_))
            if not is_mask and not derived:
                foreign = n
    if foreign is not None:
        ctx.instance("SELECT")
        ctx.violate("SELECT", "C15.helpers.own", "on some path a cell receives helper points that were NOT assigned to it (selected by another "
                    "criterion than `assignment == i`): points of neighbouring cells enter its hull", apc.where, norm_stmt(foreign)[:160],
                    witness="re-definition of the per-cell selection without the assignment mask")
    ctx.instance("SELECT")
    if thinned is not None:
        ctx.violate("SELECT", "C15.helpers.all", "only a slice of the helper points assigned to a cell reaches its hull: the hull (hence the volume "
                    "estimate) of well-populated cells is built from a few points", apc.where, src(thinned)[:120],
                    witness=f"slice {src(thinned.slice)} of the per-cell selection")
    else:
        ctx.ok("SELECT", "C15.helpers.all", "every helper point assigned to a cell is handed to that cell's hull (no slicing of the selection)", apc.where)
    interp2 = Interp(repo, VoroHooks())
    res = interp2.call_function(apc, [], {}, self_obj=o)
    ctx.instance("SELECT", 2)
    sel_ok = False
    if isinstance(res, ListV) and len(res.items) == 1 and isinstance(res.items[0], Loop) and res.items[0].extent == N and \
            len(res.items[0].items) == 1 and isinstance(res.items[0].items[0], Elem):
        lp = res.items[0]
        el = lp.items[0].value
        am = find_terms(el, lambda t: t.op in ("argmin", "argmax"))
        if isinstance(el, Term) and el.op == "masked" and len(am) == 1:
            a = am[0]
            ax = a.kw.get("axis").v if isinstance(a.kw.get("axis"), Const) else None
            cd = a.args[0] if a.args else None
            good_fn = a.op == "argmin"
            roles = None
            if isinstance(cd, Term) and cd.op == "cdist" and len(cd.args) >= 2:
                def role(x):
                    s_ = vstr(x)
                    return "helpers" if "AP" in s_ else ("centres" if "C" in s_ else "?")
                roles = (role(cd.args[0]), role(cd.args[1]))
            good_axis = (roles == ("helpers", "centres") and ax == 1) or (roles == ("centres", "helpers") and ax == 0)
            if good_fn and good_axis:
                ctx.ok("SELECT", "C15.helpers.nearest", "every helper point is assigned to its nearest centre: argmin over the distance "
                       "matrix along the axis that ranges over the centres", apc.where, derived=vstr(a)[:200])
            else:
                ctx.violate("SELECT", "C15.helpers.nearest", "helper points are not assigned to their NEAREST centre (wrong selector or "
                            "wrong axis of the distance matrix)", apc.where, "np.argmin(cdist(self.additional_points, all_points, metric='cos'), axis=1)",
                            witness=f"selector {a.op}, cdist roles {roles}, axis {ax}")
            cond = el.args[1]
            okc = isinstance(cond, CondV) and cond.kind == "opaque" and cond.args[0] == "==" and isinstance(cond.args[2], Num) and \
                cond.args[2].p == Poly.atom(lp.idx)
            ctx.check(okc, "SELECT", "C15.helpers.cell", "cell i receives exactly the helper points whose assignment equals i", apc.where,
                      "self.additional_points[extra_points_belongings == i]", witness=vstr(cond)[:200])
            sel_ok = True
    if not sel_ok:
        r_ = contains_top(res)
        ctx.inconclusive("SELECT", "C15.helpers.nearest", "assignment of helper points not derived", apc.where, witness=r_ or vstr(res)[:300])
    # ------------------------------------------------------------ half sphere: filter polarity and volume selection
    hv = repo.cls(VO, "HalfRotobjVoronoi")
    hapc = hv.methods.get("_additional_points_per_cell")
    hgv = hv.methods.get("get_voronoi_volumes")
    gu = hv.find_method("_get_upper_indices")
    if gu is None and hgv is not None:
        # the method whose result indexes the volumes:  [.. for i in self.<m>()]
        for n in ast.walk(hgv.node):
            if isinstance(n, ast.comprehension) and isinstance(n.iter, ast.Call) and isinstance(n.iter.func, ast.Attribute) and \
                    isinstance(n.iter.func.value, ast.Name) and n.iter.func.value.id == "self":
                gu = hv.find_method(n.iter.func.attr)
    if hapc is None or gu is None or hgv is None:
        raise AnalysisError("anchor vanished: HalfRotobjVoronoi helper/volume methods")
    for m in (hapc, gu, hgv):
        ctx.analysed(m)

    from ..astutil import hemisphere_predicates
    preds = hemisphere_predicates(repo)

    def predicate_polarity(fn_node):
        """list comprehensions filtering with q_in_upper_sphere: +1 positive, -1 negated"""
        out = []
        for c in ast.walk(fn_node):
            if isinstance(c, ast.ListComp):
                for g in c.generators:
                    for cond in g.ifs:
                        neg = False
                        x = cond
                        while isinstance(x, ast.UnaryOp) and isinstance(x.op, ast.Not):
                            neg = not neg
                            x = x.operand
                        if isinstance(x, ast.Call) and isinstance(x.func, ast.Name) and x.func.id in preds:
                            out.append(((-1 if neg else 1) * preds[x.func.id], src(g.iter)))
        return out
    pa, pb = predicate_polarity(hapc.node), predicate_polarity(gu.node)
    ctx.instance("SELECT")
    if not pa or not pb:
        ctx.inconclusive("SELECT", "C15.half.polarity", "hemisphere filters not recognised", hapc.where, witness=f"{pa} {pb}")
    else:
        ctx.check(pa[0][0] == pb[0][0] == 1, "SELECT", "C15.half.polarity", "helper points are kept with the same hemisphere predicate and "
                  "polarity (q_in_upper_sphere) as the centres of the half grid", hapc.where, "if q_in_upper_sphere(ap)",
                  witness=f"helpers polarity {pa[0][0]}, centres polarity {pb[0][0]}")
        ctx.check("additional_points" in pa[0][1], "SELECT", "C15.half.filter_target", "the filter is applied to the helper points", hapc.where,
                  witness=pa[0][1])
    sup = [n for n in ast.walk(hapc.node) if isinstance(n, ast.Return)]
    ctx.check(bool(sup) and "super()._additional_points_per_cell" in src(sup[-1].value), "FLOW", "C15.half.delegates", "after filtering, "
              "the half model delegates the assignment to the common implementation", hapc.where, witness=src(sup[-1].value) if sup else "")
    # volumes: full-sphere volumes at the upper indices
    ctx.instance("LAYOUT")
    full_call = [n for n in ast.walk(hgv.node) if isinstance(n, ast.Assign) and isinstance(n.value, ast.Call) and
                 src(n.value.func) == "self.full_voronoi.get_voronoi_volumes"]
    comp_ok = False
    comp_seen = False
    if full_call and isinstance(full_call[0].targets[0], ast.Name):
        vname = full_call[0].targets[0].id
        for c in ast.walk(hgv.node):
            if isinstance(c, ast.ListComp) and len(c.generators) == 1:
                g = c.generators[0]
                it_ok = isinstance(g.iter, ast.Call) and src(g.iter.func) == "self." + gu.name and not g.iter.args
                if isinstance(c.elt, ast.Subscript) and isinstance(c.elt.value, ast.Name) and c.elt.value.id == vname and \
                        isinstance(g.target, ast.Name) and isinstance(c.elt.slice, ast.Name) and c.elt.slice.id == g.target.id and \
                        it_ok and not g.ifs:
                    comp_seen = True
                    # the comprehension must be what is returned (possibly wrapped in np.array), not a re-ordered view of it
                    for r_ in ast.walk(hgv.node):
                        if isinstance(r_, ast.Return) and r_.value is not None:
                            v_ = r_.value
                            if isinstance(v_, ast.Call) and len(v_.args) == 1 and (repo.dotted_of(hgv.module, v_.func) or "") in ("numpy.array", "numpy.asarray"):
                                v_ = v_.args[0]
                            if v_ is c:
                                comp_ok = True
    if comp_ok:
        ctx.ok("LAYOUT", "C15.half.volumes", "half-sphere volumes are the full-sphere volumes taken at the (ascending) upper indices, i.e. "
               "the first N of the 2N double-cover volumes", hgv.where)
    elif comp_seen:
        ctx.violate("LAYOUT", "C15.half.volumes", "the selection of the full-sphere volumes at the upper indices is re-ordered or post-"
                    "processed before it is returned", hgv.where, "return np.array([all_volumes[i] for i in self._get_upper_indices()])",
                    witness="the returned expression is not the selection itself")
    else:
        # a different idiom: look for definite wrong selections, otherwise inconclusive
        txt = src(hgv.node)
        ctx.inconclusive("LAYOUT", "C15.half.volumes", "selection of half-sphere volumes not recognised", hgv.where, witness=txt[-200:])
    kw = {k.arg: src(k.value) for n in full_call for k in n.value.keywords}
    ctx.check(kw.get("approx") == "approx", "FLOW", "C15.half.approx", "the approx flag is passed through to the full-sphere computation",
              hgv.where, witness=str(kw))
    # upper indices ascending & over my_array  (shared with C04)
    from ..rules.ordkind import OrdAnalysis, ASC
    oa = OrdAnalysis(repo, gu).run()
    rk = oa.returns[-1][1] if oa.returns else None
    ctx.instance("ORD")
    ctx.check(rk is not None and rk.order == ASC, "ORD", "C15.half.upper_sorted", "upper indices ascending", gu.where, witness=str(rk))
    voro.double_cover_layout(ctx, repo, "C15")
    ctx.require_instances("COEF", 3, "coefficient obligations")
    ctx.require_instances("SELECT", 3, "selection obligations")
    ctx.trust(*META["trusted"])
