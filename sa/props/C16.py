"""C16 — radial grids: ORD on every dispatch branch, DOM (non-negativity before conversion and hash), COEF (x10 once),
FLOW (hash provenance), KERNEL (increments and between-radii formulas incl. the single-radius case)."""
from __future__ import annotations

import ast

from ..alg import Poly
from ..cfg import CFG
from ..interp import Interp, Hooks
from ..values import *
from .. import transfer as T
from ..model import AnalysisError, src, norm_stmt
from ..rules.ordkind import OrdAnalysis, ASC, DESC, UNKNOWN, UNORDERED

META = {
    "explanation": "Order-kind dataflow over TranslationParser.__init__ decides that the radial grid is ascending after the "
                   "format dispatch on every branch; a CFG dominator check decides that the non-negativity check precedes unit "
                   "conversion and hashing on every path; abstract interpretation per dispatch branch decides that the values "
                   "are multiplied by NM2ANGSTROM = 10 exactly once and that the identifier is computed from the converted array "
                   "only; get_increments and get_between_radii are interpreted symbolically for n>=2 radii and for one radius.",
    "decided": ["ascending order on the literal, linspace and range branches", "non-negativity check dominates conversion and hash",
                "x10 exactly once (NM2ANGSTROM == 10)", "hash depends on the converted array only",
                "increments = [r_1, r_2-r_1, ...] with a positivity assertion before return",
                "R_k = (r_k+r_{k+1})/2, R_T = r_T + (r_T-r_{T-1})/2, single radius: R = 2r; include_zero prepends 0"],
    "not_decided": ["numpy's linspace/arange arithmetic", "string parsing of the bracket contents (literal_eval)"],
    "trusted": [T.TABLE_VERSION, "np.sort ascending", "hashlib.md5 is a function of the array bytes"],
    "assumptions": ["assert statements enabled"],
}

TR = "molgri.space.translations"


class BranchHooks(Hooks):
    def __init__(self, linspace, rng):
        self.flags = {"linspace": linspace, "range": rng}

    def decide(self, interp, cond):
        if cond.kind == "in" and isinstance(cond.args[0], Const) and cond.args[0].v in self.flags:
            return self.flags[cond.args[0].v]
        return None


class NHooks(Hooks):
    """context n >= 2 for get_between_radii: decides comparisons that are linear in n"""

    def __init__(self, n_min):
        self.n_min = n_min

    def decide(self, interp, cond):
        if cond.kind == "cmp":
            op, l, r = cond.args
            d = l - r
            na = ("sym", "n")
            if d.atoms() <= {na} and d.degree_in(na) <= 1:
                a = d.coeff_of(na).as_const() if d.degree_in(na) == 1 else 0
                b = d.without(na).as_const()
                lo = a * self.n_min + b
                if a > 0:
                    return {">": True if lo > 0 else None, ">=": True if lo >= 0 else None, "<": False if lo >= 0 else None,
                            "<=": False if lo > 0 else None, "==": False if lo > 0 else None, "!=": True if lo > 0 else None}[op]
                if a < 0:
                    return {"<": True if lo < 0 else None, "<=": True if lo <= 0 else None, ">": False if lo <= 0 else None,
                            ">=": False if lo < 0 else None, "==": False if lo < 0 else None, "!=": True if lo < 0 else None}[op]
        return None


def term_ops(v, acc=None):
    acc = acc if acc is not None else []
    if isinstance(v, Term):
        acc.append(v.op)
        for a in list(v.args) + list(v.kw.values()):
            term_ops(a, acc)
    elif isinstance(v, TupleV):
        for a in v.items:
            term_ops(a, acc)
    elif isinstance(v, Grid):
        term_ops(v.elem, acc)
    elif isinstance(v, ListV):
        for it in v.items:
            if isinstance(it, Elem):
                term_ops(it.value, acc)
    return acc


def radii_conversion(ctx, repo, pid="C16"):
    """per input-format branch of TranslationParser.__init__: x10 exactly once, no quantisation, float dtype, hash provenance
    (shared with C09: the radii of the full-grid rows are these values)"""
    ci = repo.cls("molgri.space.translations", "TranslationParser")
    init = ci.methods.get("__init__")
    where = init.where
    # ---------------------------------------------------------------- COEF + FLOW per branch (abstract interpretation)
    for name, (ls, rg) in {"literal": (False, False), "linspace": (True, False), "range": (False, True)}.items():
        interp = Interp(repo, BranchHooks(ls, rg))
        obj = interp.instantiate(ci, [Term("user_input")], {})
        for f in interp.functions_entered:
            ctx.analysed(f)
        tg = obj.attrs.get("trans_grid")
        gh = obj.attrs.get("grid_hash")
        ctx.instance("COEF")
        tag = f"{pid}.{name}"
        top = contains_top(tg)
        if top:
            ctx.inconclusive("COEF", f"{tag}.x10", "converted grid not derived", where, witness=top)
            continue
        ok = isinstance(tg, Term) and tg.op == "mult" and len(tg.args) == 2 and \
            ((isinstance(tg.args[1], Num) and tg.args[1].p == Poly.const(10)) or (isinstance(tg.args[0], Num) and tg.args[0].p == Poly.const(10)))
        inner_ops = []
        if ok:
            inner = tg.args[0] if isinstance(tg.args[1], Num) else tg.args[1]
            inner_ops = term_ops(inner)
            ok = not any(o in ("mult", "div", "add", "sub", "pow") for o in inner_ops)
        ctx.check(ok, "COEF", f"{tag}.x10", f"{name} branch: values are multiplied by 10 exactly once and not otherwise rescaled", where,
                  "self.trans_grid = self.trans_grid * NM2ANGSTROM", witness=vstr(tg)[:300], derived=vstr(tg)[:200])
        lossy = [o for o in inner_ops if o in ("round", "m.round", "floor", "ceil", "trunc", "rint", "fix", "around", "digitize", "floor_divide")]
        ctx.instance("COEF")
        if ok and lossy:
            ctx.violate("COEF", f"{tag}.exact", f"{name} branch: the requested distances are quantised ({', '.join(lossy)}) before they are "
                        "converted: radii that need more digits are silently moved, increments and shell boundaries follow", where,
                        "self.trans_grid = ...", witness=vstr(tg)[:200])
        elif ok:
            ctx.ok("COEF", f"{tag}.exact", f"{name} branch: no rounding / quantisation between the parsed input and the converted grid", where)
        # the identifier hashes the BYTES of the array: every path must produce float64 data, else "2" and "2.0" / "[2]" hash differently
        def float_on_all_paths(t):
            if isinstance(t, Term):
                if t.op == "as_float":
                    return True
                if t.op in ("linspace", "arange", "array", "asarray", "full"):
                    dt = t.kw.get("dtype")
                    if isinstance(dt, ExtV) and dt.dotted in ("builtins.float", "numpy.float64", "numpy.double"):
                        return True
                    if t.op in ("array", "asarray") and t.args:
                        return float_on_all_paths(t.args[0])
                    return False
                if t.op == "phi":
                    alts = [a.items[1] if isinstance(a, TupleV) and len(a.items) == 2 else a for a in t.args]
                    return all(float_on_all_paths(a) for a in alts)
                if t.op in ("mult", "div", "add", "sub") and any(isinstance(a, Num) and a.p.is_const() and a.p.as_const().denominator != 1 for a in t.args):
                    return True
                if t.op == "div":
                    return True
                if t.args:
                    return float_on_all_paths(t.args[0])
            return False
        ctx.instance("FLOW")
        if ok:
            ctx.check(float_on_all_paths(tg), "FLOW", f"{tag}.dtype", f"{name} branch: the values are converted to float on every path before they "
                      "are hashed (the identifier depends on the array only, not on how a number was spelled)", where,
                      "np.array(..., dtype=float)", witness=f"a path reaches the hash without a float conversion: {vstr(tg)[:200]}")
        # the numbers inside the brackets reach the constructor unchanged and in the order they were written: np.linspace(start, stop, num) /
        # np.arange(start, stop, step) are DEFINED on the written triple (a descending request is made ascending by the sort afterwards,
        # not by re-interpreting the limits - with a half-open range that would drop the wrong end point)
        if ok and name in ("linspace", "range"):
            ctor_op = {"linspace": "linspace", "range": "arange"}[name]
            def find_ctor(t):
                if isinstance(t, Term):
                    if t.op == ctor_op:
                        return t
                    for a_ in t.args:
                        r_ = find_ctor(a_)
                        if r_ is not None:
                            return r_
                return None
            ct = find_ctor(tg)
            reader = ci.find_method("_read_within_brackets")
            ctx.instance("FLOW")
            if ct is not None and reader is not None:
                ref = Interp(repo, BranchHooks(ls, rg)).call_function(reader, [], {}, self_obj=obj)
                pos = [a_ for a_ in ct.args]
                refk = vkey(ref)

                def proj(x):
                    """k when x is element k of the bracket contents (possibly sign-flipped: ('neg', k)), else None"""
                    neg = False
                    while isinstance(x, Term) and x.op in ("neg", "negative") and x.args:
                        neg, x = not neg, x.args[0]
                    if isinstance(x, Term) and x.op in ("item", "unpack") and len(x.args) == 2 and vkey(x.args[0]) == refk and \
                            isinstance(x.args[1], Num) and x.args[1].p.is_const():
                        k_ = int(x.args[1].p.as_const())
                        return ("neg", k_) if neg else k_
                    return None

                def classify(x, depth=0):
                    """'same' | 'wrong: ...' | 'unknown' for one value handed to the constructor as *args"""
                    if vkey(x) == refk:
                        return "same"
                    if depth < 6 and isinstance(x, Term) and x.op == "phi":
                        res = []
                        for alt in x.args:
                            val = alt.items[1] if isinstance(alt, TupleV) and len(alt.items) == 2 else alt
                            res.append(classify(val, depth + 1))
                        wrong = [r_ for r_ in res if r_.startswith("wrong")]
                        return wrong[0] if wrong else ("same" if all(r_ == "same" for r_ in res) else "unknown")
                    if isinstance(x, TupleV):
                        ks = [proj(i_) for i_ in x.items]
                        if all(k_ is not None for k_ in ks):
                            if ks == list(range(len(ks))):
                                return "same"
                            return "wrong: arguments are elements " + str(ks) + " of the bracket contents"
                    return "unknown"
                cls_ = classify(pos[0].args[0]) if len(pos) == 1 and isinstance(pos[0], Term) and pos[0].op == "starred" else \
                    classify(TupleV(list(pos))) if pos else "unknown"
                if cls_ == "same":
                    ctx.ok("FLOW", f"{tag}.args", f"{name} branch: np.{ctor_op} receives exactly the bracket contents, in the written order", where,
                           f"np.{ctor_op}(*bracket_input, dtype=float)")
                elif cls_.startswith("wrong"):
                    ctx.violate("FLOW", f"{tag}.args", f"{name} branch: the numbers written inside the brackets are re-ordered / sign-flipped before "
                                f"they reach np.{ctor_op}: the grid is no longer the one the input text describes (a descending half-open "
                                "range rewritten as an ascending one keeps the wrong end point)", where, f"np.{ctor_op}(*bracket_input, dtype=float)",
                                witness=cls_[7:])
                else:
                    ctx.inconclusive("FLOW", f"{tag}.args", f"{name} branch: how the bracket contents reach np.{ctor_op} is not recognised", where,
                                     witness=contains_top(ref) or vstr(pos[0] if pos else ct)[:240])
            elif reader is not None and ct is not None:
                pass
        # every accepted spelling ends as a ONE-dimensional array (a bare number "0.3" parses to a 0-d array: only a flattening
        # operation on every path - np.sort(axis=None), ravel, flatten, atleast_1d, reshape(-1) - makes len() and indexing work)
        def flat_on_all_paths(t):
            if isinstance(t, Term):
                if t.op == "sort" and isinstance(t.kw.get("axis"), Const) and t.kw["axis"].v is None:
                    return True
                if t.op in ("ravel", "flatten", "m.ravel", "m.flatten", "atleast_1d", "linspace", "arange"):
                    return True
                if t.op in ("reshape", "m.reshape") and len(t.args) >= 2 and isinstance(t.args[-1], Num) and t.args[-1].p == Poly.const(-1):
                    return True
                if t.op == "phi":
                    alts = [a.items[1] if isinstance(a, TupleV) and len(a.items) == 2 else a for a in t.args]
                    return all(flat_on_all_paths(a) for a in alts)
                if t.args:
                    return flat_on_all_paths(t.args[0]) or (t.op in ("mult", "div", "add", "sub") and any(flat_on_all_paths(a) for a in t.args))
            return False
        ctx.instance("FLOW")
        if ok:
            ctx.check(flat_on_all_paths(tg), "FLOW", f"{tag}.onedim", f"{name} branch: the values are flattened to a one-dimensional array on every "
                      "path (a single radius written as a bare number does not stay a 0-d array)", where, "np.sort(self.trans_grid, axis=None)",
                      witness=f"a path reaches the end of the constructor without a flattening operation: {vstr(tg)[:200]}")
        # dispatch reaches the right constructor
        exp_op = {"literal": "literal_eval", "linspace": "linspace", "range": "arange"}[name]
        ctx.check(exp_op in inner_ops, "DISPATCH", f"{tag}.ctor", f"{name} branch builds the grid with {exp_op}", where,
                  witness=f"operations: {inner_ops}")
        ctx.check("sort" in inner_ops, "ORD", f"{tag}.sorted", f"{name} branch: values pass through a sort before conversion", where,
                  "np.sort(self.trans_grid)", witness=f"operations: {inner_ops}",
                  ) if ok else None
        # hash provenance
        ctx.instance("FLOW")
        md5 = None
        st = [gh]
        while st:
            x = st.pop()
            if isinstance(x, Term):
                if x.op.startswith("hashlib."):
                    md5 = x
                    break
                st.extend(list(x.args) + list(x.kw.values()))
            elif isinstance(x, TupleV):
                st.extend(x.items)
        if md5 is None:
            r = contains_top(gh)
            (ctx.inconclusive if r else ctx.violate)("FLOW", f"{tag}.hash", "grid identifier is not a hash of the grid", where,
                                                     "self.grid_hash = ...", witness=r or vstr(gh)[:200])
        else:
            arg = md5.args[0] if md5.args else None
            ctx.check(arg is not None and vkey(arg) == vkey(tg), "FLOW", f"{tag}.hash", f"{name} branch: the identifier is computed "
                      "from the converted array only (not from the input syntax)", where, "hashlib.md5(self.trans_grid)",
                      witness=f"hashed value: {vstr(arg)[:200]}")



def run(ctx, repo, tier):
    ci = repo.cls(TR, "TranslationParser")
    init = ci.find_method("__init__")
    if init is None:
        raise AnalysisError("anchor vanished: TranslationParser.__init__")
    ctx.analysed(init)
    where = init.where
    ten = repo.module_const("molgri.constants", "NM2ANGSTROM")
    ctx.instance("COEF")
    ctx.check(ten == 10, "COEF", "C16.const", "NM2ANGSTROM == 10 (nm -> Angstrom)", "molgri/constants.py", "NM2ANGSTROM = ...",
              witness=f"value {ten}")

    # ---------------------------------------------------------------- ORD: ascending on every branch
    # private parameterless steps called from __init__ (`self._parse(); self._convert()` ...) are spliced in: the path rules below
    # are about the constructor as a whole
    from ..astutil import splice_self_calls
    from ..model import FunctionInfo, set_parents
    spliced = splice_self_calls(ci, init.node)
    set_parents(spliced)
    init = FunctionInfo(init.name, init.qualname, init.module, spliced, init.cls)
    oa = OrdAnalysis(repo, init).run()
    k = oa.env.get("self.trans_grid")
    ctx.instance("ORD")
    if k is None:
        ctx.inconclusive("ORD", "C16.order", "self.trans_grid is not assigned in TranslationParser.__init__", where)
    else:
        alts = k.alts or ((k.order, k.why),)
        bad = [(o, w) for o, w in alts if o != ASC]
        if not bad:
            ctx.ok("ORD", "C16.order", "trans_grid is ascending at the end of __init__ on every dispatch branch", where,
                   derived="; ".join(f"{o}: {w}" for o, w in alts))
        else:
            known_bad = [(o, w) for o, w in bad if "direction unknown" in w or o in (DESC, UNORDERED) or "range with" in w]
            if known_bad:
                ctx.violate("ORD", "C16.order", "on some format branch the distances are not sorted: e.g. 'linspace(0.5, 0.1, 3)' or "
                            "'range(0.5, 0.1, -0.1)' yields a descending grid", where, "self.trans_grid = np.linspace(...)/np.arange(...)",
                            witness="; ".join(f"{o}: {w}" for o, w in known_bad),
                            key="ORD|molgri/space/translations.py:TranslationParser.__init__|linspace/range branch unsorted")
            else:
                ctx.inconclusive("ORD", "C16.order", "order of trans_grid not derivable on some branch", where,
                                 witness="; ".join(f"{o}: {w}" for o, w in bad))

    # ---------------------------------------------------------------- bracket contents: between '(' and the matching ')' wherever it stands
    rb = ci.find_method("_read_within_brackets")
    if rb is not None:
        ctx.analysed(rb)
        ctx.instance("FLOW")
        cn_rb = Canon(Canon.single_defs(rb.node.body)) if "Canon" in globals() else None
        le = [n for n in ast.walk(rb.node) if isinstance(n, ast.Call) and src(n.func).split(".")[-1] == "literal_eval" and n.args]
        if not le:
            ctx.inconclusive("FLOW", "C16.brackets", "evaluation of the bracket contents not found", rb.where)
        else:
            from ..astutil import Canon as _Cn
            e_ = _Cn(_Cn.single_defs(rb.node.body)).expand(le[0].args[0])
            # first definition of a re-assigned name: walk assignments in order
            firsts = [a_.value for a_ in rb.node.body if isinstance(a_, ast.Assign) and isinstance(a_.targets[0], ast.Name) and
                      isinstance(le[0].args[0], ast.Name) and a_.targets[0].id == le[0].args[0].id]
            if firsts:
                e_ = firsts[0]
            txt_ = src(e_).replace(" ", "").replace('"', "'")
            by_close = any(isinstance(x_, ast.Subscript) and isinstance(x_.slice, ast.Constant) and x_.slice.value == 0 and
                           isinstance(x_.value, ast.Call) and isinstance(x_.value.func, ast.Attribute) and
                           x_.value.func.attr in ("split", "rsplit", "partition", "rpartition") and x_.value.args and
                           isinstance(x_.value.args[0], ast.Constant) and x_.value.args[0].value == ")" for x_ in ast.walk(e_))
            if not by_close and isinstance(le[0].args[0], ast.Name):
                # head, sep, tail = text.partition(')')
                for a_ in ast.walk(rb.node):
                    if isinstance(a_, ast.Assign) and len(a_.targets) == 1 and isinstance(a_.targets[0], ast.Tuple) and a_.targets[0].elts and \
                            isinstance(a_.targets[0].elts[0], ast.Name) and a_.targets[0].elts[0].id == le[0].args[0].id and \
                            isinstance(a_.value, ast.Call) and isinstance(a_.value.func, ast.Attribute) and \
                            a_.value.func.attr in ("partition", "rpartition", "split", "rsplit") and a_.value.args and \
                            isinstance(a_.value.args[0], ast.Constant) and a_.value.args[0].value == ")":
                        by_close = True
                        e_ = a_.value
            fixed = isinstance(e_, ast.Subscript) and isinstance(e_.slice, ast.Slice) and e_.slice.upper is not None and \
                isinstance(e_.slice.upper, (ast.UnaryOp, ast.Constant)) and ".strip()" not in txt_ and ".rstrip()" not in txt_
            if by_close:
                ctx.ok("FLOW", "C16.brackets", "the bracket contents end at the closing bracket, wherever it stands in the text", rb.where, src(e_)[:120])
            elif fixed:
                ctx.violate("FLOW", "C16.brackets", "the bracket contents are cut at a fixed position from the END of the text: any character after the "
                            "closing bracket (a trailing newline or blank, as in a value read from a file) ends up inside the expression and the "
                            "grid is not parsed", rb.where, src(e_)[:120], witness="'linspace(0.2, 0.4, 10)\\n'[:-1] still ends in ')'")
            else:
                ctx.inconclusive("FLOW", "C16.brackets", "extraction of the bracket contents not recognised", rb.where, witness=src(e_)[:120])
    # ---------------------------------------------------------------- DOM: check dominates conversion and hash
    cfg = CFG(init.node)
    def is_self_attr(n, attr):
        return isinstance(n, ast.Attribute) and isinstance(n.value, ast.Name) and n.value.id == "self" and n.attr == attr
    checks, convs, hashes, assigns = [], [], [], []
    from ..astutil import Canon as _CanonT
    _cn_test = _CanonT(_CanonT.single_defs(init.node.body))
    test_of = {}          # the predicate of a check with its single-definition locals spelled out (has_negative = np.any(x < 0) ...)
    for node in cfg.nodes:
        s = node.stmt
        if s is None:
            continue
        if isinstance(s, (ast.Assert, ast.If)):
            test_of[id(s)] = _cn_test.expand(s.test)
        if isinstance(s, ast.Assert) and any(is_self_attr(x, "trans_grid") for x in ast.walk(test_of[id(s)])) and \
                any(isinstance(x, ast.Compare) and isinstance(x.ops[0], (ast.GtE, ast.Gt, ast.Lt, ast.LtE)) for x in ast.walk(test_of[id(s)])):
            checks.append(node)
        if isinstance(s, ast.If) and any(is_self_attr(x, "trans_grid") for x in ast.walk(test_of[id(s)])) and \
                any(isinstance(b, ast.Raise) for b in s.body) and \
                any(isinstance(x, ast.Compare) and isinstance(x.ops[0], (ast.Lt, ast.LtE)) for x in ast.walk(test_of[id(s)])):
            checks.append(node)
        if isinstance(s, (ast.Assign, ast.AugAssign)):
            tgts = s.targets if isinstance(s, ast.Assign) else [s.target]
            if any(is_self_attr(t, "trans_grid") for t in tgts):
                assigns.append(node)
                val = s.value
                mult = isinstance(s, ast.AugAssign) and isinstance(s.op, ast.Mult) or \
                    any(isinstance(x, ast.BinOp) and isinstance(x.op, ast.Mult) and
                        any(is_self_attr(y, "trans_grid") for y in ast.walk(x)) for x in ast.walk(val))
                if mult:
                    convs.append(node)
            if any(is_self_attr(t, "grid_hash") for t in tgts):
                hashes.append(node)
    ctx.instance("DOM", len(checks) + len(convs) + len(hashes))
    # ---- what the check rejects: the predicate is evaluated on three sign profiles of the array (finite partition of the inputs)
    PROFILES = {"non-negative (with a zero)": [0.0, 1.0, 2.5], "mixed signs": [-1.0, 0.0, 2.0], "all negative": [-1.0, -2.0]}
    import operator as _op
    CMP = {ast.Lt: _op.lt, ast.LtE: _op.le, ast.Gt: _op.gt, ast.GtE: _op.ge, ast.Eq: _op.eq, ast.NotEq: _op.ne}

    def elems(e, vals):
        """elementwise Boolean list of `self.trans_grid <op> c` (either side), else None"""
        if isinstance(e, ast.Compare) and len(e.ops) == 1 and type(e.ops[0]) in CMP:
            l, r = e.left, e.comparators[0]
            if is_self_attr(l, "trans_grid") and isinstance(r, ast.Constant) and isinstance(r.value, (int, float)):
                return [CMP[type(e.ops[0])](v, r.value) for v in vals]
            if is_self_attr(r, "trans_grid") and isinstance(l, ast.Constant) and isinstance(l.value, (int, float)):
                return [CMP[type(e.ops[0])](l.value, v) for v in vals]
        if isinstance(e, ast.Call) and src(e.func).split(".")[-1] in ("isnan", "isinf") and e.args and is_self_attr(e.args[0], "trans_grid"):
            return [False for _ in vals]          # the sign profiles are finite numbers
        if isinstance(e, ast.Call) and src(e.func).split(".")[-1] == "isfinite" and e.args and is_self_attr(e.args[0], "trans_grid"):
            return [True for _ in vals]
        return None

    def truth(e, vals):
        if isinstance(e, ast.UnaryOp) and isinstance(e.op, ast.Not):
            t = truth(e.operand, vals)
            return None if t is None else (not t)
        if isinstance(e, ast.BoolOp):
            ts = [truth(v, vals) for v in e.values]
            if any(t is None for t in ts):
                return None
            return all(ts) if isinstance(e.op, ast.And) else any(ts)
        if isinstance(e, ast.Call):
            fn = src(e.func).split(".")[-1]
            if fn in ("all", "any", "alltrue", "sometrue"):
                arg = e.args[0] if e.args else (e.func.value if isinstance(e.func, ast.Attribute) else None)
                el = elems(arg, vals) if arg is not None else None
                if el is None:
                    return None
                return all(el) if fn in ("all", "alltrue") else any(el)
        if isinstance(e, ast.Compare) and len(e.ops) == 1 and type(e.ops[0]) in CMP:
            # min(x) < 0 , x.min() >= 0, max ...
            def agg(x):
                if isinstance(x, ast.Call):
                    fn = src(x.func).split(".")[-1]
                    tgt = x.args[0] if x.args else (x.func.value if isinstance(x.func, ast.Attribute) else None)
                    if fn in ("min", "amin", "max", "amax") and tgt is not None and is_self_attr(tgt, "trans_grid"):
                        return (min if fn in ("min", "amin") else max)(vals)
                if isinstance(x, ast.Constant) and isinstance(x.value, (int, float)):
                    return x.value
                return None
            a_, b_ = agg(e.left), agg(e.comparators[0])
            if a_ is not None and b_ is not None:
                return CMP[type(e.ops[0])](a_, b_)
        return None
    for node in checks:
        s_ = node.stmt
        verdicts = {}
        for pname, vals in PROFILES.items():
            t = truth(test_of.get(id(s_), s_.test), vals)
            verdicts[pname] = None if t is None else ((not t) if isinstance(s_, ast.Assert) else t)
        ctx.instance("DOM")
        if any(v is None for v in verdicts.values()):
            ctx.inconclusive("DOM", "C16.nonneg.predicate", "the predicate of the non-negativity check is not of a recognised form", where,
                             witness=src(s_.test)[:120])
        elif verdicts["non-negative (with a zero)"] is False and verdicts["mixed signs"] is True and verdicts["all negative"] is True:
            ctx.ok("DOM", "C16.nonneg.predicate", "the check rejects exactly the arrays that contain a negative distance (zero is allowed)", where,
                   src(s_.test)[:120])
        else:
            wrong = [k for k, v in verdicts.items() if v != (k != "non-negative (with a zero)")]
            ctx.violate("DOM", "C16.nonneg.predicate", "the non-negativity check does not reject exactly the arrays with a negative distance", where,
                        src(s_.test)[:120], witness="; ".join(f"{k}: {'rejected' if verdicts[k] else 'accepted'}" for k in wrong))
    if not checks:
        ctx.violate("DOM", "C16.nonneg", "no non-negativity check of the distances in TranslationParser.__init__: negative "
                    "distances are accepted", where, "assert np.all(self.trans_grid >= 0)", witness="no assert / guarded raise on trans_grid found")
    elif not convs or not hashes:
        ctx.inconclusive("DOM", "C16.nonneg", "unit conversion or hash statement not recognised", where,
                         witness=f"conversions={len(convs)} hashes={len(hashes)}")
    else:
        def restored_from_checked_memo(tgt):
            """the statement restores a value read from a module-level memo whose every store site lies behind the check:
            True / False (a store site escapes the check) / None (not such a statement)"""
            from ..astutil import local_defs_with_unpack
            ld = local_defs_with_unpack(init.node.body)
            for st_ in ast.walk(init.node):          # definitions nested in branches as well
                if isinstance(st_, ast.Assign) and len(st_.targets) == 1:
                    t_ = st_.targets[0]
                    if isinstance(t_, ast.Name):
                        ld.setdefault(t_.id, st_.value)
                    elif isinstance(t_, ast.Tuple):
                        for e_ in t_.elts:
                            if isinstance(e_, ast.Name):
                                ld.setdefault(e_.id, st_.value)
            v_ = tgt.stmt.value
            seen_, cont = set(), None
            stack_ = [v_]
            mod_names = {n_.targets[0].id for n_ in init.module.tree.body if isinstance(n_, ast.Assign) and len(n_.targets) == 1 and
                         isinstance(n_.targets[0], ast.Name) and isinstance(n_.value, (ast.Dict, ast.Call))}
            while stack_:
                e_ = stack_.pop()
                for x_ in ast.walk(e_):
                    if isinstance(x_, ast.Name) and x_.id in mod_names:
                        cont = x_.id
                    elif isinstance(x_, ast.Name) and x_.id in ld and x_.id not in seen_:
                        seen_.add(x_.id)
                        stack_.append(ld[x_.id])
            if cont is None:
                return None
            # store sites of the container anywhere in the module
            def stores_in(fn_node):
                return [n_ for n_ in ast.walk(fn_node) if isinstance(n_, ast.Assign) and any(isinstance(t_, ast.Subscript) and
                        isinstance(t_.value, ast.Name) and t_.value.id == cont for t_ in n_.targets)]
            helper_names = {f_.name.split(".")[-1] for f_ in init.module.functions.values() if f_.cls is None and stores_in(f_.node)}
            other = [f_ for c_ in init.module.classes.values() for f_ in c_.methods.values()
                     if f_.name != "__init__" or c_.name != ci.name if stores_in(f_.node) or
                     any(isinstance(n_, ast.Call) and isinstance(n_.func, ast.Name) and n_.func.id in helper_names for n_ in ast.walk(f_.node))]
            if other:
                return False
            sites = [nd for nd in cfg.nodes if nd.stmt is not None and (
                (isinstance(nd.stmt, ast.Assign) and nd.stmt in stores_in(init.node)) or
                (isinstance(nd.stmt, ast.Expr) and isinstance(nd.stmt.value, ast.Call) and isinstance(nd.stmt.value.func, ast.Name) and
                 nd.stmt.value.func.id in helper_names))]
            if not sites:
                return None
            return all(any(cfg.dominates(c, sd) for c in checks) for sd in sites)
        for tgt, what in [(c, "unit conversion") for c in convs] + [(h, "hash") for h in hashes]:
            ok = any(cfg.dominates(c, tgt) for c in checks)
            if not ok:
                # several statements of this kind: judge each; a restore from a memo that is only filled behind the check is sound
                rm = restored_from_checked_memo(tgt) if isinstance(tgt.stmt, ast.Assign) else None
                if rm is True:
                    ctx.ok("DOM", f"C16.nonneg.{what.split()[0]}", f"the {what} value is restored from a memo whose only store sites lie behind "
                           "the non-negativity check (key soundness: CACHE rule)", where, norm_stmt(tgt.stmt))
                    continue
                if rm is False:
                    ctx.inconclusive("DOM", f"C16.nonneg.{what.split()[0]}", f"the {what} value is restored from a memo that is also written "
                                     "outside the checked constructor", where, norm_stmt(tgt.stmt))
                    continue
            ctx.check(ok, "DOM", f"C16.nonneg.{what.split()[0]}", f"the non-negativity check dominates the {what} on every path", where,
                      norm_stmt(tgt.stmt), witness=f"a path reaches `{norm_stmt(tgt.stmt)}` without passing the check")
        # no re-definition of trans_grid between the check and the conversion (other than the conversion itself)
        reach = set()
        st = list(checks)
        while st:
            n = st.pop()
            for s2 in n.succ:
                if s2 not in reach:
                    reach.add(s2)
                    st.append(s2)
        late = [a for a in assigns if a in reach and a not in convs]
        ctx.check(not late, "DOM", "C16.nonneg.last", "the check is applied to the final values (no other re-definition of "
                  "trans_grid follows it)", where, norm_stmt(late[0].stmt) if late else "", witness="trans_grid is re-assigned after the check")

    # values must reach the check unaltered in sign: abs / clip / maximum / square before the check would turn a rejection into
    # a silent conversion
    SIGN_KILLERS = {"numpy.abs", "numpy.absolute", "numpy.fabs", "numpy.clip", "numpy.maximum", "numpy.square", "builtins.abs"}
    for node in cfg.nodes:
        st = node.stmt
        if isinstance(st, (ast.Assign, ast.AugAssign)):
            tgts = st.targets if isinstance(st, ast.Assign) else [st.target]
            if not any(is_self_attr(t, "trans_grid") for t in tgts):
                continue
            for c in ast.walk(st.value):
                if isinstance(c, ast.Call):
                    d = repo.dotted_of(init.module, c.func) or ("builtins." + c.func.id if isinstance(c.func, ast.Name) else "")
                    meth = c.func.attr if isinstance(c.func, ast.Attribute) else ""
                    if d in SIGN_KILLERS or (meth in ("clip",) and not d.startswith("numpy.")):
                        before_check = checks and not any(cfg.dominates(ch, node) for ch in checks)
                        ctx.instance("DOM")
                        if before_check or not checks:
                            ctx.violate("DOM", "C16.nonneg.sign", "the distances pass through a transformation that removes their sign before "
                                        "the non-negativity check: negative distances are silently converted instead of rejected (and the "
                                        "result may be unsorted / contain duplicates)", where, norm_stmt(st)[:160],
                                        witness=f"{src(c)[:80]} is applied before the check")
    radii_conversion(ctx, repo, "C16")
    # ---------------------------------------------------------------- increments
    gi = repo.func(TR, "get_increments")
    ctx.analysed(gi)
    n = Poly.sym("n")
    interp = Interp(repo, NHooks(2))
    res = interp.call_function(gi, [T.vec(interp, "r", n)], {})
    segs = T.segments(interp, res) if isinstance(res, Grid) else None
    j = Poly.sym("j")
    r_at = lambda p: Poly.app("at", "r", p)
    ctx.instance("KERNEL", 2)
    if segs is None:
        ctx.inconclusive("KERNEL", "C16.increments", "result of get_increments not derived", gi.where, witness=contains_top(res) or vstr(res)[:200])
    else:
        got = [(s.pretty(), l.pretty(), vstr(f(j))) for s, l, f in segs]
        spec = [("0", "1", r_at(Poly.const(0)).pretty()), ("1", (n - 1).pretty(), (r_at(j + 1) - r_at(j)).pretty())]
        ctx.check(got == spec, "KERNEL", "C16.increments", "increments = [r_1] followed by r_{k+1} - r_k (later minus earlier)", gi.where,
                  "increment_grid.append(stop - start)", witness=f"derived {got}", derived=str(got))
        pos_assert = [a for a in interp.asserts if a[0] == gi.where and "'>'" in vstr(a[1]) or (a[0] == gi.where and ">" in vstr(a[1]))]
        ctx.check(bool(pos_assert), "DOM", "C16.increments.positive", "positivity of all increments is asserted before returning", gi.where,
                  "assert np.all(increment_grid > 0)", witness="no positivity assertion on the increments")
    # ---------------------------------------------------------------- between radii, n >= 2
    gb = repo.func(TR, "get_between_radii")
    ctx.analysed(gb)
    for inc0 in (False, True):
        interp = Interp(repo, NHooks(2))
        res = interp.call_function(gb, [T.vec(interp, "r", n)], {"include_zero": Const(inc0)})
        for f in interp.functions_entered:
            ctx.analysed(f)
        segs = T.segments(interp, res) if isinstance(res, Grid) else None
        ctx.instance("KERNEL")
        tag = "C16.between" + (".zero" if inc0 else "")
        if segs is None:
            ctx.inconclusive("KERNEL", tag, "result of get_between_radii not derived", gb.where, witness=contains_top(res) or vstr(res)[:300])
            continue
        got = [(s.pretty(), l.pretty(), vstr(f(j))) for s, l, f in segs]
        half = Poly.const(1) / 2
        mid = (half * r_at(j) + half * r_at(j + 1))
        last = (r_at(j + n - 1) + half * r_at(n - 1) - half * r_at(n - 2))
        mid_f = lambda jj: half * r_at(jj) + half * r_at(jj + 1)
        last_f = lambda jj: r_at(jj + n - 1) + half * r_at(n - 1) - half * r_at(n - 2)
        spec = [("0", (n - 1).pretty(), mid.pretty()), ((n - 1).pretty(), "1", last.pretty())]
        if inc0:
            spec = [("0", "1", "0"), ("1", (n - 1).pretty(), mid.pretty()), (n.pretty(), "1", last.pretty())]
        # semantic comparison piece by piece (a piece of length one is compared at its only index)
        specp = [(Poly.const(0), n - 1, lambda jj: mid_f(jj)), (n - 1, Poly.const(1), lambda jj: last_f(jj))]
        if inc0:
            specp = [(Poly.const(0), Poly.const(1), lambda jj: Poly.const(0)), (Poly.const(1), n - 1, lambda jj: mid_f(jj)),
                     (n, Poly.const(1), lambda jj: last_f(jj))]
        desc = "shell boundaries: R_k midway between consecutive radii, last boundary half the last increment above the last radius" + \
            ("; 0 prepended when include_zero" if inc0 else "")
        same_bounds = len(segs) == len(specp) and all(s_ == a_ and l_ == b_ for (s_, l_, _), (a_, b_, _) in zip(segs, specp))
        if not same_bounds:
            ctx.inconclusive("KERNEL", tag, "result of get_between_radii is split into pieces that do not line up with the specification",
                             gb.where, witness=f"derived {got} ; expected {spec}")
        else:
            bad_piece = None
            for (s_, l_, f_), (_, _, g_) in zip(segs, specp):
                jj = Poly.const(0) if l_ == Poly.const(1) else j
                v_ = f_(jj)
                if not isinstance(v_, Num):
                    bad_piece = ("?", vstr(v_)[:120])
                    break
                if not (v_.p - g_(jj)).is_zero():
                    bad_piece = (s_.pretty(), f"{v_.p.pretty()} != {g_(jj).pretty()}")
                    break
            if bad_piece is None:
                ctx.ok("KERNEL", tag, desc, gb.where, derived=str(got))
            elif bad_piece[0] == "?":
                ctx.inconclusive("KERNEL", tag, "a piece of the result is not a closed formula", gb.where, witness=bad_piece[1])
            else:
                ctx.violate("KERNEL", tag, desc, gb.where, "between_radii = my_array + increments",
                            witness=f"piece starting at {bad_piece[0]}: {bad_piece[1]} ; derived {got}")
    # ---------------------------------------------------------------- single radius
    interp = Interp(repo, Hooks())
    res = interp.call_function(gb, [T.vec(interp, "r", Poly.const(1))], {})
    ctx.instance("LEN")
    idx_raises = [r for r in interp.raises if r[0] == "IndexError"]
    if idx_raises:
        ctx.violate("LEN", "C16.between.single", "get_between_radii fails for a single radius", gb.where, "increments[...]",
                    witness=str(idx_raises[0][2]))
    elif isinstance(res, Grid) and isinstance(res.elem, Num):
        val = res.elem.p.subs({res.dims[0][0][0]: Poly.const(0)})
        ctx.check(val == 2 * r_at(Poly.const(0)) and res.dim_len(0) == Poly.const(1), "KERNEL", "C16.between.single",
                  "single radius r gives the boundary R = 2r", gb.where, "between_radii = my_array + increments",
                  witness=f"derived {val.pretty()}", derived=val.pretty())
    else:
        ctx.inconclusive("KERNEL", "C16.between.single", "single-radius result not derived", gb.where, witness=contains_top(res) or vstr(res)[:200])
    # single radius with the origin prepended (the form the position Voronoi model asks for): [0, 2r]
    interp0 = Interp(repo, Hooks())
    res0 = interp0.call_function(gb, [T.vec(interp0, "r", Poly.const(1))], {"include_zero": Const(True)})
    ctx.instance("LEN")
    g0 = res0 if isinstance(res0, Grid) else T.to_grid(interp0, res0)
    if isinstance(g0, Grid) and g0.ndim == 1 and not contains_top(g0) and g0.dim_len(0).is_const():
        n0 = g0.dim_len(0)
        vals0 = []
        d0 = interp0.iter_desc(T.simplify_pw(interp0, g0))
        if d0 is not None and n0.as_const() <= 4:
            for k_ in range(int(n0.as_const())):
                e_ = d0[1](Poly.const(k_))
                e_ = T._resolve_pw_scalar(interp0, e_) if not isinstance(e_, Num) else e_
                vals0.append(e_.p if isinstance(e_, Num) else None)
        if None in vals0 or not vals0:
            ctx.inconclusive("KERNEL", "C16.between.single.zero", "single-radius result with include_zero not derived", gb.where, witness=vstr(res0)[:200])
        else:
            ok0 = len(vals0) == 2 and vals0[0].is_zero() and vals0[1] == 2 * r_at(Poly.const(0))
            ctx.check(ok0, "KERNEL", "C16.between.single.zero", "single radius r with include_zero gives the boundaries [0, 2r]", gb.where,
                      "between_radii = np.concatenate([[0,], between_radii])", witness=f"derived {[v_.pretty() for v_ in vals0]}")
    else:
        ctx.inconclusive("KERNEL", "C16.between.single.zero", "single-radius result with include_zero not derived", gb.where,
                         witness=contains_top(res0) or vstr(res0)[:200])
    # out-of-range constant subscripts recorded by the interpreter on exactly-known lengths (LEN)
    for node, w, ln, ix, guards, what in interp.index_obligations:
        if ln is not None and ln.is_const() and ix.is_const():
            L, I = ln.as_const(), ix.as_const()
            ctx.instance("LEN")
            ctx.check(-L <= I < L, "LEN", "C16.len", f"{what} {I} is within the exact length {L} (single-radius context)", w,
                      src(node) if node is not None else "", witness=f"index {I} of length {L}")

    # getters return the stored array / use the module functions
    for mname, expect in (("get_trans_grid", "trans_grid"), ("get_increments", "get_increments")):
        m = ci.find_method(mname)
        if m is None:
            raise AnalysisError(f"anchor vanished: TranslationParser.{mname}")
        ctx.analysed(m)
        rets = [x for x in ast.walk(m.node) if isinstance(x, ast.Return) and x.value is not None]
        ctx.instance("FLOW")
        ctx.check(len(rets) == 1 and expect in src(rets[0].value), "FLOW", f"C16.getter.{mname}", f"{mname} returns "
                  f"{'the stored array' if expect == 'trans_grid' else 'get_increments of the stored array'}", m.where,
                  src(rets[0]) if rets else "", witness="getter does not return the expected value")
    ctx.require_instances("DOM", 3, "dominance obligations")
    ctx.require_instances("COEF", 4, "coefficient obligations")
    ctx.trust(*META["trusted"])
    ctx.assume(*META["assumptions"])
