"""C17 — grid names: exhaustive finite abstract evaluation of GridNameParser (TABLE) + OPTCMP + DISPATCH."""
from __future__ import annotations

import ast

from ..alg import Poly
from ..interp import Interp, Hooks
from ..values import *
from .. import transfer as T
from ..model import AnalysisError, src

# the factories that turn a parsed name into a grid object belong to the construction clause
EXTRA_MODULES = ["molgri.space.rotobj"]

META = {
    "explanation": "The name parser only ever *compares* its inputs with constants, so its behaviour on all names is a finite "
                   "table. The checker abstractly evaluates (a) the two token scanners over the token-count classes {0,1,>=2} "
                   "and (b) GridNameParser.__init__ over role x ['zero' in name] x algorithm token x N-class {None,0,1,>=2} "
                   "(symbolic N>=2), on /repo's current source, and compares every outcome with the rules of the property; "
                   "re-parsing of every produced standard name is evaluated inside the table; every producible algorithm "
                   "must have a branch in the role's factory.",
    "decided": ["outcome is ValueError or (algorithm, N) - never another exception (OPTCMP: ordering on None)",
                "N>=1, algorithm valid for the role, N=1 <=> zero algorithm, bare N>=2 -> role default",
                ">=2 numbers / >=2 algorithm tokens -> ValueError; 1 -> that token; 0 -> None",
                "idempotence of the standard name", "factory exhaustiveness for every producible algorithm"],
    "not_decided": ["names carrying a dimension tag (left unspecified by the property)",
                    "that the constructed grid really has N points (C07/C19)"],
    "trusted": ["python-subset semantics of sa.interp", "str.split/isnumeric/int semantics"],
    "assumptions": ["N tokens are non-negative integers (str.isnumeric)"],
}


class ScanHooks(Hooks):
    """decides comparisons on the length of the candidate list according to the count class (exact value or >= bound)"""

    def __init__(self, value, at_least=False):
        self.value = value
        self.at_least = at_least
        self.undecided = []

    def decide(self, interp, cond):
        if cond.kind == "truthy" and cond.args and isinstance(cond.args[0], ListV):
            # `if candidates:` / `if not candidates:`  ==  len(candidates) > 0
            if not self.at_least:
                return self.value > 0
            return True if self.value > 0 else None
        if cond.kind == "cmp":
            op, l, r = cond.args
            d = l - r
            lens = [a for a in d.atoms() if a[0] == "app" and a[1] == "len"]
            if len(lens) == 1 and d.degree_in(lens[0]) == 1 and d.coeff_of(lens[0]).is_const():
                a = d.coeff_of(lens[0]).as_const()
                b = d.without(lens[0])
                if b.is_const():
                    b = b.as_const()
                    x = a * self.value + b
                    if not self.at_least:
                        return {"<": x < 0, "<=": x <= 0, ">": x > 0, ">=": x >= 0, "==": x == 0, "!=": x != 0}[op]
                    lo = x        # value at the lower bound; monotone in len
                    if a > 0:
                        res = {">": True if lo > 0 else None, ">=": True if lo >= 0 else None, "<": False if lo >= 0 else None,
                               "<=": False if lo > 0 else None, "==": False if lo > 0 else None, "!=": True if lo > 0 else None}[op]
                    elif a < 0:
                        res = {"<": True if lo < 0 else None, "<=": True if lo <= 0 else None, ">": False if lo <= 0 else None,
                               ">=": False if lo < 0 else None, "==": False if lo < 0 else None, "!=": True if lo < 0 else None}[op]
                    else:
                        res = None
                    if res is None:
                        self.undecided.append(cond.pretty())
                    return res
        return None


def scan(ctx, repo, fname, expect_guard, expect_elem):
    ci = repo.cls("molgri.naming", "NameParser")
    fi = ci.find_method(fname)
    if fi is None:
        raise AnalysisError(f"anchor vanished: NameParser.{fname}")
    ctx.analysed(fi)
    # the candidate collection must count TOKENS: a set collapses repeated tokens ('ico_15_15' would no longer be rejected)
    import ast as _ast
    for n in _ast.walk(fi.node):
        if isinstance(n, _ast.Assign) and isinstance(n.targets[0], _ast.Name) and n.targets[0].id == "candidates" or \
                (isinstance(n, _ast.Assign) and isinstance(n.value, (_ast.SetComp, _ast.Set))):
            v = n.value
            is_set = isinstance(v, (_ast.SetComp, _ast.Set)) or (isinstance(v, _ast.Call) and isinstance(v.func, _ast.Name) and v.func.id in ("set", "frozenset"))
            ctx.instance("TABLE")
            if is_set:
                ctx.violate("TABLE", f"C17.scan.{fname}.multiset", f"{fname} collects the matching tokens in a set: repeated tokens with the same "
                            "value collapse, so a name with two (equal) numbers / algorithm tokens is accepted instead of rejected", fi.where,
                            src(n)[:160], witness="e.g. 'ico_15_15' -> ico_15, 'cube4D_8_08' -> cube4D_8")
                return
    outcomes = {}
    skeleton_ok = None
    classes = [(0, False, "no matching token", "None"), (1, False, "exactly one matching token", "item0"),
               (2, False, "exactly two matching tokens", "raise"), (3, False, "exactly three matching tokens", "raise"),
               (4, True, "four or more matching tokens", "raise")]
    for val, at_least, label, spec in classes:
        hooks = ScanHooks(val, at_least)
        interp = Interp(repo, hooks)
        obj = ObjV(cls=ci)
        obj.attrs["name_string"] = Term("abstract_name")
        res = interp.call_function(fi, [], {}, self_obj=obj)
        kinds = [k for k, g, w in interp.raises]
        ctx.instance("TABLE")
        oid = f"C17.scan.{fname}.{val}{'+' if at_least else ''}"
        if hooks.undecided:
            ctx.inconclusive("TABLE", oid, f"{fname}: a length comparison is not uniform on the class `{label}`", fi.where,
                             witness="; ".join(hooks.undecided))
            continue
        if kinds:
            got = ("raise", tuple(kinds))
        elif isinstance(res, Const) and res.v is None:
            got = ("None",)
        elif isinstance(res, Term) and res.op == "listitem" and isinstance(res.args[1], Num) and res.args[1].p.is_zero():
            got = ("item0",)
            skeleton_ok = _check_candidates(ctx, fi, res.args[0], expect_guard, expect_elem)
        else:
            got = ("other", vstr(res)[:200])
        ok = got[0] == spec and (spec != "raise" or got[1] == ("ValueError",))
        if got[0] == "other":
            ctx.inconclusive("TABLE", oid, f"{fname}: outcome for {label} not derived", fi.where, witness=str(got[1]))
        else:
            ctx.check(ok, "TABLE", oid, f"{fname}: {label} -> "
                      f"{'ValueError' if spec == 'raise' else ('that token' if spec == 'item0' else 'None')}", fi.where,
                      construct=f"len(candidates) {'>=' if at_least else '=='} {val}", witness=f"derived outcome {got}")


def _check_candidates(ctx, fi, lst, expect_guard, expect_elem):
    """candidates = [elem(tok) for tok in name.split('_') if guard(tok)]"""
    items = lst.items
    ok = len(items) == 1 and isinstance(items[0], Loop) and isinstance(items[0].info, tuple) and items[0].info[0] == "tokens"
    detail = items_str(items)[:300]
    if ok:
        sep = items[0].info[1].args[1] if len(items[0].info[1].args) > 1 else None
        ok = isinstance(sep, Const) and sep.v == "_"
        inner = items[0].items
        ok = ok and len(inner) == 1 and isinstance(inner[0], Guard) and len(inner[0].items) == 1 and isinstance(inner[0].items[0], Elem)
        if ok:
            g = inner[0].cond
            # `if not pred(tok): continue` leaves the element under not(not(pred)): the same condition
            while isinstance(g, CondV) and g.kind == "not" and isinstance(g.args[0], CondV) and g.args[0].kind == "not":
                g = g.args[0].args[0]
            e = inner[0].items[0].value
            ok = expect_guard(g) and expect_elem(e)
    ctx.instance("TABLE")
    ctx.check(ok, "TABLE", f"C17.scan.{fi.name}.candidates", f"{fi.name}: candidates are exactly the '_'-separated tokens that "
              f"satisfy the scanner's predicate", fi.where, construct="candidates.append(...)", witness=detail)
    return ok


class TableHooks(Hooks):
    def __init__(self, state):
        self.state = state
        self.scanned = set()

    def call(self, interp, fv, args, kwargs, node):
        if isinstance(fv, FuncV) and fv.fi.cls is not None and fv.fi.cls.name == "NameParser" and fv.fi.name.startswith("_find_"):
            self.scanned.add(fv.fi.name)
        if isinstance(fv, FuncV) and fv.fi.cls is not None and fv.fi.cls.name == "NameParser":
            if fv.fi.name == "_find_a_number":
                n = self.state["N"]
                return Const(None) if n is None else (Num(Poly.sym("N2")) if n == ">=2" else Num(n))
            if fv.fi.name == "_find_algorithm":
                a = self.state["algo"]
                return Const(a)
            if fv.fi.name == "_find_dimensions":
                return Const(None)
        return None

    def decide(self, interp, cond):
        if cond.kind == "in":
            item, cont = cond.args
            if isinstance(item, Const) and item.v == "zero" and isinstance(cont, Term) and cont.op == "abstract_name":
                return self.state["zero"]
        if cond.kind == "cmp":
            op, l, r = cond.args
            d = l - r
            n2 = ("sym", "N2")
            if d.atoms() == {n2} and d.degree_in(n2) == 1 and d.coeff_of(n2).is_const() and d.without(n2).is_const():
                a = d.coeff_of(n2).as_const()
                b = d.without(n2).as_const()
                lo = 2 * a + b     # value at N2 = 2; monotone in N2
                if a > 0:
                    return {">": True if lo > 0 else None, ">=": True if lo >= 0 else None, "<": False if lo >= 0 else None,
                            "<=": False if lo > 0 else None, "==": False if lo > 0 else None, "!=": True if lo > 0 else None}[op]
                if a < 0:
                    return {"<": True if lo < 0 else None, "<=": True if lo <= 0 else None, ">": False if lo <= 0 else None,
                            ">=": False if lo < 0 else None, "==": False if lo < 0 else None, "!=": True if lo < 0 else None}[op]
        return None


def evaluate_state(repo, ci, state):
    interp = Interp(repo, TableHooks(state))
    obj = interp.instantiate(ci, [Term("abstract_name"), Const(state["role"])], {})
    kinds = [k for k, g, w in interp.raises]
    if kinds:
        return ("raise", tuple(sorted(set(kinds)))), interp
    algo = obj.attrs.get("algo")
    N = obj.attrs.get("N")
    top = contains_top(algo) or contains_top(N) or (None if isinstance(algo, Const) else f"algo = {vstr(algo)[:100]}")
    if top:
        return ("top", top), interp
    if isinstance(N, Const) and N.v is None:
        nn = None
    elif isinstance(N, Num) and N.p.is_const():
        nn = int(N.p.as_const())
    elif isinstance(N, Num) and N.p == Poly.sym("N2"):
        nn = ">=2"
    else:
        return ("top", f"N = {vstr(N)}"), interp
    return ("ok", algo.v, nn), interp


def run(ctx, repo, tier):
    consts = "molgri.constants"
    A3 = tuple(repo.module_const(consts, "GRID_ALGORITHMS_3D"))
    A4 = tuple(repo.module_const(consts, "GRID_ALGORITHMS_4D"))
    Z3 = repo.module_const(consts, "ZERO_ALGORITHM_3D")
    Z4 = repo.module_const(consts, "ZERO_ALGORITHM_4D")
    D3 = repo.module_const(consts, "DEFAULT_ALGORITHM_O")
    D4 = repo.module_const(consts, "DEFAULT_ALGORITHM_B")
    ALL = tuple(repo.module_const(consts, "ALL_GRID_ALGORITHMS"))
    cwhere = "molgri/constants.py"
    ctx.instance("TABLE", 4)
    ctx.check(D3 in A3 and D4 in A4, "TABLE", "C17.const.defaults", "role defaults are valid algorithms of their role", cwhere,
              "DEFAULT_ALGORITHM_O / DEFAULT_ALGORITHM_B", witness=f"{D3} in {A3}? {D4} in {A4}?")
    ctx.check(set(ALL) == set(A3) | set(A4) | {Z3, Z4}, "TABLE", "C17.const.all", "ALL_GRID_ALGORITHMS is the union of both "
              "roles' algorithms and the two zero algorithms (what the algorithm scanner recognises)", cwhere,
              "ALL_GRID_ALGORITHMS", witness=f"{ALL}")
    ctx.check(not (set(A3) & set(A4)) and Z3 not in A3 + A4 and Z4 not in A3 + A4 and Z3 != Z4, "TABLE", "C17.const.disjoint",
              "algorithm sets of the two roles and the zero names are pairwise distinct", cwhere, "GRID_ALGORITHMS_*",
              witness=f"{A3} {A4} {Z3} {Z4}")
    ctx.check("zero" in Z3 and "zero" in Z4 and not any("zero" in a for a in A3 + A4), "TABLE", "C17.const.zero_substring",
              "the zero names (and only they) contain the substring the parser tests for", cwhere, "ZERO_ALGORITHM_*",
              witness=f"{Z3} {Z4}")

    # ---------------- scanners
    def num_guard(g):
        return isinstance(g, CondV) and g.kind == "truthy" and isinstance(g.args[0], Term) and g.args[0].op == "m.isnumeric" \
            and isinstance(g.args[0].args[0], Term) and g.args[0].args[0].op == "token"

    def num_elem(e):
        return isinstance(e, Term) and e.op == "int" and isinstance(e.args[0], Term) and e.args[0].op == "token"

    def alg_guard(g):
        if not (isinstance(g, CondV) and g.kind == "in"):
            return False
        item, cont = g.args
        return isinstance(item, Term) and item.op == "token" and isinstance(cont, Const) and tuple(cont.v) == ALL

    def alg_elem(e):
        return isinstance(e, Term) and e.op == "token"
    scan(ctx, repo, "_find_a_number", num_guard, num_elem)
    scan(ctx, repo, "_find_algorithm", alg_guard, alg_elem)

    # NameParser.__init__ wires the scanners to self.N / self.algo
    np_ci = repo.cls("molgri.naming", "NameParser")
    init = np_ci.find_method("__init__")
    ctx.analysed(init)
    wires = {}
    for n in ast.walk(init.node):
        if isinstance(n, ast.Assign) and len(n.targets) == 1 and isinstance(n.targets[0], ast.Attribute) and \
                isinstance(n.value, ast.Call) and isinstance(n.value.func, ast.Attribute):
            wires[n.targets[0].attr] = n.value.func.attr
    ctx.instance("FLOW", 2)
    ctx.check(wires.get("N") == "_find_a_number", "FLOW", "C17.wire.N", "self.N is the result of the number scanner", init.where,
              "self.N = self._find_a_number()", witness=str(wires))
    ctx.check(wires.get("algo") == "_find_algorithm", "FLOW", "C17.wire.algo", "self.algo is the result of the algorithm scanner",
              init.where, "self.algo = self._find_algorithm()", witness=str(wires))

    # ---------------- decision table
    ci = repo.cls("molgri.naming", "GridNameParser")
    ginit = ci.find_method("__init__")
    ctx.analysed(ginit)
    where = ginit.where
    table = {}
    states = []
    for role in ("o", "b"):
        for zero in (True, False):
            for algo in (None,) + ALL:
                if algo in (Z3, Z4) and not zero:
                    continue     # inconsistent: a zero token contains 'zero'
                for N in (None, 0, 1, ">=2"):
                    states.append({"role": role, "zero": zero, "algo": algo, "N": N})
    other_exc = 0
    unscanned = []
    for st in states:
        out, interp = evaluate_state(repo, ci, st)
        key = (st["role"], st["zero"], st["algo"], st["N"])
        table[key] = out
        ctx.instance("TABLE")
        # a name is ACCEPTED only after both token scanners ran (they are what rejects two numbers / two algorithm tokens)
        if out[0] == "ok":
            miss = {"_find_a_number", "_find_algorithm"} - interp.hooks.scanned
            if miss:
                unscanned.append((key, sorted(miss)))
    ctx.instance("DOM")
    if unscanned:
        k0, miss = unscanned[0]
        ctx.violate("DOM", "C17.scan.dominates", f"a grid name is accepted on a path that never runs {', '.join(miss)}: the duplicate-token check "
                    "of that scanner (two numbers / two algorithm tokens -> ValueError) is skipped, so e.g. a name with two algorithm tokens "
                    "is accepted instead of rejected", ginit.where, "self.algo = self._find_algorithm()",
                    witness=f"{len(unscanned)} accepted state(s) without the scan, first: role={k0[0]} 'zero' in name={k0[1]} N={k0[3]}")
    else:
        ctx.ok("DOM", "C17.scan.dominates", "every accepting path of GridNameParser.__init__ runs the number scanner and the algorithm scanner",
               ginit.where)
    for f in interp.functions_entered:
        ctx.analysed(f)
    ctx.exhaustive = True
    ctx.extra["states"] = len(states)
    ctx.extra["table"] = [{"role": k[0], "zero_in_name": k[1], "algo_token": k[2], "N": k[3], "outcome": list(v) if v[0] != "raise" else ["raise"] + list(v[1])}
                          for k, v in table.items()]

    def desc(k):
        return f"role={k[0]} 'zero' in name={k[1]} algorithm token={k[2]} N={k[3]}"

    n_viol = 0
    for k, out in table.items():
        role, zero, algo, N = k
        A, Z, D = (A3, Z3, D3) if role == "o" else (A4, Z4, D4)
        oid = f"C17.table.{role}.{'z' if zero else 'nz'}.{algo}.{N}"
        if out[0] == "top":
            ctx.inconclusive("TABLE", oid, f"outcome not derived for {desc(k)}", where, witness=str(out[1]))
            continue
        if out[0] == "raise":
            kinds = out[1]
            if kinds != ("ValueError",):
                bad = [x for x in kinds if x != "ValueError"]
                rule = "OPTCMP" if "TypeError" in bad else "EXC"
                key_ = "OPTCMP|molgri/naming.py:GridNameParser.__init__|self.N > 1" if "TypeError" in bad else None
                ctx.violate(rule, oid, f"parsing escapes with {'/'.join(bad)} instead of ValueError for {desc(k)}", where,
                            construct="self.algo is None and self.N > 1" if "TypeError" in bad else "raise ...",
                            witness=f"e.g. GridNameParser({_example(k)!r}, {role!r}) -> {bad[0]}", key=key_)
                n_viol += 1
                continue
            # positive requirement: bare N>=2 must select the default
            if algo is None and N == ">=2" and not zero:
                ctx.violate("TABLE", oid, "a bare number N>1 must select the role's default algorithm, not be rejected", where,
                            construct="elif self.algo is None and self.N > 1", witness=f"{desc(k)} -> ValueError")
                continue
            ctx.ok("TABLE", oid, f"{desc(k)} -> ValueError", where)
            continue
        _, a, n = out
        problems = []
        if n is None or n == 0:
            problems.append(f"N={n} is not >= 1")
        if a not in A + (Z,):
            problems.append(f"algorithm {a!r} is not valid for role {role}")
        if (n == 1) != (a == Z):
            problems.append(f"N=1 <=> zero algorithm violated (algo={a!r}, N={n})")
        if algo is None and N == ">=2" and not zero and a != D:
            problems.append(f"bare N>1 must select the default {D!r}, got {a!r}")
        if N == ">=2" and n not in (">=2",):
            problems.append(f"N was changed from the parsed value to {n}")
        if N in (0, 1) and n not in (N, 1) :
            problems.append(f"N was changed from {N} to {n}")
        # idempotence: re-parse the standard name  algo_N
        if not problems:
            k2 = (role, "zero" in a, a, n)
            out2 = table.get(k2)
            if out2 is None:
                problems.append(f"standard name state {k2} not in table")
            elif out2 != out:
                problems.append(f"re-parsing the standard name {a}_{n} gives {out2} instead of {out}")
        if problems:
            ctx.violate("TABLE", oid, f"outcome for {desc(k)} breaks the naming rules", where,
                        construct="GridNameParser.__init__ decision chain", witness="; ".join(problems) +
                        f" (e.g. GridNameParser({_example(k)!r}, {role!r}))")
        else:
            ctx.ok("TABLE", oid, f"{desc(k)} -> {a}_{n}", where)

    # ---------------- DISPATCH: every producible algorithm has a factory branch in its role's factory
    producible = {"o": set(), "b": set()}
    for k, out in table.items():
        if out[0] == "ok":
            producible[k[0]].add(out[1])
    for role, fac in (("o", "SphereGrid3DFactory"), ("b", "SphereGrid4DFactory")):
        fci = repo.cls("molgri.space.rotobj", fac)
        create = fci.find_method("create")
        if create is None:
            raise AnalysisError(f"anchor vanished: {fac}.create")
        ctx.analysed(create)
        handled = set()
        for n in ast.walk(create.node):
            if isinstance(n, ast.Compare) and isinstance(n.left, ast.Name) and n.left.id == "alg_name" and len(n.ops) == 1 and \
                    isinstance(n.ops[0], ast.Eq) and isinstance(n.comparators[0], ast.Constant):
                handled.add(n.comparators[0].value)
            if isinstance(n, ast.Compare) and isinstance(n.left, ast.Name) and n.left.id == "alg_name" and len(n.ops) == 1 and \
                    isinstance(n.ops[0], ast.In):
                try:
                    handled |= set(repo.const_value(create.module, n.comparators[0]))
                except KeyError:
                    pass
            if isinstance(n, ast.Match):
                for c in n.cases:
                    if isinstance(c.pattern, ast.MatchValue) and isinstance(c.pattern.value, ast.Constant):
                        handled.add(c.pattern.value.value)
        ctx.instance("DISPATCH", len(producible[role]))
        for a in sorted(producible[role]):
            if a in handled:
                ctx.ok("DISPATCH", f"C17.dispatch.{role}.{a}", f"{fac}.create has a branch for algorithm {a!r} that the parser can produce "
                       f"for role {role}", create.where, f"alg_name == {a!r}")
                continue
            # not found as a literal comparison: evaluate the factory abstractly for this name (table-driven / mapped dispatch)
            verdict = None
            try:
                from ..fgmodel import FGHooks
                from ..values import ClassV, ObjV as _ObjV
                it_ = Interp(repo, FGHooks(repo, 5, 5, 2), max_depth=12)
                n_arg = Num(8) if a == "fulldiv" else (Num(1) if a.startswith("zero") else Num(5))
                res_ = it_.call_value(it_.getattr(ClassV(fci), "create"), [Const(a), n_arg], {}, None, None)
                kinds_ = [k for k, g, w in it_.raises]
                if isinstance(res_, _ObjV) and res_.cls is not None:
                    verdict = True
                elif "ValueError" in kinds_ and not isinstance(res_, _ObjV):
                    verdict = False
            except Exception:
                verdict = None
            if verdict is True:
                ctx.ok("DISPATCH", f"C17.dispatch.{role}.{a}", f"{fac}.create builds a grid object for algorithm {a!r} (abstract evaluation "
                       "of the factory)", create.where)
            elif verdict is False:
                ctx.violate("DISPATCH", f"C17.dispatch.{role}.{a}", f"{fac}.create has no branch for algorithm {a!r} that the parser can "
                            f"produce for role {role}: the grid name is accepted and then construction fails", create.where,
                            f"alg_name == {a!r}", witness=f"literal branches: {sorted(handled)}; abstract evaluation raises ValueError")
            else:
                ctx.inconclusive("DISPATCH", f"C17.dispatch.{role}.{a}", f"dispatch of {fac}.create for {a!r} not derived", create.where,
                                 witness=f"literal branches: {sorted(handled)}")
        # FullGrid / PositionGrid construct the parsers with the right roles and factories
    fg = repo.module("molgri.space.fullgrid")
    role_calls = []
    for n in ast.walk(fg.tree):
        if isinstance(n, ast.Call) and isinstance(n.func, ast.Name) and n.func.id == "GridNameParser":
            role_arg = n.args[1] if len(n.args) > 1 else next((k.value for k in n.keywords if k.arg == "o_or_b"), None)
            role_calls.append((src(n.args[0]) if n.args else "?", role_arg.value if isinstance(role_arg, ast.Constant) else None))
    ctx.instance("FLOW", len(role_calls))
    for name_arg, r in role_calls:
        exp = "b" if name_arg.startswith("b_") else ("o" if name_arg.startswith("o_") else None)
        if exp is not None:
            ctx.check(r == exp, "FLOW", f"C17.role.{name_arg}", f"fullgrid parses `{name_arg}` with role {exp!r}",
                      "molgri/space/fullgrid.py", f"GridNameParser({name_arg}, {r!r})", witness=f"role argument {r!r}")
    ctx.require_instances("TABLE", 100, "abstract states of the name parser evaluated")
    ctx.trust(*META["trusted"])
    ctx.assume(*META["assumptions"])


def _example(k):
    role, zero, algo, N = k
    toks = []
    if algo:
        toks.append(algo)
    elif zero:
        toks.append("zero")
    else:
        toks.append("junk")
    if N is not None:
        toks.append("17" if N == ">=2" else str(N))
    return "_".join(toks)
