"""C18 — polytope subdivision (partial): index permanence and level ordering for all levels (OWN), projection, half selection."""
from __future__ import annotations

from .. import polyrules as PR
from ..rules.rng import RngAnalysis

META = {
    "explanation": "Who-may-write and ordering rules over molgri/space/polytopes.py: the permanent node index is written at one site "
                   "only, for the nodes of the current level only, with value running-maximum + position, and the running maximum and "
                   "level counter only grow; nodes are added at one site with projection = normalised node and are never removed; node "
                   "arrays are sorted ascending by index and get_nodes(N) is the [:N] prefix; the half-hypercube selection is sorted by "
                   "index before it is cut; the shuffle of a level's new nodes is dominated by a constant reseed. These hold on every "
                   "path, hence for all subdivision levels and histories.",
    "decided": ["indices assigned once per level, earlier levels below later ones, unchanged by further subdivision",
                "projection of every node = node scaled to unit length", "get_nodes(N) is a prefix of the index order",
                "half-hypercube selection in index order", "deterministic order of new indices (constant seed before the shuffle)"],
    "not_decided": ["equality of the node set with the ideal lattice", "closure under negation", "exactly one of every antipodal pair"],
    "trusted": ["networkx graph semantics (add_node on an existing key updates attributes)"],
    "assumptions": [],
}


def run(ctx, repo, tier):
    store = PR.index_writers(ctx, repo, "C18")
    PR.index_assignment(ctx, repo, "C18", store)
    PR.node_adding(ctx, repo, "C18")
    PR.sorted_prefix(ctx, repo, "C18")
    PR.half_hypercube(ctx, repo, "C18")
    PR.float_tolerances(ctx, repo, "C18")
    PR.second_neighbour_search(ctx, repo, "C18")
    PR.subdivision_unconditional(ctx, repo, "C18")
    PR.face_criterion_agreement(ctx, repo, "C18")
    # deterministic shuffle
    ci = repo.cls(PR.PO, "Polytope")
    fi = ci.methods["_end_of_divison"]
    ra = RngAnalysis(repo, [fi]).run()
    ctx.instance("RNG", max(1, len(ra.sites)))
    if not ra.sites:
        ctx.ok("RNG", "C18.shuffle", "no random draw in the index assignment", fi.where)
    for f, call, desc, dominated, seed, note in ra.sites:
        import ast
        if dominated:
            ctx.ok("RNG", "C18.shuffle", "the shuffle that fixes the order of a level's new indices is dominated by a constant reseed", fi.where,
                   ast.unparse(call), derived=ast.unparse(seed))
        else:
            ctx.violate("RNG", "C18.shuffle", "the order in which new nodes receive their permanent index depends on the state of the global "
                        "random generator (no constant reseed dominates the shuffle)", fi.where, ast.unparse(call), witness=note or "no dominating np.random.seed(<int>)")
    for f, call in ra.seed_problems:
        import ast
        ctx.violate("RNG", "C18.shuffle.seed", "the reseed before the shuffle is not an integer constant", fi.where, ast.unparse(call), witness="non-constant seed")
    ctx.require_instances("OWN", 8, "ownership obligations")
    ctx.trust(*META["trusted"])
