"""C19 — every valid grid specification yields all geometry or a deliberate ValueError.

EXC over the abstractly constructed object graph: FullGrid.__init__ (with the real name parser, factories, gen_grid
dispatch and Voronoi class __init__ chains) and the five getters are interpreted for every (n_b, n_o, n_t) of the box and
both position modes.  Provable implicit escapes: INIT (attribute undefined on the receiver class actually selected),
LEN (constant subscript on an exactly known, too short sequence), SIG (argument binding), OPTCMP (ordering on None).
"""
from __future__ import annotations

import ast

from ..alg import Poly
from ..interp import Interp
from ..values import *
from .. import transfer as T
from ..fgmodel import FGHooks, build_fullgrid, FG
from ..model import AnalysisError, src

META = {
    "explanation": "Exception-escape analysis by abstract interpretation of the real constructors and getters of FullGrid on "
                   "/repo's current source over the whole size box n_b, n_o in {1..5}, n_t in {1,2,3} and both position modes "
                   "(no arrays are computed: sizes are the only concrete data; coordinates and geometry values are opaque "
                   "atoms). Reports AttributeError (attribute not initialised on the receiver class that the size selects), "
                   "IndexError (constant index beyond an exactly known length), TypeError (argument binding / ordering on None) "
                   "with the call path; checks that the matrix getters build (n, n) results and volumes have n entries.",
    "decided": ["no AttributeError / IndexError / TypeError escape from construction and the five getters for any size in the box",
                "receiver class per size (exact / half-sphere / estimated cell model) serves every method the getters call",
                "exact sequence lengths at constant subscripts (single radius!)", "argument binding of every resolved call",
                "shape (n_total, n_total) of the matrix results, length of volumes and array"],
    "not_decided": ["value-dependent assertion failures", "errors raised inside scipy/qhull for degenerate geometry "
                    "(Cartesian mode with n_o<3 is allowed to fail there)"],
    "trusted": [T.TABLE_VERSION, "summaries of sa/fgmodel.py (grid generators give N rows; get_N = N)"],
    "assumptions": ["radii strictly increasing and positive (parser asserts)", "assert statements enabled"],
}

GETTERS = ["get_full_grid_as_array", "get_total_volumes", "get_full_adjacency", "get_full_borders", "get_full_distances"]
ALLOWED = {"ValueError"}


def shape_of(interp, v):
    """(rows, cols) polys of a sparse / dense result if derivable"""
    if T.is_sparse(v):
        o = v.origin
        sh = v.attrs.get("shape")
        if isinstance(sh, TupleV) and len(sh.items) == 2 and all(isinstance(x, Num) for x in sh.items):
            return sh.items[0].p, sh.items[1].p
        if isinstance(o, Term) and o.op == "spadd":
            for part in o.args:
                oo = part.args[0]
                if isinstance(oo, Term) and oo.op == "triplets":
                    s2 = oo.kw.get("shape")
                    if isinstance(s2, TupleV) and all(isinstance(x, Num) for x in s2.items):
                        return s2.items[0].p, s2.items[1].p
        if isinstance(o, Term) and o.op in ("tocoo", "tocsr") and isinstance(o.args[0], ObjV):
            return shape_of(interp, o.args[0])
        if isinstance(o, Term) and o.op == "from_dense":
            a0 = o.args[0]
            if isinstance(a0, ListV):
                fl = flat_elems(a0.items)
                if fl and all(isinstance(r, ListV) for r in fl):
                    return Poly.const(len(fl)), Poly.const(len(flat_elems(fl[0].items) or []))
            if isinstance(a0, Grid) and a0.ndim == 2:
                return a0.dim_len(0), a0.dim_len(1)
            if T.is_sparse(a0):
                return shape_of(interp, a0)
    return None


def run(ctx, repo, tier):
    box_b = [1, 2, 3, 4, 5]
    box_o = [1, 2, 3, 4, 5]
    box_t = [1, 2, 3]
    if tier == "thorough":
        box_b = [1, 2, 3, 4, 5, 8]
        box_o = [1, 2, 3, 4, 5, 12]
        box_t = [1, 2, 3, 4]
    fg_ci = repo.cls(FG, "FullGrid")
    for g in GETTERS:
        if fg_ci.find_method(g) is None:
            raise AnalysisError(f"anchor vanished: FullGrid.{g}")
    seen = {}
    contexts = 0
    shape_ok = 0
    shape_unknown = 0
    # every size is requested by its number; one-point grids additionally by the number-less spelling "zero" (what the scripts recommend)
    specs = []
    for cart in (False, True):
        for nb in box_b:
            for no in box_o:
                for nt in box_t:
                    specs.append((cart, nb, no, nt, str(nb), str(no)))
                    if nt == 1 and nb <= 2 and no in (1, 4):
                        # a one-shell grid may also be written as a bare number ("0.1") instead of a list
                        specs.append((cart, nb, no, nt, str(nb), str(no), "0.1"))
                    if nb == 1 or no == 1:
                        specs.append((cart, nb, no, nt, "zero" if nb == 1 else str(nb), "zero" if no == 1 else str(no)))
    for spec_ in specs:
        cart, nb, no, nt, bname, oname = spec_[:6]
        radii_override = spec_[6] if len(spec_) > 6 else None
        if True:
            if True:
                if True:
                    contexts += 1
                    n_total = nb * no * nt
                    hooks = FGHooks(repo, nb, no, nt)
                    interp = Interp(repo, hooks, max_depth=20)
                    radii = radii_override or ("[" + ", ".join(str(round(0.1 * (k + 1), 1)) for k in range(nt)) + "]")
                    fg = build_fullgrid(repo, interp, Const(bname), Const(oname), Const(radii), cartesian=cart)
                    results = {}
                    for g in GETTERS:
                        fv = interp.getattr(fg, g)
                        results[g] = interp.call_value(fv, [], {}, None, None)
                    ctx.instance("EXC", len(GETTERS) + 1)
                    for f in interp.functions_entered:
                        ctx.analysed(f)
                    ctx.call_sites += len(interp.functions_entered)
                    for kind, guards, where in interp.raises:
                        if kind in ALLOWED:
                            continue
                        # guards that are decidable in this concrete context were decided; remaining guards are value-dependent
                        key = (kind, where.split(": ")[0], where)
                        seen.setdefault(key, []).append((nb, no, nt, cart, guards, bname, oname))
                    # qhull needs at least dim + 2 input points for a 3-D Voronoi diagram: with three or more directions the Cartesian
                    # mode must hand it enough points for every accepted number of shells (fewer directions may fail there by design)
                    for ev_ in interp.events:
                        if ev_[0] == "qhull" and ev_[1] == "scipy.spatial.Voronoi" and ev_[2] is not None and ev_[2].is_const():
                            ctx.instance("DOM")
                            if no >= 3 and ev_[2].as_const() < 5:
                                key = ("QhullError", ev_[3], f"{ev_[3]}: scipy.spatial.Voronoi receives too few points to build a 3-D diagram "
                                                             "(needs at least 5): QhullError (a RuntimeError, not a deliberate ValueError)")
                                seen.setdefault(key, []).append((nb, no, nt, cart, (f"{int(ev_[2].as_const())} points",), bname, oname))
                    # LEN: constant subscripts on exactly known lengths
                    for node, w, ln, ix, guards, what in interp.index_obligations:
                        if ln is None or not ln.is_const() or not ix.is_const():
                            continue
                        L, I = ln.as_const(), ix.as_const()
                        ctx.instance("LEN")
                        if not (-L <= I < L):
                            key = ("IndexError", w, f"{w}: {what} {I} on a sequence of exact length {L}: {src(node) if node is not None else ''}")
                            seen.setdefault(key, []).append((nb, no, nt, cart, guards, bname, oname))
                    # shapes
                    for g in ("get_full_adjacency", "get_full_borders", "get_full_distances"):
                        sh = shape_of(interp, results[g])
                        if sh is None:
                            shape_unknown += 1
                        elif sh == (Poly.const(n_total), Poly.const(n_total)):
                            shape_ok += 1
                        else:
                            key = ("Shape", f"molgri/space/fullgrid.py:FullGrid.{g}", f"{g}: result is not (n_total, n_total)")
                            seen.setdefault(key, []).append((nb, no, nt, cart, (f"{sh[0].pretty()} x {sh[1].pretty()} for n_total={n_total}",), bname, oname))
                    vol = results["get_total_volumes"]
                    ln = value_len(vol)
                    if ln is not None and ln.is_const():
                        if ln.as_const() != n_total:
                            key = ("Shape", "molgri/space/fullgrid.py:FullGrid.get_total_volumes", "get_total_volumes: number of volumes differs from the number of cells")
                            seen.setdefault(key, []).append((nb, no, nt, cart, (f"{ln.as_const()} volumes for {n_total} cells",), bname, oname))
                        else:
                            shape_ok += 1
                    arr = results["get_full_grid_as_array"]
                    if isinstance(arr, ObjV) and arr.ext == "ndarray" and "dims" in arr.attrs:
                        d0 = arr.attrs["dims"].items_p
                        if len(d0) == 2 and d0[0].is_const() and (d0[0].as_const() != n_total or d0[1] != Poly.const(7)):
                            key = ("Shape", "molgri/space/fullgrid.py:FullGrid.get_full_grid_as_array", "get_full_grid_as_array: array is not (n_total, 7)")
                            seen.setdefault(key, []).append((nb, no, nt, cart, (f"{d0[0].pretty()} x {d0[1].pretty()} for n_total={n_total}",), bname, oname))
                        else:
                            shape_ok += 1
    # sibling returns of the position-matrix routine: its callers read .row / .col / .data (coo attributes), every return therefore
    # converts to coo; the result of sparse ARITHMETIC has the format scipy picks for the operand shapes (csr for some), not coo
    import ast as _ast
    from ..model import src as _src
    pgc = repo.cls(FG, "PositionGrid")
    pna = pgc.methods.get("_get_N_N_position_array")
    if pna is not None:
        rets = [r for r in _ast.walk(pna.node) if isinstance(r, _ast.Return) and r.value is not None]
        ctx.instance("SIG", len(rets))
        from ..astutil import Canon as _Canon
        cn_ = _Canon(_Canon.single_defs(pna.node.body))
        bad_r, unk_r = [], []
        for r in rets:
            v = r.value
            txt = _src(v)
            if (isinstance(v, _ast.Call) and isinstance(v.func, _ast.Attribute) and v.func.attr == "tocoo") or \
                    (isinstance(v, _ast.Call) and _src(v.func).split(".")[-1] in ("coo_array", "coo_matrix")) or "format='coo'" in txt.replace('"', "'"):
                continue
            ve = cn_.expand(v)
            if isinstance(ve, _ast.BinOp) and any(isinstance(c_, _ast.Call) and _src(c_.func).split(".")[-1] in ("coo_array", "coo_matrix", "csr_array", "diags", "bmat")
                                                   for c_ in _ast.walk(ve)):
                bad_r.append(r)
            else:
                unk_r.append(r)
        if bad_r:
            ctx.violate("SIG", "C19.position_array.format", "a return of PositionGrid._get_N_N_position_array hands back the result of sparse arithmetic "
                        "without converting it to coo (every other return does): scipy returns csr for some operand shapes, and the Cartesian "
                        "border / distance helpers then fail with AttributeError on `.row` / `.col`", pna.where, _src(bad_r[0])[:140],
                        witness="coo_array(M) * np.ones(1) is a csr_array")
        elif unk_r:
            ctx.inconclusive("SIG", "C19.position_array.format", "format of a returned position matrix not recognised", pna.where, witness=_src(unk_r[0])[:120])
        else:
            ctx.ok("SIG", "C19.position_array.format", f"all {len(rets)} returns of the position-matrix routine convert to coo", pna.where)
    # the contexts above use a SUMMARY of TranslationParser (a 1-D array with one entry per radius); that summary is discharged here
    # with the per-format interpretation of the parser (shared with C16 / C09)
    from .C16 import radii_conversion
    radii_conversion(ctx, repo, "C19")
    ctx.extra["contexts"] = contexts
    ctx.extra["shape_results_checked"] = shape_ok
    ctx.extra["shape_results_not_derived"] = shape_unknown
    ctx.exhaustive = True
    rule_of = {"AttributeError": "INIT", "IndexError": "LEN", "TypeError": "SIG", "Shape": "LAYOUT", "QhullError": "DOM"}
    for (kind, where, text), ctxs in sorted(seen.items(), key=lambda x: str(x[0])):
        nb, no, nt, cart, guards, bname, oname = ctxs[0]
        sizes = sorted({(c[0], c[1], c[2]) for c in ctxs})
        modes = sorted({("cartesian" if c[3] else "spherical") for c in ctxs})
        # Cartesian mode with fewer than three directions may fail inside the geometry library
        rule = rule_of.get(kind, "EXC")
        key = None
        if kind == "AttributeError" and "MikroVoronoi" in text:
            key = "INIT|molgri/space/fullgrid.py:FullGrid._get_N_N|MikroVoronoi._calculate_N_N_array"
        if kind == "IndexError" and "_get_N_N_position_array" in text and "increments" in text:
            key = "LEN|molgri/space/fullgrid.py:PositionGrid._get_N_N_position_array|increments[-1]"
        if kind == "TypeError" and "ordering comparison with None" in text:
            key = "OPTCMP|molgri/naming.py:GridNameParser.__init__|self.N > 1"
        ctx.violate(rule, f"C19.escape.{kind}", f"{kind} can escape from FullGrid construction / getters "
                    f"({'; '.join(modes)} mode)" if kind != "Shape" else "result of a getter has the wrong shape", where.split(": ")[0] if ": " in where else where,
                    construct=text[:300], witness=(f"{guards[0]}; " if kind in ("Shape", "QhullError") and guards else "") +
                    f"sizes (n_b, n_o, n_t) = {sizes[:6]}{' ...' if len(sizes) > 6 else ''}; "
                    f"e.g. FullGrid('{bname}', '{oname}', <{nt} radii>, position_grid_cartesian={cart})", key=key)
    if not seen:
        ctx.ok("EXC", "C19.escape", f"no AttributeError / IndexError / TypeError escapes in any of the {contexts} contexts "
               f"(sizes x modes) x {len(GETTERS)} getters + construction", "molgri/space/fullgrid.py:FullGrid")
    if shape_ok > 0:
        ctx.ok("LAYOUT", "C19.shapes", f"{shape_ok} getter results have exactly the expected shape "
               f"({shape_unknown} matrix shapes not derivable, not counted)", "molgri/space/fullgrid.py:FullGrid._get_N_N")
    else:
        ctx.inconclusive("LAYOUT", "C19.shapes", "no getter result shape could be derived", "molgri/space/fullgrid.py:FullGrid._get_N_N",
                         witness=f"{shape_unknown} shapes not derivable")
    # ---------------- Cartesian mode: border polygons may have no vertex at all; the polygon helpers assert an (N, 3) shape
    import ast as _ast
    pg = repo.cls(FG, "PositionGrid")
    for m in pg.methods.values():
        for n in _ast.walk(m.node):
            if isinstance(n, _ast.Call) and isinstance(n.func, _ast.Name) and n.func.id == "order_points" and n.args:
                arg = src(n.args[0])
                guarded = False
                p_ = getattr(n, "_parent", None)
                while p_ is not None and p_ is not m.node:
                    if isinstance(p_, _ast.If) and f"len({arg})" in src(p_.test) and n in _ast.walk(_ast.Module(body=p_.body, type_ignores=[])):
                        guarded = True
                    if isinstance(p_, _ast.IfExp) and f"len({arg})" in src(p_.test):
                        guarded = True
                    if isinstance(p_, (_ast.ListComp, _ast.GeneratorExp)) and any(f"len({arg})" in src(c) for g in p_.generators for c in g.ifs):
                        guarded = True
                    p_ = getattr(p_, "_parent", None)
                ctx.instance("DOM")
                if guarded:
                    ctx.ok("DOM", "C19.cartesian.polygon_guard", "the polygon helpers are only called on border polygons that passed a length "
                           "test (a pair of cells may share no Voronoi vertex)", m.where, src(n)[:100])
                else:
                    ctx.violate("DOM", "C19.cartesian.polygon_guard", "order_points (which asserts an (N, 3) array) is called on every border "
                                "polygon without a length test: two position cells that are neighbours on the sphere but share no finite "
                                "Cartesian Voronoi vertex give an empty array and the getter fails with AssertionError", m.where, src(n)[:120],
                                witness="e.g. n_o = 4, n_t >= 2 in the Cartesian mode")
    ctx.require_instances("EXC", 100, "getter evaluations over the size box")
    ctx.trust(*META["trusted"])
    ctx.assume(*META["assumptions"])
