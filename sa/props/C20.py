"""C20 — persistence (partial): PAIRIO (writer/reader function pairing, getter -> file -> loader), xvg reader constants."""
from __future__ import annotations

import ast

from ..model import AnalysisError, src, norm_stmt
from ..snake import Workflows
from .. import wiring as W

META = {
    "explanation": "Writer/reader pairing analysis over molgri/io.py and the run_grid rule of the workflow (Snakefile front end): each "
                   "artefact is stored with the saver of its kind from the direct result of the corresponding FullGrid getter and read "
                   "back with the matching loader on the path argument; the xvg energy reader's constants are compared with the header "
                   "grammar of the property (13 skipped lines, '@' comments, no header row, legends s0..s9 in file order after the time "
                   "column, names passed to the parser, single column by legend name, csv inverse of to_csv).",
    "decided": ["np.save<->np.load, save_npz<->load_npz per artefact, getter result stored unmodified, same pairing in the workflow rule",
                "skiprows=13 and comment='@' (necessary under the property's header grammar)", "first data row kept (no header row)",
                "legend scan s0..s9, appended in file order after 'Time [ps]', passed as column names", "legend scan is offered every line of the file from the first one (no slice / islice / lines consumed beforehand)", "single column selected by name from "
                "the same frame, in row order", "csv read with index_col=0"],
    "not_decided": ["value-exactness of numpy / scipy / pandas serialisation"],
    "trusted": ["numpy.save/load and scipy.sparse.save_npz/load_npz round-trip values, pattern and entry order",
                "pandas.read_csv semantics of skiprows/comment/header/names"],
    "assumptions": ["xvg header: '#' lines then '@' lines, at most 13 '#', at least 13 header lines, up to ten legends (property)"],
}


def _legend_regex(repo, er, gc):
    """the legend scan written with a regular expression: -> (pattern text, match call, group index used for the name) or None"""
    import re as _re
    consts = {}
    for st in er.node.body:
        if isinstance(st, ast.Assign) and len(st.targets) == 1 and isinstance(st.targets[0], ast.Name):
            consts["self." + st.targets[0].id] = st.value
            consts[er.name + "." + st.targets[0].id] = st.value
    for st in gc.module.tree.body:
        if isinstance(st, ast.Assign) and len(st.targets) == 1 and isinstance(st.targets[0], ast.Name):
            consts[st.targets[0].id] = st.value
    for st in ast.walk(gc.node):
        if isinstance(st, ast.Assign) and len(st.targets) == 1 and isinstance(st.targets[0], ast.Name) and isinstance(st.value, ast.Call) and \
                src(st.value.func) == "re.compile":
            consts[st.targets[0].id] = st.value

    def pattern_of(e):
        if isinstance(e, ast.Constant) and isinstance(e.value, str):
            return e.value
        if isinstance(e, ast.Call) and src(e.func) == "re.compile" and e.args:
            return pattern_of(e.args[0])
        if src(e) in consts:
            return pattern_of(consts[src(e)])
        return None
    for n in ast.walk(gc.node):
        if isinstance(n, ast.Call) and isinstance(n.func, ast.Attribute) and n.func.attr in ("match", "search", "fullmatch"):
            if src(n.func.value) == "re" and len(n.args) >= 2:
                pat = pattern_of(n.args[0])
            else:
                pat = pattern_of(n.func.value)
            if pat is None:
                continue
            grp = [g for g in ast.walk(gc.node) if isinstance(g, ast.Call) and isinstance(g.func, ast.Attribute) and g.func.attr == "group" and
                   len(g.args) == 1 and isinstance(g.args[0], ast.Constant) and isinstance(g.args[0].value, int)]
            app = [a for a in ast.walk(gc.node) if isinstance(a, ast.Call) and isinstance(a.func, ast.Attribute) and a.func.attr == "append" and a.args]
            used = [g.args[0].value for g in grp if any(g is x or any(y is g for y in ast.walk(x)) for a in app for x in a.args)]
            if not used:
                from ..astutil import Canon
                cn = Canon(Canon.single_defs(gc.node.body))
                for a in app:
                    e_ = cn.expand(a.args[0])
                    used += [g.args[0].value for g in ast.walk(e_) if isinstance(g, ast.Call) and isinstance(g.func, ast.Attribute) and
                             g.func.attr == "group" and len(g.args) == 1 and isinstance(g.args[0], ast.Constant)]
            return pat, n, (used[0] if used else None), n.func.attr
    return None


def _legend_regex_rules(ctx, gc, rx):
    """legend lines recognised by a regular expression: the expression is parsed (sre parser) and compared with what the property
    asks: every series index 0..9, and a name that may contain ANY character except the closing quote"""
    import re._parser as sp
    import re._constants as sc
    pat, call, gidx, how = rx
    try:
        tree = sp.parse(pat)
    except Exception as e:
        ctx.inconclusive("PAIRIO", "C20.legend.range", "legend regular expression could not be parsed", gc.where, pat, witness=str(e))
        return
    printable = {chr(c) for c in range(0x20, 0x7f)}

    def accepted(items):
        """printable characters accepted by one IN set / single item, None if not derivable"""
        acc = set()
        neg = False
        for op, av in items:
            if op is sc.NEGATE:
                neg = True
            elif op is sc.LITERAL:
                acc.add(chr(av))
            elif op is sc.RANGE:
                acc |= {chr(c) for c in range(av[0], av[1] + 1)}
            elif op is sc.CATEGORY:
                import re as _re
                cat = {sc.CATEGORY_DIGIT: r"\d", sc.CATEGORY_WORD: r"\w", sc.CATEGORY_SPACE: r"\s", sc.CATEGORY_NOT_DIGIT: r"\D",
                       sc.CATEGORY_NOT_WORD: r"\W", sc.CATEGORY_NOT_SPACE: r"\S"}.get(av)
                if cat is None:
                    return None
                acc |= {ch for ch in printable if _re.fullmatch(cat, ch)}
            else:
                return None
        return (printable - acc) if neg else (acc & printable)

    flat = list(tree)
    # --- series index: literal 's' followed by a digit class (possibly in a group)
    digit_ok = None
    for k, (op, av) in enumerate(flat):
        if op is sc.LITERAL and chr(av) == "s" and k + 1 < len(flat):
            nop, nav = flat[k + 1]
            inner = nav[3] if nop is sc.SUBPATTERN else [flat[k + 1]]
            inner = list(inner)
            if len(inner) == 1:
                iop, iav = inner[0]
                if iop in (sc.MAX_REPEAT, sc.MIN_REPEAT):
                    iop, iav = list(iav[2])[0] if len(list(iav[2])) == 1 else (None, None)
                acc = accepted(iav) if iop is sc.IN else (accepted([(iop, iav)]) if iop in (sc.LITERAL, sc.CATEGORY) else None)
                if acc is not None:
                    missing = sorted(set("0123456789") - acc)
                    digit_ok = (not missing, missing)
            break
    if digit_ok is None:
        ctx.inconclusive("PAIRIO", "C20.legend.range", "series index part of the legend expression not recognised", gc.where, pat)
    else:
        ctx.check(digit_ok[0], "PAIRIO", "C20.legend.range", "legends s0..s9 (up to ten series) are recognised", gc.where, pat,
                  witness="the expression misses " + ", ".join("s" + d for d in digit_ok[1]))
    # --- prefix
    lit = "".join(chr(av) for op, av in flat if op is sc.LITERAL)
    anchored = how in ("match", "fullmatch") or (flat and flat[0][0] is sc.AT)
    ctx.check(lit.startswith("@ s") and " legend" in lit and anchored, "PAIRIO", "C20.legend.pattern", "a legend line is recognised by the prefix "
              "'@ s<i> legend'", gc.where, pat, witness=f"literal part {lit!r}, anchored={anchored}")
    # --- name: the group used for the column name
    groups = [(av[0], list(av[3])) for op, av in flat if op is sc.SUBPATTERN]
    body = dict(groups).get(gidx)
    verdict, wit = None, ""
    if body is not None and len(body) == 1 and body[0][0] in (sc.MAX_REPEAT, sc.MIN_REPEAT):
        lo_, hi_, sub = body[0][1]
        sub = list(sub)
        if len(sub) == 1:
            sop, sav = sub[0]
            acc = printable if sop is sc.ANY else (accepted(sav) if sop is sc.IN else None)
            if acc is not None and lo_ <= 1:
                missing = sorted(printable - acc - {'"'})
                verdict = not missing
                wit = "characters that may occur in a gromacs legend but are not accepted inside the quotes: " + " ".join(missing[:24]) + \
                      " -> such a legend line is silently skipped and every later name is attached to the previous column"
    if verdict is None:
        ctx.inconclusive("PAIRIO", "C20.legend.text", "extraction of the legend text by the regular expression not recognised", gc.where, pat)
    else:
        ctx.check(verdict, "PAIRIO", "C20.legend.text", "the column name is the text between the quotes of the legend line (any character but the "
                  "quote)", gc.where, pat, witness=wit)
    # --- order
    rets = [n.value for n in ast.walk(gc.node) if isinstance(n, ast.Return) and n.value is not None]
    ret_names = {r.id for r in rets if isinstance(r, ast.Name)}
    app = [a for a in ast.walk(gc.node) if isinstance(a, ast.Call) and isinstance(a.func, ast.Attribute) and a.func.attr == "append"]
    reorder = [n for n in ast.walk(gc.node) if isinstance(n, ast.Call) and (
        (isinstance(n.func, ast.Name) and n.func.id in ("sorted", "reversed", "set")) or
        (isinstance(n.func, ast.Attribute) and n.func.attr in ("sort", "reverse", "insert")))]
    if reorder:
        ctx.violate("ORD", "C20.legend.order", "the list of column names is re-ordered after the legends were read in file order", gc.where,
                    src(reorder[0])[:100], witness="column k of the table no longer carries the k-th legend")
    elif app and isinstance(app[0].func.value, ast.Name) and app[0].func.value.id in ret_names:
        ctx.ok("ORD", "C20.legend.order", "legends are appended in file order to the returned list", gc.where)
    else:
        ctx.inconclusive("ORD", "C20.legend.order", "accumulation of the legend names not recognised", gc.where)


def run(ctx, repo, tier):
    # ------------------------------------------------------------ io.py writer / reader
    wt = W.io_writer_table(repo)
    rt = W.io_reader_table(repo)
    ctx.instance("PAIRIO", len(wt) + len(rt))
    if len(wt) < 5 or len(rt) < 5:
        ctx.inconclusive("PAIRIO", "C20.io.count", "expected five save_* and five load_* methods", "molgri/io.py", witness=f"{len(wt)} writers, {len(rt)} readers")
    for name, rec in sorted(wt.items()):
        fi = rec["fi"]
        ctx.analysed(fi)
        item = name[len("save_"):]
        if len(rec["calls"]) != 1:
            ctx.inconclusive("PAIRIO", f"C20.io.{name}", "writer does not consist of one save call", fi.where, witness=f"{len(rec['calls'])} save calls")
            continue
        g = rec["getter"]
        if g is None:
            ctx.inconclusive("PAIRIO", f"C20.io.{name}.getter", "stored value is not a FullGrid getter result", fi.where, src(rec["call"])[:160])
            continue
        label = W.LABEL_OF_GETTER[g]
        if rec["direct"] is None:
            ctx.inconclusive("PAIRIO", f"C20.io.{name}.direct", "the getter result passes through a wrapper that is not recognised", fi.where,
                             src(rec["call"])[:160])
        else:
            ctx.check(rec["direct"] and not rec["kwargs"], "PAIRIO", f"C20.io.{name}.direct", f"{name} stores the direct, unmodified result of "
                      f"FullGrid.{g}()", fi.where, src(rec["call"])[:160], witness="value is post-processed or the getter is called with options")
        ctx.check(rec["family"] == W.EXPECTED_FAMILY[label], "PAIRIO", f"C20.io.{name}.saver", f"{label.lower()} is written with the "
                  f"{'dense array' if W.EXPECTED_FAMILY[label] == 'npy' else 'sparse matrix'} saver", fi.where, src(rec["call"])[:120], witness=rec["family"])
        ctx.check(rec["path_ok"], "PAIRIO", f"C20.io.{name}.path", "the file written is the method's path argument", fi.where, src(rec["call"])[:120], witness="path is not the parameter")
        # name <-> getter agreement
        expect = {"full_grid": "ARRAY", "volumes": "VOLUMES", "borders_array": "BORDERS", "distances_array": "DISTANCES", "adjacency_array": "ADJACENCY"}.get(item)
        if expect is not None:
            ctx.check(label == expect, "PAIRIO", f"C20.io.{name}.item", f"{name} stores the {expect.lower()} (not another artefact)", fi.where,
                      src(rec["call"])[:160], witness=f"stores {label.lower()}")
        # reader
        r = rt.get("load_" + item)
        if r is None:
            ctx.violate("PAIRIO", f"C20.io.load_{item}", f"no reader load_{item} pairs with {name}", "molgri/io.py:GridReader", witness=str(sorted(rt)))
            continue
        ctx.analysed(r["fi"])
        if not r.get("direct") and r.get("wrapped"):
            ctx.violate("PAIRIO", f"C20.io.load_{item}", "the reader post-processes what it loaded (transpose / slice / conversion): the value "
                        "read back is not what was written", r["fi"].where, src(r["call"])[:160], witness=src(r["call"])[:160])
            continue
        if not r.get("direct"):
            ctx.inconclusive("PAIRIO", f"C20.io.load_{item}", "reader does not return a loader call directly", r["fi"].where, src(r.get("call"))[:160] if r.get("call") is not None else "")
            continue
        if r.get("family") is None:
            ctx.inconclusive("PAIRIO", f"C20.io.load_{item}", "loader not recognised", r["fi"].where, witness=r.get("dotted"))
            continue
        ctx.check(r["family"] == rec["family"], "PAIRIO", f"C20.io.load_{item}.pair", f"load_{item} uses the loader that matches the saver "
                  f"of {name}", r["fi"].where, src(r["call"])[:120], witness=f"saver family {rec['family']}, loader family {r['family']}")
        if r["path_ok"] and not r["extra"] and r.get("unknown"):
            ctx.inconclusive("PAIRIO", f"C20.io.load_{item}.path", "loader options not recognised", r["fi"].where, src(r["call"])[:120], witness=str(r["unknown"]))
        else:
            ctx.check(r["path_ok"] and not r["extra"], "PAIRIO", f"C20.io.load_{item}.path", "the reader loads its path argument without "
                      "options that alter the content", r["fi"].where, src(r["call"])[:120], witness=str(r["extra"]))
    # ------------------------------------------------------------ workflow rule run_grid
    wf = Workflows(repo.root)
    rule, table, ctor, f = W.run_grid_table(wf)
    where = "workflow/run_grid:rule run_grid"
    need = {"full_array": "ARRAY", "volumes": "VOLUMES", "borders_array": "BORDERS", "distances_array": "DISTANCES", "adjacency_array": "ADJACENCY"}
    ctx.instance("PAIRIO", len(need))
    for key, label in need.items():
        rec = table.get(key)
        if rec is None:
            ctx.inconclusive("PAIRIO", f"C20.run_grid.{key}", f"no save into output.{key} found in rule run_grid", where)
            continue
        g = rec["getter"]
        if g is None:
            ctx.inconclusive("PAIRIO", f"C20.run_grid.{key}", "stored value is not a FullGrid getter result", where, src(rec["call"])[:160])
            continue
        ok = W.LABEL_OF_GETTER[g] == label and rec["direct"] and not rec["kwargs"] and rec["family"] == W.EXPECTED_FAMILY[label]
        if rec["direct"] is None and W.LABEL_OF_GETTER[g] == label and rec["family"] == W.EXPECTED_FAMILY[label]:
            ctx.inconclusive("PAIRIO", f"C20.run_grid.{key}", "the getter result passes through a wrapper that is not recognised", where,
                             src(rec["call"])[:160])
            continue
        ctx.check(ok, "PAIRIO", f"C20.run_grid.{key}", f"output.{key} receives the direct result of the {label.lower()} getter through the "
                  "matching saver", where, src(rec["call"])[:160],
                  witness=f"getter {g}, direct={rec['direct']}, options={sorted(rec['kwargs'])}, saver {rec['family']}")
        outp = rule.kw("output", key)
        ext = ".npy" if W.EXPECTED_FAMILY[label] == "npy" else ".npz"
        ctx.check(outp is not None and ext in src(outp), "PAIRIO", f"C20.run_grid.{key}.ext", f"file extension of output.{key} matches the saver "
                  "(numpy/scipy would otherwise append their own)", where, src(outp)[:100] if outp is not None else "", witness=src(outp) if outp is not None else "")

    # ------------------------------------------------------------ energy reader
    er = repo.cls("molgri.io", "EnergyReader")
    le = er.methods.get("load_energy")
    gc = er.methods.get("_get_column_names")
    ls = er.methods.get("load_single_energy_column")
    if le is None or gc is None or ls is None:
        raise AnalysisError("anchor vanished: EnergyReader methods")
    for m in (le, gc, ls):
        ctx.analysed(m)
    reads = [n for n in ast.walk(le.node) if isinstance(n, ast.Call) and (repo.dotted_of(le.module, n.func) or "") == "pandas.read_csv"]
    # per-format loaders may be private methods that load_energy reaches through a (file ending, bound method) table or a direct call
    loader_of = {}
    for n in ast.walk(le.node):
        if isinstance(n, ast.Tuple) and len(n.elts) == 2 and isinstance(n.elts[0], ast.Constant) and isinstance(n.elts[0].value, str) and \
                isinstance(n.elts[1], ast.Attribute) and isinstance(n.elts[1].value, ast.Name) and n.elts[1].value.id == "self":
            loader_of[n.elts[1].attr] = n.elts[0].value
    read_home = {}
    for mname, mfi in er.methods.items():
        if mfi is le or not mname.startswith("_"):
            continue
        if mname in loader_of or any(isinstance(x, ast.Attribute) and x.attr == mname for x in ast.walk(le.node)):
            for n in ast.walk(mfi.node):
                if isinstance(n, ast.Call) and (repo.dotted_of(mfi.module, n.func) or "") == "pandas.read_csv":
                    reads.append(n)
                    read_home[id(n)] = mfi
                    ctx.analysed(mfi)
    def branch_of(call):
        """'xvg' / 'csv' from the file-type test that guards the call"""
        if id(call) in read_home:
            mf = read_home[id(call)]
            short = mf.name.split(".")[-1]
            if short in loader_of:
                return "xvg" if "xvg" in loader_of[short] else ("csv" if "csv" in loader_of[short] else None)
            # called directly from load_energy: classify by the test that guards that call
            for cc in ast.walk(le.node):
                if isinstance(cc, ast.Call) and isinstance(cc.func, ast.Attribute) and cc.func.attr == short:
                    return branch_of(cc)
            return None
        n = call
        while n is not None and n is not le.node:
            par = getattr(n, "_parent", None)
            if isinstance(par, ast.If) and any(n is x for x in par.body):
                t = src(par.test)
                if "xvg" in t:
                    return "xvg"
                if "csv" in t:
                    return "csv"
            n = par
        return None
    xvg = [c for c in reads if branch_of(c) == "xvg"]
    csv = [c for c in reads if branch_of(c) == "csv"]
    if not xvg and not csv:
        xvg = [c for c in reads if any(k.arg in ("skiprows", "comment") for k in c.keywords)]
        csv = [c for c in reads if c not in xvg]
    ctx.instance("PAIRIO", 6)
    if len(xvg) != 1:
        ctx.inconclusive("PAIRIO", "C20.xvg.call", "no pandas.read_csv(skiprows=..., comment=...) call found for the xvg branch", le.where,
                         witness=f"{len(reads)} read_csv calls")
    else:
        c = xvg[0]
        kw = {k.arg: k.value for k in c.keywords}
        def const(k):
            v = kw.get(k)
            return v.value if isinstance(v, ast.Constant) else ("<absent>" if v is None else "<expr>")
        sk = const("skiprows")
        if sk == 13:
            ctx.ok("PAIRIO", "C20.xvg.skiprows", "13 leading lines are skipped: every '#' line (at most 13) is skipped and no data line "
                   "(at least 13 header lines) is", le.where, src(c)[:200])
        elif isinstance(sk, int):
            ctx.violate("PAIRIO", "C20.xvg.skiprows", "number of skipped lines differs from 13: " +
                        ("a '#' line is parsed as data when the header has 13 '#' lines" if sk < 13 else
                         "the first data row is dropped when the header has exactly 13 lines"), le.where, src(c)[:200], witness=f"skiprows={sk}")
        else:
            ctx.inconclusive("PAIRIO", "C20.xvg.skiprows", "skiprows is not a constant", le.where, src(c)[:200])
        cm = const("comment")
        ctx.check(cm == "@", "PAIRIO", "C20.xvg.comment", "'@' lines are treated as comments", le.where, src(c)[:200], witness=f"comment={cm!r}")
        hd = const("header")
        names = kw.get("names")
        if hd == 0 or (hd == "<absent>" and names is None) or hd == "infer" and names is None:
            ctx.violate("PAIRIO", "C20.xvg.header", "the first data row is consumed as a header row: every energy is paired with the next "
                        "cell's row", le.where, src(c)[:200], witness=f"header={hd}, names={'given' if names is not None else 'absent'}")
        else:
            ctx.ok("PAIRIO", "C20.xvg.header", "no line is consumed as a header (header=None or names given)", le.where)
        from ..astutil import Canon as _Canon
        home_ = read_home.get(id(c), le)
        nexp = _Canon(_Canon.single_defs(home_.node.body)).expand(names) if names is not None else None
        if isinstance(nexp, ast.Call) and isinstance(nexp.func, ast.Attribute) and isinstance(nexp.func.value, ast.Name) and \
                nexp.func.value.id == "self" and er.find_method(nexp.func.attr) is not None and \
                any(isinstance(x, (ast.JoinedStr, ast.Constant)) and "legend" in src(x)
                    for root_ in [er.find_method(nexp.func.attr).node] +
                    [st_.value for st_ in le.module.tree.body + er.node.body if isinstance(st_, ast.Assign) and len(st_.targets) == 1 and
                     isinstance(st_.targets[0], ast.Name) and any(isinstance(y, (ast.Name, ast.Attribute)) and
                                                                    (getattr(y, "id", None) == st_.targets[0].id or getattr(y, "attr", None) == st_.targets[0].id)
                                                                    for y in ast.walk(er.find_method(nexp.func.attr).node))]
                    for x in ast.walk(root_)):
            ctx.ok("PAIRIO", "C20.xvg.names", "column names passed to the parser are the legends read from the same file", le.where, src(nexp))
        elif names is None:
            ctx.violate("PAIRIO", "C20.xvg.names", "no column names are passed to the parser: columns are not labelled with the file's legends",
                        le.where, src(c)[:160], witness="names= absent")
        elif isinstance(nexp, (ast.List, ast.Tuple, ast.Constant)):
            ctx.violate("PAIRIO", "C20.xvg.names", "column names are a fixed list, not the legends of the file that is read", le.where,
                        src(nexp)[:120], witness="literal names")
        else:
            ctx.inconclusive("PAIRIO", "C20.xvg.names", "origin of the column names not recognised", le.where, witness=src(nexp)[:120])
        sep = const("sep")
        dw = const("delim_whitespace")
        ctx.check(sep in (r"\s+", " +", r"\s*") or dw is True, "PAIRIO", "C20.xvg.sep", "columns are split on runs of whitespace", le.where, witness=f"sep={sep!r}")
        a0 = c.args[0] if c.args else kw.get("filepath_or_buffer")
        ctx.check(a0 is not None and src(a0) == "self.path_energy", "PAIRIO", "C20.xvg.path", "the energy file itself is parsed", le.where, witness=src(a0) if a0 is not None else "")
    if len(csv) == 1:
        kw = {k.arg: k.value for k in csv[0].keywords}
        ic = kw.get("index_col")
        ctx.instance("PAIRIO")
        ctx.check(isinstance(ic, ast.Constant) and ic.value == 0, "PAIRIO", "C20.csv.index", "csv tables are read with index_col=0, the inverse "
                  "of DataFrame.to_csv's default index column", le.where, src(csv[0])[:160], witness=src(ic) if ic is not None else "index_col absent")
        ALTERING = {"comment", "skiprows", "skipfooter", "nrows", "usecols", "header", "names", "decimal", "thousands", "na_values", "quotechar",
                    "escapechar", "skip_blank_lines", "dtype", "converters", "true_values", "false_values", "prefix"}
        extra = sorted(k for k in kw if k in ALTERING)
        unknown = sorted(k for k in kw if k not in ALTERING and k not in ("index_col", "filepath_or_buffer", "sep", "delimiter", "engine", "encoding"))
        ctx.instance("PAIRIO")
        if extra:
            ctx.violate("PAIRIO", "C20.csv.options", "the csv reader is given options that change what is parsed (to_csv writes none of these): "
                        "e.g. comment='#' truncates the header line at a legend that contains '#', so columns are renamed / shifted", le.where,
                        src(csv[0])[:160], witness=f"options {extra}")
        elif unknown:
            ctx.inconclusive("PAIRIO", "C20.csv.options", "csv reader options not recognised", le.where, witness=str(unknown))
        else:
            ctx.ok("PAIRIO", "C20.csv.options", "the csv table is parsed without content-altering options", le.where)
    else:
        ctx.inconclusive("PAIRIO", "C20.csv.index", "csv branch not recognised", le.where, witness=f"{len(csv)} plain read_csv calls")
    # legends
    rng = [n for n in ast.walk(gc.node) if isinstance(n, ast.For) and isinstance(n.iter, ast.Call) and isinstance(n.iter.func, ast.Name) and n.iter.func.id == "range"]
    # the loop over the series index is the range loop whose variable names the series in a legend prefix; a range loop that merely counts
    # lines (for _ in range(n_header_lines)) is not it
    rng_series = [n for n in rng if isinstance(n.target, ast.Name) and any(
        isinstance(c_, ast.JoinedStr) and any(isinstance(x_, ast.Name) and x_.id == n.target.id for x_ in ast.walk(c_)) for c_ in ast.walk(n))]
    if rng and not rng_series and any(isinstance(c_, ast.JoinedStr) and "legend" in src(c_) for n in rng for c_ in ast.walk(n)):
        rng_series = rng          # a legend f-string that does not use the loop variable: judged below
    rng = rng_series
    if not rng:
        # the prefixes may be prepared once:  prefixes = tuple(f"@ s{i} legend" for i in range(0, 10)) ; line.startswith(prefixes)
        class _R:          # adapter with the two attributes the rule reads (iter, and the subtree searched for startswith / append)
            pass
        mod_level = [st_.value for st_ in list(gc.module.tree.body) + list(er.node.body) if isinstance(st_, ast.Assign) and len(st_.targets) == 1 and
                     isinstance(st_.targets[0], ast.Name) and any((isinstance(x, ast.Name) and x.id == st_.targets[0].id) or
                                                                    (isinstance(x, ast.Attribute) and x.attr == st_.targets[0].id)
                                                                    for x in ast.walk(gc.node))]
        for comp in [n for root_ in [gc.node] + mod_level for n in ast.walk(root_) if isinstance(n, (ast.GeneratorExp, ast.ListComp)) and isinstance(n.elt, ast.JoinedStr)]:
            g0 = comp.generators[0]
            if isinstance(g0.iter, ast.Call) and isinstance(g0.iter.func, ast.Name) and g0.iter.func.id == "range" and not g0.ifs:
                # the loop over the lines is the one whose body tests the prepared prefixes
                lines = [n for n in ast.walk(gc.node) if isinstance(n, ast.For) and any(
                    isinstance(c_, ast.Call) and isinstance(c_.func, ast.Attribute) and c_.func.attr == "startswith" and c_.args and
                    isinstance(c_.args[0], (ast.Name, ast.Attribute)) for c_ in ast.walk(n))]
                lines = [n for n in lines if not any(m is not n and m in lines for m in ast.walk(n))] or lines
                if lines:
                    r_ = ast.For(target=g0.target, iter=g0.iter, body=lines[0].body, orelse=[])
                    # the startswith argument of the rule below is the f-string itself
                    r_._fstring = comp.elt
                    rng = [r_]
    ctx.instance("PAIRIO", 4)
    rx = _legend_regex(repo, er, gc) if not rng else None
    if not rng and rx is not None:
        _legend_regex_rules(ctx, gc, rx)
    elif not rng:
        ctx.inconclusive("PAIRIO", "C20.legend.range", "legend scan loop not recognised", gc.where)
    else:
        a = rng[0].iter.args
        lconst = {n.targets[0].id: n.value.value for n in ast.walk(gc.node) if isinstance(n, ast.Assign) and isinstance(n.targets[0], ast.Name)
                  and isinstance(n.value, ast.Constant) and
                  sum(1 for m in ast.walk(gc.node) if isinstance(m, ast.Assign) and isinstance(m.targets[0], ast.Name) and m.targets[0].id == n.targets[0].id) == 1}
        vals = [x.value if isinstance(x, ast.Constant) else (lconst.get(x.id) if isinstance(x, ast.Name) else None) for x in a]
        lo, hi = (0, vals[0]) if len(vals) == 1 else (vals[0], vals[1])
        if lo is None or hi is None:
            ctx.inconclusive("PAIRIO", "C20.legend.range", "legend scan range is not constant", gc.where, src(rng[0].iter))
        else:
            ctx.check(lo == 0 and hi >= 10, "PAIRIO", "C20.legend.range", "legends s0..s9 (up to ten series) are recognised", gc.where, src(rng[0].iter),
                      witness=f"range({lo}, {hi}) misses " + ", ".join(f"s{i}" for i in range(10) if not (lo <= i < hi)))
        sw = [n for n in ast.walk(rng[0]) if isinstance(n, ast.Call) and isinstance(n.func, ast.Attribute) and n.func.attr == "startswith" and n.args
              and isinstance(n.args[0], ast.JoinedStr)]
        pat = None
        fstr = sw[0].args[0] if sw else getattr(rng[0], "_fstring", None)
        if fstr is not None and not sw:
            sw = [n for n in ast.walk(rng[0]) if isinstance(n, ast.Call) and isinstance(n.func, ast.Attribute) and n.func.attr == "startswith" and n.args
                  and isinstance(n.args[0], (ast.Name, ast.Attribute))]
        if fstr is not None:
            parts = [(v.value if isinstance(v, ast.Constant) else "{}") for v in fstr.values]
            pat = "".join(parts)
        ctx.check(pat == "@ s{} legend", "PAIRIO", "C20.legend.pattern", "a legend line is recognised by the prefix '@ s<i> legend'", gc.where,
                  src(sw[0])[:100] if sw else "", witness=repr(pat))
        app = [n for n in ast.walk(rng[0]) if isinstance(n, ast.Call) and isinstance(n.func, ast.Attribute) and n.func.attr == "append"]
        from ..astutil import Canon
        cn = Canon(Canon.single_defs(gc.node.body))
        verdict = None
        if app and app[0].args:
            e_ = cn.expand(app[0].args[0])
            if isinstance(e_, ast.Call) and isinstance(e_.func, ast.Attribute) and isinstance(e_.func.value, ast.Name) and \
                    e_.func.value.id in ("self", "cls", er.name):
                # the extraction may live in a small (static) helper of the reader
                from ..astutil import inline_self_methods as _ism
                e_ = cn.expand(_ism(er, e_))
            if isinstance(e_, ast.Subscript) and isinstance(e_.value, ast.Call) and isinstance(e_.value.func, ast.Attribute) and \
                    e_.value.func.attr == "split" and len(e_.value.args) == 1 and isinstance(e_.value.args[0], ast.Constant) and \
                    e_.value.args[0].value == '"':
                ix = e_.slice
                iv = ix.value if isinstance(ix, ast.Constant) else (-ix.operand.value if isinstance(ix, ast.UnaryOp) and isinstance(ix.op, ast.USub)
                                                                    and isinstance(ix.operand, ast.Constant) else None)
                if iv in (-2, 1):
                    verdict = True
                elif isinstance(iv, int):
                    verdict = False
        if verdict is None:
            ctx.inconclusive("PAIRIO", "C20.legend.text", "extraction of the legend text not recognised", gc.where,
                             witness=src(app[0])[:100] if app else "no append")
        else:
            ctx.check(verdict, "PAIRIO", "C20.legend.text", "the column name is the text between the quotes of the legend line", gc.where,
                      src(app[0])[:100] if app else "", witness="the element taken from line.split('\"') is not the quoted part")
        # the list the legends are appended to is the one that is returned, and nothing re-orders it
        rets = [n.value for n in ast.walk(gc.node) if isinstance(n, ast.Return) and n.value is not None]
        ret_names = {r.id for r in rets if isinstance(r, ast.Name)}
        reorder = [n for n in ast.walk(gc.node) if isinstance(n, ast.Call) and (
            (isinstance(n.func, ast.Name) and n.func.id in ("sorted", "reversed", "set")) or
            (isinstance(n.func, ast.Attribute) and n.func.attr in ("sort", "reverse", "insert")))]
        if reorder:
            ctx.violate("ORD", "C20.legend.order", "the list of column names is re-ordered after the legends were read in file order", gc.where,
                        src(reorder[0])[:100], witness="column k of the table no longer carries the k-th legend")
        elif app and isinstance(app[0].func.value, ast.Name) and app[0].func.value.id in ret_names:
            ctx.ok("ORD", "C20.legend.order", "legends are appended in file order to the returned list", gc.where)
        else:
            ctx.inconclusive("ORD", "C20.legend.order", "accumulation of the legend names not recognised", gc.where,
                             witness=src(app[0])[:80] if app else "no append")
    # every line of the header is offered to the legend scan: the loop over the lines runs over the whole file handle, not over a slice
    # of it (the property's header grammar puts the '@ s<i> legend' lines anywhere after the '#' lines, and there may be fewer than 13 of those)
    def _handles():
        hs = set()
        for n in ast.walk(gc.node):
            if isinstance(n, ast.With):
                for it in n.items:
                    if isinstance(it.optional_vars, ast.Name):
                        hs.add(it.optional_vars.id)
            if isinstance(n, ast.Assign) and len(n.targets) == 1 and isinstance(n.targets[0], ast.Name) and isinstance(n.value, ast.Call) and \
                    isinstance(n.value.func, ast.Name) and n.value.func.id == "open":
                hs.add(n.targets[0].id)
        return hs
    handles = _handles()
    ldefs = {}
    for n in ast.walk(gc.node):
        if isinstance(n, ast.Assign) and len(n.targets) == 1 and isinstance(n.targets[0], ast.Name):
            ldefs.setdefault(n.targets[0].id, []).append(n.value)

    def _all_lines(e, depth=0):
        """True: e yields every line of the file; (False, why): e yields a proper part of them; None: not recognised"""
        if depth > 6:
            return None
        if isinstance(e, ast.Name):
            if e.id in handles:
                return True
            if len(ldefs.get(e.id, [])) == 1:
                return _all_lines(ldefs[e.id][0], depth + 1)
            return None
        if isinstance(e, ast.Call):
            f_ = e.func
            if isinstance(f_, ast.Name) and f_.id == "open":
                return True
            if isinstance(f_, ast.Name) and f_.id in ("enumerate", "iter", "list", "tuple") and e.args:
                return _all_lines(e.args[0], depth + 1)
            if (isinstance(f_, ast.Name) and f_.id == "islice") or (isinstance(f_, ast.Attribute) and f_.attr == "islice"):
                if e.args and _all_lines(e.args[0], depth + 1) is True:
                    b = [a_.value if isinstance(a_, ast.Constant) else "?" for a_ in e.args[1:]]
                    if len(b) >= 2 and b[0] in (0, None) and b[1] is None:
                        return True
                    if "?" in b[:2]:
                        return None
                    return (False, f"islice bounds {b}")
                return None
            if isinstance(f_, ast.Attribute) and f_.attr == "readlines" and not e.args:
                return _all_lines(f_.value, depth + 1)
            if isinstance(f_, ast.Attribute) and f_.attr in ("splitlines", "split") and isinstance(f_.value, ast.Call) and \
                    isinstance(f_.value.func, ast.Attribute) and f_.value.func.attr in ("read", "read_text") and not f_.value.args:
                if f_.attr == "split" and not (len(e.args) == 1 and isinstance(e.args[0], ast.Constant) and e.args[0].value == "\n"):
                    return None
                return True if f_.value.func.attr == "read_text" else _all_lines(f_.value.func.value, depth + 1)
            return None
        if isinstance(e, ast.Subscript) and isinstance(e.slice, ast.Slice):
            base = _all_lines(e.value, depth + 1)
            if base is not True:
                return None
            lo_, hi_, st_ = e.slice.lower, e.slice.upper, e.slice.step
            cv = lambda x: None if x is None else (x.value if isinstance(x, ast.Constant) else "?")
            b = [cv(lo_), cv(hi_), cv(st_)]
            if b[0] in (None, 0) and b[1] is None and b[2] in (None, 1):
                return True
            if "?" in b:
                return None
            return (False, f"slice bounds {b}")
        return None

    def _tnames(t):
        return {x.id for x in ast.walk(t) if isinstance(x, ast.Name)}
    line_loops = [n for n in ast.walk(gc.node) if isinstance(n, ast.For) and any(
        isinstance(c_, ast.Call) and isinstance(c_.func, ast.Attribute) and c_.func.attr == "startswith" and isinstance(c_.func.value, ast.Name)
        and c_.func.value.id in _tnames(n.target) for c_ in ast.walk(n))]
    line_loops = [n for n in line_loops if any("legend" in src(c_) for c_ in ast.walk(n) if isinstance(c_, (ast.JoinedStr, ast.Constant)))
                  or any(isinstance(c_, ast.Call) and isinstance(c_.func, ast.Attribute) and c_.func.attr == "append" for c_ in ast.walk(n))]
    if line_loops:
        ctx.instance("PAIRIO")
        ll = sorted(line_loops, key=lambda x: x.lineno)[0]
        v_ = _all_lines(ll.iter)
        # lines consumed from the handle before the loop starts are not offered to the scan either
        pre = [c_ for c_ in ast.walk(gc.node) if isinstance(c_, ast.Call) and getattr(c_, "lineno", 10**9) < ll.lineno and (
            (isinstance(c_.func, ast.Name) and c_.func.id == "next" and c_.args and isinstance(c_.args[0], ast.Name) and c_.args[0].id in handles) or
            (isinstance(c_.func, ast.Attribute) and c_.func.attr in ("readline", "seek") and isinstance(c_.func.value, ast.Name) and
             c_.func.value.id in handles and not (c_.func.attr == "seek" and c_.args and isinstance(c_.args[0], ast.Constant) and c_.args[0].value == 0)))]
        if pre:
            ctx.violate("PAIRIO", "C20.legend.scope", "lines are consumed from the file before the legend scan starts: a legend among them is never seen "
                        "(the header may have fewer '#' lines than are skipped)", gc.where, src(pre[0])[:100],
                        witness="a file with two '#' lines and its legends on the following lines loses those column names")
        elif v_ is True:
            ctx.ok("PAIRIO", "C20.legend.scope", "the legend scan is offered every line of the file from the first one", gc.where, src(ll.iter)[:100])
        elif isinstance(v_, tuple):
            ctx.violate("PAIRIO", "C20.legend.scope", "the legend scan runs over a part of the file's lines only: legends outside it are silently "
                        "missed and the remaining names are attached to the wrong columns", gc.where, src(ll.iter)[:100], witness=v_[1])
        else:
            ctx.inconclusive("PAIRIO", "C20.legend.scope", "source of the lines offered to the legend scan not recognised", gc.where, src(ll.iter)[:100])
    # one pass over the file: a second `for line in f` after a first loop that ended with `break` never sees the line that ended the
    # first loop (the iterator has already consumed it)
    seq_loops = {}
    for n in ast.walk(gc.node):
        if isinstance(n, ast.For) and isinstance(n.iter, ast.Name):
            seq_loops.setdefault(n.iter.id, []).append(n)
    ctx.instance("ORD")
    split = [(nm, ls_) for nm, ls_ in seq_loops.items() if len(ls_) >= 2]
    if split:
        nm, ls_ = split[0]
        first = sorted(ls_, key=lambda x: x.lineno)[0]
        brk = [b for b in ast.walk(first) if isinstance(b, ast.Break)]
        lone = []
        for b in brk:
            par = getattr(b, "_parent", None)
            if isinstance(par, ast.If) and len(par.body) == 1:
                lone.append(par)
        if lone:
            ctx.violate("ORD", "C20.legend.onepass", f"the header is scanned by consecutive loops over the same iterator `{nm}`: the line on which "
                        "the first loop breaks has been consumed and is never examined by the next loop - if it is a legend line (a file whose "
                        "first '@' line is `@ s0 legend ...`) its name is lost and every later name moves one column", gc.where,
                        "if " + src(lone[0].test)[:80] + ": break", witness="for line in f: if ...: break  /  for line in f: ...")
        else:
            ctx.inconclusive("ORD", "C20.legend.onepass", "the header is scanned by several loops over one iterator", gc.where)
    else:
        ctx.ok("ORD", "C20.legend.onepass", "the header is scanned in one pass over the file", gc.where)
    # the scan may only stop at the end of the header: any other exit that depends on the number of names found so far must leave
    # room for the time column plus ten legends
    file_loops = [n for n in ast.walk(gc.node) if isinstance(n, ast.For) and not (isinstance(n.iter, ast.Call) and isinstance(n.iter.func, ast.Name) and n.iter.func.id == "range")]
    for fl in file_loops:
        for br in [n for n in ast.walk(fl) if isinstance(n, ast.Break)]:
            cond = getattr(br, "_parent", None)
            while cond is not None and not isinstance(cond, ast.If):
                cond = getattr(cond, "_parent", None)
            if cond is None:
                continue
            t = cond.test
            txt = src(t)
            if "len(" in txt and isinstance(t, ast.Compare) and len(t.ops) == 1:
                rhs = t.comparators[0]
                lhs = t.left
                c = None
                for side in (rhs, lhs):
                    if isinstance(side, ast.Constant):
                        c = side.value
                    elif isinstance(side, ast.Name) and side.id in lconst:
                        c = lconst[side.id]
                ctx.instance("PAIRIO")
                if isinstance(c, int):
                    need = 11 if isinstance(t.ops[0], (ast.Eq, ast.GtE)) else 12
                    ctx.check(c >= need, "PAIRIO", "C20.legend.earlystop", "an early exit of the legend scan leaves room for the time column and "
                              "ten legends", gc.where, txt, witness=f"`{txt}` stops after {c - 1} legend(s): the names list starts with the time column, "
                              f"so a file with ten series loses its last legend (s9)")
    first = [n for n in gc.node.body if isinstance(n, ast.Assign) and isinstance(n.value, ast.List)]
    ctx.check(bool(first) and len(first[0].value.elts) == 1 and isinstance(first[0].value.elts[0], ast.Constant) and
              isinstance(first[0].value.elts[0].value, str), "PAIRIO", "C20.legend.time", "the first column is the time column, legends follow",
              gc.where, norm_stmt(first[0]) if first else "", witness="list of names does not start with exactly one time column")
    rets = [n for n in ast.walk(gc.node) if isinstance(n, ast.Return) and n.value is not None]
    ctx.check(len(rets) == 1 and first and src(rets[0].value) == src(first[0].targets[0]), "PAIRIO", "C20.legend.return", "that list is what is "
              "returned", gc.where, witness=src(rets[0].value) if rets else "")
    # row k of the parsed table is data line k of the file (= frame k of the pseudo-trajectory): nothing between the parser and the caller
    # may re-order or drop rows
    ROW_CHANGING = {"sort_values": "sorts the rows by a column", "sort_index": "sorts the rows by the index", "sample": "shuffles / samples rows",
                    "drop_duplicates": "drops repeated rows", "dropna": "drops rows with missing values", "nlargest": "selects and re-orders rows",
                    "nsmallest": "selects and re-orders rows", "reindex": "re-orders rows", "head": "keeps only leading rows",
                    "tail": "keeps only trailing rows", "query": "filters rows", "drop": "drops rows / columns"}
    ctx.instance("ORD")
    rowbad = [(f_, n) for f_ in (le, ls) for n in ast.walk(f_.node) if isinstance(n, ast.Call) and isinstance(n.func, ast.Attribute)
              and n.func.attr in ROW_CHANGING and not (isinstance(n.func.value, ast.Name) and n.func.value.id in ("np", "os", "random"))]
    if rowbad:
        f_, n = rowbad[0]
        ctx.violate("ORD", "C20.table.rows", f"the parsed energy table is post-processed by .{n.func.attr}(), which {ROW_CHANGING[n.func.attr]}: row k "
                    "of the result is no longer data line k of the file, so energies are paired with the wrong frames whenever the rows are not "
                    "already in that order (e.g. time stamps that restart)", f_.where, src(n)[:160],
                    witness=f"{n.func.attr} between pandas.read_csv and the returned table")
    else:
        ctx.ok("ORD", "C20.table.rows", "no row-reordering / row-dropping DataFrame method is applied between the parser and the returned table",
               le.where)
    # single column
    r1 = [n for n in ast.walk(ls.node) if isinstance(n, ast.Return) and n.value is not None]
    ctx.instance("PAIRIO")
    okc = False
    if len(r1) == 1:
        e = r1[0].value
        txt = src(e).replace(" ", "")
        okc = txt in ("self.load_energy()[energy_type].to_numpy()", "self.load_energy()[energy_type].values", "np.array(self.load_energy()[energy_type])",
                      "np.asarray(self.load_energy()[energy_type])")
    sq = [n for n in ast.walk(ls.node) if isinstance(n, ast.Call) and isinstance(n.func, ast.Attribute) and n.func.attr in ("squeeze", "item")] + \
         [n for n in ast.walk(ls.node) if isinstance(n, ast.Call) and (repo.dotted_of(ls.module, n.func) or "") == "numpy.squeeze"]
    if sq:
        ctx.violate("PAIRIO", "C20.single", "the selected column is squeezed: a table with exactly one data row comes back as a 0-d scalar instead "
                    "of one row per data line (len() and indexing of the result fail for a one-cell grid)", ls.where, src(sq[0])[:160],
                    witness="`.squeeze()` on an array with one row removes the row axis")
    elif okc:
        ctx.ok("PAIRIO", "C20.single", "a single energy column is the named column of the same frame, in row order", ls.where)
    elif len(r1) == 1 and any(s_ in src(r1[0].value) for s_ in ("sort", "[::-1]", "iloc[1:", "dropna", "unique")):
        ctx.violate("PAIRIO", "C20.single", "the named column is re-ordered / filtered before it is returned: row k no longer belongs to cell k",
                    ls.where, src(r1[0].value)[:160], witness=src(r1[0].value)[:160])
    else:
        ctx.inconclusive("PAIRIO", "C20.single", "selection of a single column not recognised", ls.where, witness=src(r1[0].value)[:160] if r1 else "")
    ctx.require_instances("PAIRIO", 20, "pairing obligations")
    ctx.trust(*META["trusted"])
    ctx.assume(*META["assumptions"])
