"""OWN / ALIAS — in-place mutation of objects that outlive the call (memoised results, object state handed out by reference).

A getter is a pure function of the grid specification only if nothing it (or one of its callers) mutates in place is shared
with a later call.  The analysis is a flow-insensitive, inter-procedural *may-alias origin* analysis over the ASTs:

  origins(e)  =  { fresh | memo(C) | state(Class.attr) | param(f, p) | unknown }

    * `C[K]` with C a memo container (a self.<attr> / module-level dict that is stored under a key and read back)  -> memo(C)
    * `self.<attr>`                                                                                                -> state
    * alias-preserving operations keep the origin of their operand:  .tocoo() .tocsr() .tocsc() (scipy returns `self` when the
      format already matches), coo_array(x)/csr_array(x) (share the index/data buffers of a same-format argument), np.asarray,
      .ravel() .reshape() .squeeze() .T .view() slices, tuple/list packing
    * calls of repository functions: union of the origins of their return expressions, parameters substituted by the arguments
      (methods are resolved by name over the class hierarchy of the scope: class-hierarchy analysis)
    * arithmetic, constructors from fresh data, .copy() .toarray() .astype() ...                                   -> fresh

A mutation site is  `N.attr op= ..`, `N[...] = ..`, `N[...] op= ..`, `N.sort()/fill()/resize()/setdiag()/...`, np.random.shuffle(N)
or a call g(.., N, ..) where g mutates that parameter (summary fixpoint).  A site whose receiver may originate from a memo
container is reported; a site whose receiver is object state *obtained through a call of another function* (a getter that leaks
its internals) is reported as well.
"""
from __future__ import annotations

import ast
from typing import Dict, List, Optional, Set, Tuple

from ..model import Repo, FunctionInfo, ClassInfo, src, norm_stmt

ALIAS_METHODS = {"tocoo", "tocsr", "tocsc", "asformat", "squeeze", "ravel", "reshape", "view", "transpose", "asfptype", "swapaxes",
                 "get", "setdefault", "values", "items", "__getitem__"}
ALIAS_ATTRS = {"T", "data", "real", "imag", "flat", "A", "row", "col", "indices", "indptr", "positions_view"}
FRESH_METHODS = {"copy", "toarray", "todense", "astype", "tolist", "flatten", "sum", "mean", "dot", "min", "max", "round", "argsort",
                 "argmin", "argmax", "nonzero", "cumsum", "prod", "multiply", "power", "diagonal", "keys", "format", "join", "split",
                 "to_numpy", "as_matrix", "as_quat", "inv", "apply", "count", "index", "any", "all", "todok", "tolil", "conj", "item",
                 "center_of_mass", "intersection", "union", "difference", "strip", "replace", "lower", "upper", "startswith", "endswith"}
ALIAS_FUNCS = {"numpy.asarray", "numpy.asanyarray", "numpy.ravel", "numpy.squeeze", "numpy.reshape", "numpy.atleast_1d", "numpy.atleast_2d",
               "numpy.transpose", "numpy.ascontiguousarray", "numpy.real", "numpy.swapaxes", "numpy.moveaxis", "numpy.broadcast_to",
               "scipy.sparse.coo_array", "scipy.sparse.coo_matrix", "scipy.sparse.csr_array", "scipy.sparse.csr_matrix",
               "scipy.sparse.csc_array", "scipy.sparse.csc_matrix", "builtins.iter", "builtins.reversed"}
MUTATING_METHODS = {"sort", "fill", "resize", "setdiag", "eliminate_zeros", "sum_duplicates", "append", "extend", "pop", "insert", "remove",
                    "clear", "update", "reverse", "itemset", "put", "partition", "sort_indices", "prune", "setflags", "byteswap",
                    # MDAnalysis AtomGroup / Universe in-place geometry changes
                    "translate", "rotate", "rotateby", "transform", "wrap", "unwrap", "pack_into_box", "align_principal_axis",
                    "add_transformations"}
MUTATING_FUNCS = {"numpy.random.shuffle": 0, "random.shuffle": 0, "numpy.fill_diagonal": 0, "numpy.put": 0, "numpy.place": 0,
                  "numpy.copyto": 0, "numpy.putmask": 0}

FRESH = ("fresh",)
UNKNOWN = ("unknown",)


def _walk_fn(node):
    """walk without entering nested function definitions"""
    st = list(ast.iter_child_nodes(node))
    while st:
        n = st.pop()
        yield n
        if isinstance(n, (ast.FunctionDef, ast.AsyncFunctionDef, ast.Lambda, ast.ClassDef)):
            continue
        st.extend(ast.iter_child_nodes(n))


class AliasAnalysis:
    def __init__(self, repo: Repo, funcs: List[FunctionInfo]):
        self.repo = repo
        self.funcs = funcs
        self.by_name: Dict[str, List[FunctionInfo]] = {}
        for f in funcs:
            self.by_name.setdefault(f.name, []).append(f)
        self.memo_containers: Dict[Tuple[str, str], str] = {}   # (class or module key, name) -> description
        self.memo_modules: Dict[Tuple[str, str], str] = {}
        self._local_defs: Dict[int, Dict[str, list]] = {}
        self._orig_cache: Dict[Tuple[int, int], Set[tuple]] = {}
        self._in_progress: Set[Tuple[int, int]] = set()
        self._ret_cache: Dict[int, Set[tuple]] = {}
        self.mut_params: Dict[str, Set[str]] = {}
        self.findings: List[tuple] = []
        self.sites = 0
        self.calls_resolved = 0
        self._find_memo_containers()

    # ------------------------------------------------------------------ memo containers
    def _find_memo_containers(self):
        for f in self.funcs:
            stores, reads = set(), set()
            for n in _walk_fn(f.node):
                if isinstance(n, ast.Assign) and len(n.targets) == 1 and isinstance(n.targets[0], ast.Subscript):
                    c = n.targets[0].value
                    if self._is_container_ref(f, c):
                        stores.add(src(c))
            if not stores:
                continue
            for n in _walk_fn(f.node):
                if isinstance(n, ast.Subscript) and isinstance(n.ctx, ast.Load) and src(n.value) in stores:
                    reads.add(src(n.value))
                if isinstance(n, ast.Compare) and any(isinstance(o, (ast.In, ast.NotIn)) for o in n.ops) and \
                        any(src(c_) in stores for c_ in n.comparators):
                    reads.add([src(c_) for c_ in n.comparators if src(c_) in stores][0])
                if isinstance(n, ast.Call) and isinstance(n.func, ast.Attribute) and n.func.attr == "get" and src(n.func.value) in stores:
                    reads.add(src(n.func.value))
            for c in stores & reads:
                key = (f.cls.name if (c.startswith("self.") and f.cls) else f.module.name, c)
                self.memo_containers[key] = f"{c} (stored and read back by key in {f.where})"
                self.memo_modules[key] = f.module.relpath

    def _is_container_ref(self, f: FunctionInfo, c: ast.expr) -> bool:
        if isinstance(c, ast.Attribute) and isinstance(c.value, ast.Name) and c.value.id == "self":
            # only containers: attributes that are initialised as dict somewhere in the class hierarchy
            return self._attr_is_dict(f.cls, c.attr) if f.cls else False
        if isinstance(c, ast.Name):
            for n in f.module.tree.body:
                if isinstance(n, (ast.Assign, ast.AnnAssign)):
                    tg = n.targets[0] if isinstance(n, ast.Assign) else n.target
                    v = n.value
                    if isinstance(tg, ast.Name) and tg.id == c.id and v is not None and (
                            isinstance(v, ast.Dict) or (isinstance(v, ast.Call) and src(v.func).split(".")[-1] in
                                                        ("dict", "defaultdict", "OrderedDict", "WeakValueDictionary", "lru_cache"))):
                        return True
        return False

    def _attr_is_dict(self, ci: Optional[ClassInfo], attr: str) -> bool:
        if ci is None:
            return False
        classes = set(ci.mro()) | set(self.repo.subclasses(ci))
        for c in classes:
            for m in c.methods.values():
                for n in _walk_fn(m.node):
                    if isinstance(n, (ast.Assign, ast.AnnAssign)):
                        tgs = n.targets if isinstance(n, ast.Assign) else [n.target]
                        for tg in tgs:
                            if isinstance(tg, ast.Attribute) and isinstance(tg.value, ast.Name) and tg.value.id == "self" and tg.attr == attr:
                                v = n.value
                                if isinstance(v, ast.Dict) or (isinstance(v, ast.Call) and src(v.func).split(".")[-1] in
                                                               ("dict", "defaultdict", "OrderedDict")):
                                    return True
        return False

    def _attr_assignments(self, ci: Optional[ClassInfo], attr: str):
        """(function, value) of every `self.<attr> = value` in the class hierarchy of ci (cached)"""
        if ci is None:
            return []
        key = (id(ci), attr)
        cache = self.__dict__.setdefault("_attr_cache", {})
        if key in cache:
            return cache[key]
        out = []
        for c in set(ci.mro()) | set(self.repo.subclasses(ci)):
            for m in c.methods.values():
                for n in _walk_fn(m.node):
                    if isinstance(n, ast.Assign):
                        for tg in n.targets:
                            if isinstance(tg, ast.Attribute) and isinstance(tg.value, ast.Name) and tg.value.id == "self" and tg.attr == attr:
                                out.append((m, n.value))
        cache[key] = out
        return out

    def _memo_key(self, f: FunctionInfo, c: ast.expr):
        s = src(c)
        if s.startswith("self.") and f.cls is not None:
            for cl in f.cls.mro() + self.repo.subclasses(f.cls):
                if (cl.name, s) in self.memo_containers:
                    return (cl.name, s)
        if (f.module.name, s) in self.memo_containers:
            return (f.module.name, s)
        return None

    # ------------------------------------------------------------------ local definitions
    def local_defs(self, f: FunctionInfo) -> Dict[str, list]:
        d = self._local_defs.get(id(f))
        if d is not None:
            return d
        d = {}
        for n in _walk_fn(f.node):
            if isinstance(n, ast.Assign):
                for t in n.targets:
                    self._bind(d, t, n.value, "value")
            elif isinstance(n, ast.AnnAssign) and n.value is not None:
                self._bind(d, n.target, n.value, "value")
            elif isinstance(n, ast.AugAssign) and isinstance(n.target, ast.Name):
                d.setdefault(n.target.id, []).append(("value", n.target))   # keeps its object (ndarray) — alias of itself
            elif isinstance(n, (ast.For, ast.comprehension)):
                self._bind(d, n.target, n.iter, "elem")
            elif isinstance(n, ast.withitem) and n.optional_vars is not None:
                self._bind(d, n.optional_vars, n.context_expr, "value")
            elif isinstance(n, ast.NamedExpr):
                self._bind(d, n.target, n.value, "value")
        self._local_defs[id(f)] = d
        return d

    def _bind(self, d, target, value, kind):
        if isinstance(target, ast.Name):
            d.setdefault(target.id, []).append((kind, value))
        elif isinstance(target, (ast.Tuple, ast.List)):
            if isinstance(value, (ast.Tuple, ast.List)) and len(value.elts) == len(target.elts) and kind == "value":
                for t, v in zip(target.elts, value.elts):
                    self._bind(d, t, v, "value")
            else:
                for t in target.elts:
                    self._bind(d, t.value if isinstance(t, ast.Starred) else t, value, "elem")

    # ------------------------------------------------------------------ origins
    def origins(self, e: ast.expr, f: FunctionInfo, depth: int = 0) -> Set[tuple]:
        key = (id(f), id(e))
        if key in self._orig_cache:
            return self._orig_cache[key]
        if key in self._in_progress or depth > 40:
            return set()
        self._in_progress.add(key)
        try:
            r = self._origins(e, f, depth)
        finally:
            self._in_progress.discard(key)
        self._orig_cache[key] = r
        return r

    def _origins(self, e, f, depth) -> Set[tuple]:
        if isinstance(e, ast.Name):
            if e.id == "self":
                return {("self",)}
            defs = self.local_defs(f).get(e.id)
            out: Set[tuple] = set()
            if e.id in f.params() or e.id in [a.arg for a in f.node.args.kwonlyargs]:
                out.add(("param", f.where, e.id))
            if defs:
                for kind, v in defs:
                    if v is e or (isinstance(v, ast.Name) and v.id == e.id):
                        continue
                    out |= self.origins(v, f, depth + 1)
            if not out:
                return {FRESH} if defs is None and self.repo.resolve_name(f.module, e.id) is not None else ({UNKNOWN} if defs is None else {FRESH})
            return out
        if isinstance(e, ast.Attribute):
            if isinstance(e.value, ast.Name) and e.value.id == "self":
                out = {("state", f.cls.name if f.cls else "?", e.attr)}
                for g, v in self._attr_assignments(f.cls, e.attr):
                    for o in self.origins(v, g, depth + 1):
                        if o[0] in ("memo", "leaked", "default"):
                            out.add(o)
                return out
            if e.attr in ALIAS_ATTRS:
                return self.origins(e.value, f, depth + 1)
            base = self.origins(e.value, f, depth + 1)
            # a sub-object of a memoised / leaked object lives as long as that object; attribute of another repository object: its state
            out = {o for o in base if o[0] in ("memo", "leaked", "default")}
            if any(o[0] in ("state", "param", "self") for o in base):
                out.add(("state", "?", e.attr))
            return out or {FRESH}
        if isinstance(e, ast.Subscript):
            mk = self._memo_key(f, e.value)
            if mk is not None:
                return {("memo", mk[0], mk[1])}
            return self.origins(e.value, f, depth + 1)
        if isinstance(e, ast.IfExp):
            return self.origins(e.body, f, depth + 1) | self.origins(e.orelse, f, depth + 1)
        if isinstance(e, ast.Tuple):
            # tuples are immutable: what can be mutated through them is their elements
            out = set()
            for x in e.elts:
                out |= self.origins(x.value if isinstance(x, ast.Starred) else x, f, depth + 1)
            return out or {FRESH}
        if isinstance(e, ast.List):
            return {FRESH}      # a new list object (element aliasing through a list display is not tracked)
        if isinstance(e, ast.Starred):
            return self.origins(e.value, f, depth + 1)
        if isinstance(e, ast.NamedExpr):
            return self.origins(e.value, f, depth + 1)
        if isinstance(e, ast.Call):
            return self._call_origins(e, f, depth)
        if isinstance(e, ast.Await):
            return self.origins(e.value, f, depth + 1)
        # BinOp, UnaryOp, Compare, BoolOp, comprehensions, constants, f-strings, lambdas, dict/set displays
        return {FRESH}

    def _candidates(self, call: ast.Call, f: FunctionInfo) -> Optional[List[FunctionInfo]]:
        fn = call.func
        if isinstance(fn, ast.Name):
            r = self._unwrap(self.repo.resolve_name(f.module, fn.id))
            if isinstance(r, FunctionInfo):
                return [r]
            if isinstance(r, ClassInfo):
                return []      # constructor: fresh object
            return None
        if isinstance(fn, ast.Attribute):
            name = fn.attr
            if isinstance(fn.value, ast.Name) and fn.value.id == "self" and f.cls is not None:
                related = set(f.cls.mro()) | set(self.repo.subclasses(f.cls))
                c = [g for g in self.by_name.get(name, []) if g.cls in related]
                if c:
                    return c
            if isinstance(fn.value, ast.Call) and isinstance(fn.value.func, ast.Name) and fn.value.func.id == "super" and f.cls is not None:
                for b in f.cls.mro()[1:]:
                    if name in b.methods:
                        return [b.methods[name]]
            d = self.repo.dotted_of(f.module, fn)
            if d is not None:
                r = self._unwrap(self.repo.resolve_dotted(d))
                if isinstance(r, FunctionInfo):
                    return [r]
                if isinstance(r, ClassInfo):
                    return []
                if d.split(".")[0] in ("numpy", "scipy", "networkx", "pandas", "MDAnalysis", "builtins", "itertools", "copy", "math"):
                    return None
            c = [g for g in self.by_name.get(name, []) if g.cls is not None]
            return c if c else None
        return None

    def _resolve_callable(self, call: ast.Call, f: FunctionInfo):
        fn = call.func
        try:
            if isinstance(fn, ast.Name):
                return self._unwrap(self.repo.resolve_name(f.module, fn.id))
            d = self.repo.dotted_of(f.module, fn)
            return self._unwrap(self.repo.resolve_dotted(d)) if d else None
        except Exception:
            return None

    @staticmethod
    def _unwrap(r):
        """Repo.resolve_* return ('func', fi) | ('class', ci) | ... -> the info object (or None)"""
        if isinstance(r, tuple) and len(r) == 2 and r[0] in ("func", "class"):
            return r[1]
        return None

    def _ctor_candidates(self, call: ast.Call, f: FunctionInfo) -> List[FunctionInfo]:
        """constructors: the __init__ of the class that is instantiated (they return a fresh object but may modify their arguments)"""
        fn = call.func
        r = None
        if isinstance(fn, ast.Name):
            r = self._unwrap(self.repo.resolve_name(f.module, fn.id))
        elif isinstance(fn, ast.Attribute):
            d = self.repo.dotted_of(f.module, fn)
            r = self._unwrap(self.repo.resolve_dotted(d)) if d is not None else None
        if isinstance(r, ClassInfo):
            for c in r.mro():
                if "__init__" in c.methods:
                    return [c.methods["__init__"]]
        return []

    def _bind_args(self, call: ast.Call, g: FunctionInfo) -> Dict[str, ast.expr]:
        params = g.params()
        if params and params[0] in ("self", "cls") and g.cls is not None:
            params = params[1:]
        out = {}
        for k, a in enumerate(call.args):
            if isinstance(a, ast.Starred):
                break
            if k < len(params):
                out[params[k]] = a
        for kw in call.keywords:
            if kw.arg is not None:
                out[kw.arg] = kw.value
        return out

    def returns_of(self, g: FunctionInfo, depth: int) -> Set[tuple]:
        r = self._ret_cache.get(id(g))
        if r is not None:
            return r
        self._ret_cache[id(g)] = set()      # recursion guard
        out: Set[tuple] = set()
        for n in _walk_fn(g.node):
            if isinstance(n, ast.Return) and n.value is not None:
                out |= self.origins(n.value, g, depth + 1)
            elif isinstance(n, (ast.Yield,)) and n.value is not None:
                out |= self.origins(n.value, g, depth + 1)
        self._ret_cache[id(g)] = out
        return out

    def _call_origins(self, call: ast.Call, f: FunctionInfo, depth: int) -> Set[tuple]:
        fn = call.func
        d = self.repo.dotted_of(f.module, fn) if isinstance(fn, (ast.Attribute, ast.Name)) else None
        if isinstance(fn, ast.Name) and fn.id in ("list", "tuple", "dict", "set", "sorted", "len", "int", "float", "str", "range", "zip",
                                                  "enumerate", "sum", "min", "max", "abs", "round", "bool", "frozenset", "map", "filter"):
            if fn.id in ("zip", "enumerate", "map", "filter") and call.args:
                out = set()
                for a in call.args:
                    out |= self.origins(a, f, depth + 1)
                return out
            return {FRESH}
        if d in ("copy.copy",) and call.args:
            # shallow copy: the elements are shared
            return {FRESH}
        if d in ALIAS_FUNCS and call.args:
            a0 = call.args[0]
            if d.startswith("scipy.sparse.") and isinstance(a0, ast.Tuple):
                # coo_array((data, (row, col))) may share the data buffer; coo_array((n, m)) is an empty matrix of that shape
                if len(a0.elts) == 2 and isinstance(a0.elts[1], ast.Tuple):
                    return self.origins(a0.elts[0], f, depth + 1)
                return {FRESH}
            return self.origins(a0, f, depth + 1)
        if isinstance(fn, ast.Attribute):
            if fn.attr in FRESH_METHODS and not self.by_name.get(fn.attr):
                return {FRESH}
            if fn.attr in ALIAS_METHODS and not self.by_name.get(fn.attr):
                return self.origins(fn.value, f, depth + 1)
        cands = self._candidates(call, f)
        if cands is None:
            return {FRESH} if (d is not None and d.split(".")[0] in ("numpy", "scipy", "networkx", "pandas", "itertools", "math", "copy")) else {UNKNOWN}
        if not cands:
            return {FRESH}
        self.calls_resolved += 1
        out: Set[tuple] = set()
        for g in cands:
            ret = self.returns_of(g, depth)
            binding = self._bind_args(call, g)
            for o in ret:
                if o[0] == "param" and o[1] == g.where:
                    a = binding.get(o[2])
                    if a is not None:
                        out |= self.origins(a, f, depth + 1)
                    else:
                        dflt = g.defaults().get(o[2])
                        out.add(("default", g.where, o[2]) if dflt is not None and isinstance(dflt, (ast.List, ast.Dict, ast.Set)) else FRESH)
                elif o[0] == "self":
                    out |= self.origins(fn.value, f, depth + 1) if isinstance(fn, ast.Attribute) else {UNKNOWN}
                elif o[0] == "state":
                    # state of the callee's object, obtained through a call; a temporary owner `Cls(..).getter()` is not shared
                    owner = fn.value if isinstance(fn, ast.Attribute) else None
                    temp_owner = isinstance(owner, ast.Call) and isinstance(self._resolve_callable(owner, f), ClassInfo)
                    out.add(FRESH if temp_owner else ("leaked", o[1], o[2], g.where))
                else:
                    out.add(o)
        return out or {FRESH}

    def _array_param(self, f: FunctionInfo, name: str) -> bool:
        """is `name` a parameter of f that the body treats as an array (subscripted, array attribute read, or annotated so)"""
        args = f.node.args.posonlyargs + f.node.args.args + f.node.args.kwonlyargs
        a = [x for x in args if x.arg == name]
        if not a:
            return False
        if a[0].annotation is not None and any(k in src(a[0].annotation) for k in ("NDArray", "ndarray", "ArrayLike")):
            return True
        stores = [n for n in _walk_fn(f.node) if isinstance(n, ast.Assign) and any(isinstance(t, ast.Name) and t.id == name for t in n.targets)]
        if stores:
            return False            # rebound locally: not (only) the caller's object any more
        for n in _walk_fn(f.node):
            if isinstance(n, ast.Subscript) and isinstance(n.value, ast.Name) and n.value.id == name:
                return True
            if isinstance(n, ast.Attribute) and isinstance(n.value, ast.Name) and n.value.id == name and n.attr in ("shape", "T", "dtype", "ndim", "size"):
                return True
        return False

    def _view_local(self, f: FunctionInfo, name: str) -> bool:
        """is `name` a local whose only definition is a numpy VIEW (basic slice, .T, reshape/ravel, np.asarray) of an array parameter or
        of an attribute of self"""
        defs = [n for n in _walk_fn(f.node) if isinstance(n, ast.Assign) and any(isinstance(t, ast.Name) and t.id == name for t in n.targets)]
        if len(defs) != 1 or any(x.arg == name for x in f.node.args.posonlyargs + f.node.args.args + f.node.args.kwonlyargs):
            return False
        e = defs[0].value
        seen_view = False
        for _ in range(5):
            if isinstance(e, ast.Subscript):
                sl = e.slice
                parts = sl.elts if isinstance(sl, ast.Tuple) else [sl]
                if not any(isinstance(x, ast.Slice) for x in parts) or any(isinstance(x, (ast.List, ast.ListComp)) for x in parts):
                    return False          # element access (a scalar) or fancy indexing (a copy)
                seen_view, e = True, e.value
            elif isinstance(e, ast.Attribute) and e.attr == "T":
                seen_view, e = True, e.value
            elif isinstance(e, ast.Call) and isinstance(e.func, ast.Attribute) and e.func.attr in ("reshape", "ravel", "view", "squeeze", "transpose"):
                seen_view, e = True, e.func.value
            elif isinstance(e, ast.Call) and (self.repo.dotted_of(f.module, e.func) or "") in ("numpy.asarray", "numpy.asanyarray") and len(e.args) == 1 and not e.keywords:
                seen_view, e = True, e.args[0]
            else:
                break
        if not seen_view:
            return False
        if isinstance(e, ast.Name):
            return self._array_param(f, e.id)
        return isinstance(e, ast.Attribute) and isinstance(e.value, ast.Name) and e.value.id == "self"

    # ------------------------------------------------------------------ mutation sites
    def _mutation_sites(self, f: FunctionInfo):
        """yield (node, receiver expr, description)"""
        for n in _walk_fn(f.node):
            if isinstance(n, (ast.Assign, ast.AugAssign)):
                tgs = n.targets if isinstance(n, ast.Assign) else [n.target]
                for t in tgs:
                    if isinstance(t, (ast.Subscript, ast.Attribute)):
                        base = t.value
                        if isinstance(t, ast.Attribute) and isinstance(base, ast.Name) and base.id == "self":
                            continue       # plain attribute store on self: IDEMP's business
                        yield n, base, norm_stmt(n)[:120]
                    elif isinstance(n, ast.AugAssign) and isinstance(t, ast.Name) and self._array_param(f, t.id):
                        # `p *= c` on an array parameter works in place on the caller's array (on a number it would only rebind the name)
                        yield n, t, norm_stmt(n)[:120]
                    elif isinstance(n, ast.AugAssign) and isinstance(t, ast.Name) and self._view_local(f, t.id):
                        # `v = p[:, :3]; v /= c`: a slice of an array is a view, the augmented assignment writes into the parent array
                        yield n, t, norm_stmt(n)[:120]
            elif isinstance(n, ast.Call):
                if isinstance(n.func, ast.Attribute) and n.func.attr in MUTATING_METHODS and not self.by_name.get(n.func.attr):
                    yield n, n.func.value, src(n)[:120]
                d = self.repo.dotted_of(f.module, n.func) if isinstance(n.func, (ast.Attribute, ast.Name)) else None
                if d in MUTATING_FUNCS and len(n.args) > MUTATING_FUNCS[d]:
                    yield n, n.args[MUTATING_FUNCS[d]], src(n)[:120]

    def run(self):
        # 1. summaries: parameters mutated in place (fixpoint over calls)
        changed = True
        rounds = 0
        while changed and rounds < 6:
            changed = False
            rounds += 1
            for f in self.funcs:
                cur = self.mut_params.setdefault(f.where, set())
                for node, recv, desc in self._mutation_sites(f):
                    for o in self.origins(recv, f):
                        if o[0] == "param" and o[1] == f.where and o[2] not in cur:
                            cur.add(o[2])
                            changed = True
                for n in _walk_fn(f.node):
                    if isinstance(n, ast.Call):
                        for g in (self._candidates(n, f) or []):
                            mp = self.mut_params.get(g.where, set())
                            if not mp:
                                continue
                            b = self._bind_args(n, g)
                            for p in mp:
                                a = b.get(p)
                                if a is None:
                                    continue
                                for o in self.origins(a, f):
                                    if o[0] == "param" and o[1] == f.where and o[2] not in cur:
                                        cur.add(o[2])
                                        changed = True
        # 2. sites
        for f in self.funcs:
            for node, recv, desc in self._mutation_sites(f):
                self.sites += 1
                self._judge(f, node, recv, desc, None)
            for n in _walk_fn(f.node):
                if isinstance(n, ast.Call):
                    for g in (self._candidates(n, f) or []) + self._ctor_candidates(n, f):
                        mp = self.mut_params.get(g.where, set())
                        if not mp:
                            continue
                        b = self._bind_args(n, g)
                        for p in mp:
                            a = b.get(p)
                            if a is not None:
                                self.sites += 1
                                self._judge(f, n, a, src(n)[:120], f"{g.where} modifies its parameter `{p}` in place")
                                self._judge_query(f, n, a, g, p)
        # 4. state SHARED between two objects: self.X is (on some path of construction) another object's attribute taken without a copy
        #    (`other.X`, possibly handed on through super().__init__(X=...)), and a method modifies self.X in place: the other object's
        #    results change with it
        self._shared_state()
        # 3. PUBLIC value-returning functions that modify an array parameter in place (also through a slice view of it): whoever calls
        #    them with an array of their own gets that array changed behind their back, whatever the repository's own call sites pass
        for g in self.funcs:
            short = g.name.split(".")[-1]
            if short.startswith("_") or not self.mut_params.get(g.where):
                continue
            rets = [r for r in _walk_fn(g.node) if isinstance(r, ast.Return) and r.value is not None]
            for p in sorted(self.mut_params[g.where]):
                if p in ("self", "cls") or not rets or all(isinstance(r.value, ast.Name) and r.value.id == p for r in rets):
                    continue
                site = None
                for node, recv, desc in self._mutation_sites(g):
                    if any(o[0] == "param" and o[1] == g.where and o[2] == p for o in self.origins(recv, g)):
                        # only array-style mutation (element / slice store, augmented assignment, ufunc out=): a list argument that is
                        # sorted or extended is judged by the rules of its property
                        if isinstance(node, ast.AugAssign) or (isinstance(node, ast.Assign) and isinstance(node.targets[0], ast.Subscript)):
                            site = (node, desc)
                            break
                if site is not None:
                    self.findings.append(("impure", g, site[0], site[1], f"{g.where} returns a value and also modifies its parameter `{p}` in place "
                                          "(directly or through a view of it): the caller's array is not the same after the call"))
        return self

    def _shared_state(self):
        by_cls = {}
        for f in self.funcs:
            if f.cls is not None:
                by_cls.setdefault(f.cls.qualname, []).append(f)
        classes = {f.cls.qualname: f.cls for f in self.funcs if f.cls is not None}

        def local_defs(fn):
            d = {}
            for n in _walk_fn(fn.node):
                if isinstance(n, ast.Assign) and len(n.targets) == 1 and isinstance(n.targets[0], ast.Name):
                    d.setdefault(n.targets[0].id, []).append(n.value)
            return d

        def foreign(expr, fn, depth=0):
            """-> description if expr may be an attribute of ANOTHER object (a parameter's attribute), taken by reference"""
            if depth > 4:
                return None
            params = [a.arg for a in fn.node.args.posonlyargs + fn.node.args.args + fn.node.args.kwonlyargs]
            if isinstance(expr, ast.Attribute) and isinstance(expr.value, ast.Name) and expr.value.id in params and expr.value.id not in ("self", "cls"):
                return f"{src(expr)} in {fn.where}"
            if isinstance(expr, ast.Name):
                for v in local_defs(fn).get(expr.id, []):
                    r = foreign(v, fn, depth + 1)
                    if r:
                        return r
                if expr.id in params and fn.name.split(".")[-1] == "__init__" and fn.cls is not None:
                    # bound by super().__init__(...) of a subclass constructor
                    for q, c in classes.items():
                        if c is fn.cls or fn.cls not in c.mro():
                            continue
                        sub_init = c.methods.get("__init__")
                        if sub_init is None:
                            continue
                        for call in _walk_fn(sub_init.node):
                            if isinstance(call, ast.Call) and isinstance(call.func, ast.Attribute) and call.func.attr == "__init__" and \
                                    isinstance(call.func.value, ast.Call) and isinstance(call.func.value.func, ast.Name) and call.func.value.func.id == "super":
                                pos = [p_ for p_ in params if p_ != "self"]
                                bound = dict(zip(pos, call.args))
                                bound.update({k.arg: k.value for k in call.keywords if k.arg})
                                if expr.id in bound:
                                    r = foreign(bound[expr.id], sub_init, depth + 1)
                                    if r:
                                        return r
            return None
        shared = {}          # (class qualname, attr) -> description
        for f in self.funcs:
            if f.cls is None:
                continue
            for n in _walk_fn(f.node):
                if isinstance(n, ast.Assign) and len(n.targets) == 1 and isinstance(n.targets[0], ast.Attribute) and \
                        isinstance(n.targets[0].value, ast.Name) and n.targets[0].value.id == "self":
                    r = foreign(n.value, f)
                    if r:
                        shared[(f.cls.qualname, n.targets[0].attr)] = r
        if not shared:
            return
        for f in self.funcs:
            if f.cls is None or f.name.split(".")[-1] == "__init__":
                continue
            for node, recv, desc in self._mutation_sites(f):
                root = recv
                while isinstance(root, ast.Subscript):
                    root = root.value
                if isinstance(root, ast.Attribute) and isinstance(root.value, ast.Name) and root.value.id == "self":
                    for c in f.cls.mro():
                        d = shared.get((c.qualname, root.attr))
                        if d:
                            self.findings.append(("shared", f, node, desc, f"self.{root.attr} may be the very array of another object ({d}, no copy) "
                                                  f"and is modified in place here"))
                            break

    def _judge_query(self, f, node, arg, g, p):
        """a QUERY (a function of another class / module level that returns a value other than that parameter) which also modifies
        its parameter in place, called outside construction with the caller's own attribute: the object's input state is changed
        behind its back and every later computation from that attribute sees the modified values"""
        if f.name.split(".")[-1] == "__init__" or (g.cls is not None and f.cls is not None and g.cls.name == f.cls.name):
            return
        rets = [r for r in _walk_fn(g.node) if isinstance(r, ast.Return) and r.value is not None]
        is_ctor = g.name.split(".")[-1] == "__init__"
        if not is_ctor and (not rets or all(isinstance(r.value, ast.Name) and r.value.id == p for r in rets)):
            return              # a procedure whose purpose is to modify its argument (or that hands it back)
        for o in sorted(self.origins(arg, f)):
            if o[0] == "state" and isinstance(arg, ast.Attribute) and isinstance(arg.value, ast.Name) and arg.value.id == "self":
                self.findings.append(("query", f, node, src(node)[:120],
                                      (f"the constructor {g.where} modifies its parameter `{p}` in place; " if is_ctor else
                                       f"{g.where} returns a value but also modifies its parameter `{p}` in place; ") +
                                      f"here it receives self.{o[2]} of the {o[1]} object"))
                return

    def _judge(self, f, node, recv, desc, via):
        for o in sorted(self.origins(recv, f)):
            if o[0] == "memo":
                self.findings.append(("memo", f, node, desc, f"`{src(recv)}` may be the object stored in the memo container {o[2]} of {o[1]} "
                                      f"({self.memo_modules.get((o[1], o[2]), '')})" + (f"; {via}" if via else "")))
            elif o[0] == "leaked":
                self.findings.append(("leak", f, node, desc, f"`{src(recv)}` may be the attribute self.{o[2]} of a {o[1]} object, handed out by "
                                      f"reference by {o[3]}" + (f"; {via}" if via else "")))
            elif o[0] == "default":
                self.findings.append(("default", f, node, desc, f"`{src(recv)}` may be the mutable default of parameter {o[2]} of {o[1]}"))


CONTROL = '''
import numpy as np
from scipy.sparse import coo_array
class G:
    def __init__(self):
        self._saved = dict()
        self.grid = np.zeros(3)
    def calc(self, key):
        if key in self._saved:
            return self._saved[key]
        m = coo_array(np.eye(3))
        self._saved[key] = m
        return m
    def get_grid(self):
        return self.grid
class U:
    def __init__(self):
        self.g = G()
    def use(self):
        m = self.g.calc("a").tocoo()
        m.data /= 2
        return m
    def use2(self):
        x = self.g.get_grid()
        x[0] = 1
        return x
    def ask(self):
        self.e = np.zeros(3)
        return count_big(self.e)
    def fine(self):
        m = self.g.calc("a").copy()
        m.data /= 2
        y = self.g.get_grid() * 2
        y[0] = 1
        return m, y
'''

CONTROL += '''\ndef count_big(e):\n    e *= 2\n    return len(e[e > 1])\n'''

DEFAULT_SCOPE_PREFIXES = ("molgri.space", "molgri.molecules", "molgri.io", "molgri.naming")


def scope_functions(repo: Repo, prefixes=DEFAULT_SCOPE_PREFIXES) -> List[FunctionInfo]:
    out = []
    for name, m in sorted(repo.modules.items()):
        if not any(name == p or name.startswith(p + ".") or name.startswith(p) for p in prefixes):
            continue
        out += list(m.functions.values())
        for c in m.classes.values():
            out += list(c.methods.values())
    return out


def _control_repo() -> Repo:
    r = Repo.__new__(Repo)
    r.root = "<control>"
    r.modules = {}
    r.consulted = {}
    m = r._add_module("ctl", "<control>", "<control>", source=CONTROL)
    r._link_classes(m)
    return r


def check_aliases(ctx, repo: Repo, pid: str, module_names: List[str], report_modules: Optional[List[str]] = None):
    """ALIAS obligations for property pid: analysis over `module_names`, findings reported when the mutation site or the memo
    container lies in one of `report_modules` (default: all analysed)."""
    cr = _control_repo()
    cf = scope_functions(cr, ("ctl",))
    ca = AliasAnalysis(cr, cf).run()
    kinds = sorted({(k, f.name) for k, f, *_ in ca.findings})
    if kinds != [("impure", "count_big"), ("leak", "use2"), ("memo", "use"), ("query", "ask")]:
        ctx.inconclusive("ALIAS", f"{pid}.alias.control", "positive control of the alias rule did not match", "<control>", witness=str(kinds))
        return None
    funcs = []
    for mn in module_names:
        m = repo.module(mn)
        funcs += list(m.functions.values())
        for c in m.classes.values():
            funcs += list(c.methods.values())
    aa = AliasAnalysis(repo, funcs).run()
    ctx.instance("ALIAS", aa.sites + 1)
    rep = set(report_modules or module_names)
    seen = set()
    bad = 0
    for kind, f, node, desc, msg in aa.findings:
        if f.module.name not in rep and not any(repo.module(r).relpath in msg for r in rep if r in repo.modules):
            continue
        k = (kind, f.where, desc)
        if k in seen:
            continue
        seen.add(k)
        bad += 1
        what = {"memo": "an object that is kept in a memo container is modified in place by a caller that received it by reference: every "
                        "later request for the same key returns the modified object (the result of a getter depends on which getters ran before)",
                "leak": "object state handed out by reference by a getter is modified in place by the caller: later calls of the getters "
                        "of that object return different values",
                "default": "a mutable default argument is modified in place: state shared between calls",
                "impure": "a public, value-returning function modifies the array it is given in place: a caller that uses the same array again "
                          "(a second assignment, a pseudotrajectory generated afterwards) computes from the modified values, so results depend "
                          "on what was called before",
                "shared": "an attribute that one object takes over from another object without copying it is modified in place: the other object "
                          "computes from the modified array afterwards, so its results depend on what was called on its twin",
                "query": "a value-returning helper modifies, in place, the array it is given, and a method hands it the object's own input "
                         "attribute: after that call every result computed from the attribute uses the modified values (results depend on "
                         "the history of calls)"}[kind]
        ctx.violate("ALIAS", f"{pid}.alias.{kind}", what, f.where, desc, witness=msg)
    if bad == 0:
        ctx.ok("ALIAS", f"{pid}.alias", f"{aa.sites} in-place mutation sites in {len(funcs)} functions: none acts on an object that may come from "
               f"a memo container ({len(aa.memo_containers)} found) or on state leaked by another object's getter (positive control matched)",
               ", ".join(module_names)[:200])
    return aa
