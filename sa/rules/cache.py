"""CACHE — memoisation soundness (history independence of every anchored function).

A memo store  C[K] = E  (C a module-level container or a self.<attr> container) is sound only if K determines E:
  * every parameter of the enclosing function that E depends on occurs in K,
  * K is not a lossy summary (.shape, len(), id(), type()) of a value E uses,
  * a module-level / class-level cache is not fed from object state (self.<attr>) that K does not contain,
  * an object retrieved from a cache is not mutated in place afterwards.
Expected number of memo stores on the pinned tree: 0 in the anchored modules — a positive control is evaluated on every run.
"""
from __future__ import annotations

import ast
from typing import List, Tuple

from ..model import Repo, ModuleInfo, FunctionInfo, src, norm_stmt, enclosing_function

CONTROL = '''
_MEMO = {}
class K:
    def __init__(self):
        self._c = dict()
    def f(self, a, b):
        if a not in self._c:
            self._c[a] = self.g(a, b)
        x = self._c[a]
        x *= 2
        return x
    def h(self, pts):
        key = (pts.shape,)
        if key not in _MEMO:
            _MEMO[key] = pts.sum() + self.z
        return _MEMO[key]
from functools import lru_cache
@lru_cache(maxsize=4)
def read_table(path):
    return np.load(path)
@lru_cache(maxsize=None)
def points(n):
    return np.random.random((n, 3))
class Slot:
    def __init__(self):
        self._v = None
    def volumes(self, approx=False):
        if self._v is not None:
            return self._v
        if approx:
            self._v = self.estimate()
        else:
            self._v = self.exact()
        return self._v
class Shared:
    _poly = None
    def __init__(self, n):
        if Shared._poly is None:
            Shared._poly = [0]
        self.poly = Shared._poly
'''


def _names(e):
    return {n.id for n in ast.walk(e) if isinstance(n, ast.Name)}


def _self_attrs(e):
    return {n.attr for n in ast.walk(e) if isinstance(n, ast.Attribute) and isinstance(n.value, ast.Name) and n.value.id == "self"}


def _container_kind(tree: ast.Module, fn: ast.AST, target: ast.expr):
    """'module' if target is a module-level mutable container name, 'self' if self.<attr>, else None"""
    if isinstance(target, ast.Name):
        for n in tree.body:
            if isinstance(n, (ast.Assign, ast.AnnAssign)):
                tg = n.targets[0] if isinstance(n, ast.Assign) else n.target
                v = n.value
                if isinstance(tg, ast.Name) and tg.id == target.id and v is not None and (
                        isinstance(v, (ast.Dict, ast.List, ast.Set)) or
                        (isinstance(v, ast.Call) and isinstance(v.func, ast.Name) and v.func.id in ("dict", "list", "set", "defaultdict", "OrderedDict"))):
                    return "module"
        # a container of an ENCLOSING function (decorator factory): lives as long as the decorated function, shared by every object
        p_ = getattr(fn, "_parent", None)
        while p_ is not None:
            if isinstance(p_, (ast.FunctionDef, ast.AsyncFunctionDef)):
                for n in p_.body:
                    if isinstance(n, ast.Assign) and len(n.targets) == 1 and isinstance(n.targets[0], ast.Name) and n.targets[0].id == target.id and (
                            isinstance(n.value, (ast.Dict, ast.List, ast.Set)) or
                            (isinstance(n.value, ast.Call) and isinstance(n.value.func, ast.Name) and n.value.func.id in ("dict", "list", "set", "defaultdict", "OrderedDict"))):
                        return "module"
            p_ = getattr(p_, "_parent", None)
        return None
    if isinstance(target, ast.Attribute) and isinstance(target.value, ast.Name) and target.value.id == "self":
        # a container defined at CLASS level and never re-bound per object is shared by all objects of the class
        c_ = getattr(fn, "_parent", None)
        while c_ is not None and not isinstance(c_, ast.ClassDef):
            c_ = getattr(c_, "_parent", None)
        if c_ is not None:
            cls_level = any(isinstance(n, ast.Assign) and len(n.targets) == 1 and isinstance(n.targets[0], ast.Name) and n.targets[0].id == target.attr and
                            (isinstance(n.value, (ast.Dict, ast.List, ast.Set)) or
                             (isinstance(n.value, ast.Call) and isinstance(n.value.func, ast.Name) and n.value.func.id in ("dict", "list", "set", "defaultdict", "OrderedDict")))
                            for n in c_.body)
            rebound = any(isinstance(a_, ast.Assign) and any(isinstance(t_, ast.Attribute) and t_.attr == target.attr and isinstance(t_.value, ast.Name) and
                                                              t_.value.id == "self" for t_ in a_.targets) for a_ in ast.walk(c_))
            if cls_level and not rebound:
                return "module"
        return "self"
    if isinstance(target, ast.Attribute) and isinstance(target.value, ast.Name) and target.value.id not in ("self",):
        # ClassName.container[...] / cls.container[...]: a container that lives on the class is shared by every object
        c_ = getattr(fn, "_parent", None)
        while c_ is not None and not isinstance(c_, ast.ClassDef):
            c_ = getattr(c_, "_parent", None)
        root_ = c_
        while root_ is not None and getattr(root_, "_parent", None) is not None:
            root_ = root_._parent
        owners = [k_ for k_ in (ast.walk(root_) if root_ is not None else []) if isinstance(k_, ast.ClassDef) and
                  (k_.name == target.value.id or (target.value.id == "cls" and k_ is c_))]
        for k_ in owners:
            if any(isinstance(n, ast.Assign) and len(n.targets) == 1 and isinstance(n.targets[0], ast.Name) and n.targets[0].id == target.attr and
                   (isinstance(n.value, (ast.Dict, ast.List, ast.Set)) or
                    (isinstance(n.value, ast.Call) and isinstance(n.value.func, ast.Name) and n.value.func.id in ("dict", "list", "set", "defaultdict", "OrderedDict")))
                   for n in k_.body):
                return "module"
        return None
    return None


def analyse_tree(tree: ast.Module, relpath: str):
    """-> (memo stores found, problems [(kind, where, node, message)])"""
    from ..model import set_parents
    set_parents(tree)
    stores = []
    problems = []
    funcs = [n for n in ast.walk(tree) if isinstance(n, (ast.FunctionDef, ast.AsyncFunctionDef))]
    # decorator memos: functools.lru_cache / cache around a function whose result depends on something that is not an argument VALUE
    READERS = ("load", "load_npz", "loadtxt", "genfromtxt", "read_csv", "read_table", "open", "Universe", "read", "read_text", "fromfile")
    dec_stores = []
    # class-level state written from a method:  ClassName.attr = ...  /  cls.attr = ... / type(self).attr = ...
    class_names = {n.name for n in ast.walk(tree) if isinstance(n, ast.ClassDef)}
    for fn in funcs:
        for n in ast.walk(fn):
            if isinstance(n, (ast.Assign, ast.AugAssign)):
                for tg in (n.targets if isinstance(n, ast.Assign) else [n.target]):
                    if isinstance(tg, ast.Attribute):
                        b = tg.value
                        is_cls = (isinstance(b, ast.Name) and (b.id in class_names or b.id == "cls")) or \
                            (isinstance(b, ast.Call) and isinstance(b.func, ast.Name) and b.func.id == "type") or \
                            (isinstance(b, ast.Attribute) and b.attr == "__class__")
                        if is_cls:
                            # only when the value is read back into a computation (a mere instance counter / log is not a result path)
                            used = False
                            for m_ in ast.walk(tree):
                                if isinstance(m_, ast.Attribute) and m_.attr == tg.attr and isinstance(m_.ctx, ast.Load):
                                    par_ = getattr(m_, "_parent", None)
                                    if isinstance(par_, ast.Compare) and any(isinstance(c_, ast.Constant) and c_.value is None for c_ in par_.comparators):
                                        continue
                                    if isinstance(par_, ast.AugAssign):
                                        continue
                                    used = True
                            if not used:
                                continue
                            dec_stores.append((fn, n))
                            problems.append(("classstate", f"{relpath}:{fn.name}", n, f"`{src(tg)}` is state of the CLASS, written from a method: every "
                                             "object of the class (and every later construction in the process) sees what earlier ones left "
                                             "there, so a result depends on the objects built before"))
    for fn in funcs:
        decs = [src(d.func) if isinstance(d, ast.Call) else src(d) for d in fn.decorator_list]
        if not any(d.split(".")[-1] in ("lru_cache", "cache", "memoize", "cached") for d in decs):
            continue
        dec_stores.append((fn, fn))
        reads = [c for c in ast.walk(fn) if isinstance(c, ast.Call) and src(c.func).split(".")[-1] in READERS]
        if reads:
            problems.append(("stale", f"{relpath}:{fn.name}", reads[0], f"`{fn.name}` is memoised by its arguments (a path) but its result is the CONTENT "
                             "of a file: after the file is rewritten the stale content is returned, and every caller receives the same "
                             "mutable object"))
        elif any(isinstance(c, ast.Call) and (src(c.func).startswith(("np.random.", "numpy.random.", "random.")) or
                                             src(c.func).split(".")[-1] in ("random_sample", "default_rng")) for c in ast.walk(fn)):
            rc_ = [c for c in ast.walk(fn) if isinstance(c, ast.Call) and (src(c.func).startswith(("np.random.", "numpy.random.", "random.")) or
                                                                        src(c.func).split(".")[-1] in ("random_sample", "default_rng"))][0]
            problems.append(("rng", f"{relpath}:{fn.name}", rc_, f"`{fn.name}` is memoised by its arguments but draws from the global random generator: "
                             "its result depends on the generator state (the seed set by the caller) which the memo key does not contain, so "
                             "callers that seed differently receive each other's points"))
        elif any(isinstance(n_, ast.Attribute) and isinstance(n_.value, ast.Name) and n_.value.id == "self" for n_ in ast.walk(fn)):
            problems.append(("state", f"{relpath}:{fn.name}", fn.body[0], f"`{fn.name}` is memoised per argument tuple (self is hashed by identity) "
                             "but reads object state: a later change of that state is not seen"))
    for fn in funcs:
        params = [a.arg for a in fn.args.posonlyargs + fn.args.args + fn.args.kwonlyargs if a.arg not in ("self", "cls")]
        local_defs = {}
        for n in ast.walk(fn):
            if isinstance(n, ast.Assign) and len(n.targets) == 1 and isinstance(n.targets[0], ast.Name):
                local_defs.setdefault(n.targets[0].id, []).append(n.value)
        for n in ast.walk(fn):
            if not (isinstance(n, ast.Assign) and len(n.targets) == 1 and isinstance(n.targets[0], ast.Subscript)):
                continue
            t = n.targets[0]
            kind = _container_kind(tree, fn, t.value)
            if kind is None:
                continue
            # memo pattern: guarded by `K not in C` / `C.get(K) is None` / try-except KeyError, or simply a store that is later read
            guard = None
            p = getattr(n, "_parent", None)
            while p is not None and p is not fn:
                if isinstance(p, ast.If) and src(t.value) in src(p.test) and (" not in " in src(p.test) or " in " in src(p.test) or "get(" in src(p.test)):
                    guard = p
                p = getattr(p, "_parent", None)
            if guard is None:
                # early-return memo:  if K in C: return C[K]  ...  C[K] = E
                cname = src(t.value)
                for m_ in ast.walk(fn):
                    if isinstance(m_, ast.If) and cname in src(m_.test) and " in " in src(m_.test) and \
                            any(isinstance(r_, ast.Return) and r_.value is not None and cname in src(r_.value) for r_ in ast.walk(m_)):
                        guard = m_
                        break
            if guard is None:
                continue
            if kind == "self" and fn.name == "__init__":
                continue
            stores.append((fn, n))
            key = t.slice
            key_names = set(_names(key))
            key_txt = src(key)
            # expand local names used in the key
            for nm in list(key_names):
                for d in local_defs.get(nm, []):
                    key_names |= _names(d)
                    key_txt += " " + src(d)
            val = n.value
            val_names = set(_names(val))
            # data AND control dependences of the stored value (fixpoint over the local definitions): a definition that only happens
            # under `if <param>:` makes the value depend on that parameter although the parameter is not an operand
            def_stmts = {}
            for a_ in ast.walk(fn):
                if isinstance(a_, ast.Assign) and len(a_.targets) == 1 and isinstance(a_.targets[0], ast.Name):
                    def_stmts.setdefault(a_.targets[0].id, []).append(a_)
                elif isinstance(a_, ast.AugAssign) and isinstance(a_.target, ast.Name):
                    def_stmts.setdefault(a_.target.id, []).append(a_)
            grow = True
            while grow:
                grow = False
                for nm in list(val_names):
                    for st_ in def_stmts.get(nm, []):
                        new_ = set(_names(st_.value)) if st_.value is not val else set()
                        q_ = getattr(st_, "_parent", None)
                        while q_ is not None and q_ is not fn:
                            if isinstance(q_, (ast.If, ast.While)) and q_ is not guard:
                                new_ |= _names(q_.test)
                            q_ = getattr(q_, "_parent", None)
                        if new_ - val_names:
                            val_names |= new_
                            grow = True
            where = f"{relpath}:{fn.name}"
            missing = [p_ for p_ in params if p_ in val_names and p_ not in key_names]
            if missing:
                problems.append(("key", where, n, f"cache key `{src(key)}` ignores parameter(s) {missing} on which the cached value depends: "
                                                  f"a later call with a different {missing[0]} returns the stale entry"))
            lossy = [w for w in (".shape", "len(", "id(", "type(", ".size", ".ndim") if w in key_txt]
            # an OBJECT that enters the computation is represented in the key only by a name / string it gives of itself
            for c_ in ast.walk(key):
                pass
            key_exprs = [key] + [d for nm in _names(key) for d in local_defs.get(nm, [])]
            for ke in key_exprs:
                for c_ in ast.walk(ke):
                    if isinstance(c_, ast.Call) and isinstance(c_.func, ast.Attribute) and c_.func.attr in ("get_name", "get_standard_name", "__str__", "__repr__") \
                            and isinstance(c_.func.value, (ast.Name, ast.Subscript)):
                        root_ = c_.func.value
                        while isinstance(root_, ast.Subscript):
                            root_ = root_.value
                        if not isinstance(root_, ast.Name):
                            continue
                        obj = root_.id
                        src_obj = " ".join(src(d) for d in local_defs.get(obj, []))
                        uses_obj = obj in val_names or any(nm in val_names for nm in _names(ast.parse(src_obj or "0", mode="eval")))
                        if uses_obj or "args" in val_names:
                            lossy.append(f"{obj}.{c_.func.attr}()")
                    elif isinstance(c_, ast.Call) and isinstance(c_.func, ast.Name) and c_.func.id in ("str", "repr") and c_.args and \
                            isinstance(c_.args[0], ast.Name) and (c_.args[0].id in val_names):
                        lossy.append(f"{c_.func.id}({c_.args[0].id})")
            if lossy:
                problems.append(("lossy", where, n, f"cache key `{key_txt[:80]}` is a lossy summary ({', '.join(lossy)}) of the data the cached value "
                                                    "is computed from: different inputs of the same size share one entry"))
            if kind == "module":
                sa = _self_attrs(val) | {a for nm in _names(val) for d in local_defs.get(nm, []) for a in _self_attrs(d)}
                # control dependences and definitions reached through val_names (computed above) may read object state too
                for nm in val_names:
                    for d in local_defs.get(nm, []):
                        sa |= _self_attrs(d)
                ka = _self_attrs(key) | {a for nm in _names(key) for d in local_defs.get(nm, []) for a in _self_attrs(d)}
                if (sa - ka) and not lossy:
                    problems.append(("state", where, n, f"module-level cache `{src(t.value)}` stores a value computed from object state "
                                                        f"(self.{sorted(sa - ka)[0]}) that the key does not contain: objects share entries"))
        # the object put into the cache is modified afterwards (the cache then holds the modified object)
        for fn2, st in [x for x in stores if x[0] is fn]:
            v_ = st.value
            if isinstance(v_, ast.Name):
                x = v_.id
                for m in ast.walk(fn):
                    if isinstance(m, (ast.Assign, ast.AugAssign)) and getattr(m, "lineno", 0) > st.lineno:
                        tg = m.targets[0] if isinstance(m, ast.Assign) else m.target
                        root = tg
                        while isinstance(root, (ast.Subscript, ast.Attribute)):
                            root = root.value
                        if isinstance(tg, (ast.Subscript, ast.Attribute)) and isinstance(root, ast.Name) and root.id == x or \
                                (isinstance(m, ast.AugAssign) and isinstance(tg, ast.Name) and tg.id == x):
                            problems.append(("mutate", f"{relpath}:{fn.name}", m, f"`{x}` was stored in the cache `{src(st.targets[0].value)}` and is "
                                             f"modified in place afterwards (`{norm_stmt(m)[:80]}`): the cached entry is not the value that was "
                                             "computed for its key"))
                            break
        # single-slot caches:  if self.A is not None: return self.A ... self.A = E   (no key at all): sound only if E depends on no parameter
        if fn.name != "__init__" and params:
            slot_guards = {}
            for n in ast.walk(fn):
                if isinstance(n, ast.If) and isinstance(n.test, ast.Compare) and len(n.test.ops) == 1 and \
                        isinstance(n.test.ops[0], (ast.IsNot, ast.Is)) and isinstance(n.test.comparators[0], ast.Constant) and \
                        n.test.comparators[0].value is None and isinstance(n.test.left, ast.Attribute) and \
                        isinstance(n.test.left.value, ast.Name) and n.test.left.value.id == "self":
                    attr = n.test.left.attr
                    hit_branch = n.body if isinstance(n.test.ops[0], ast.IsNot) else n.orelse
                    if any(isinstance(r_, ast.Return) and r_.value is not None and f"self.{attr}" in src(r_.value) for b_ in hit_branch for r_ in ast.walk(b_)):
                        slot_guards[attr] = n
                    elif isinstance(n.test.ops[0], ast.Is) and not n.orelse and \
                            any(isinstance(a_, ast.Assign) and any(isinstance(t_, ast.Attribute) and t_.attr == attr and isinstance(t_.value, ast.Name) and
                                                                    t_.value.id == "self" for t_ in a_.targets) for b_ in n.body for a_ in ast.walk(b_)) and \
                            any(isinstance(r_, ast.Return) and r_.value is not None and f"self.{attr}" in src(r_.value) and r_.lineno > n.lineno
                                for r_ in ast.walk(fn)):
                        # fill-once form:  if self.A is None: self.A = E   ...   return self.A
                        slot_guards[attr] = n
            for attr, gnode in slot_guards.items():
                sstores = [a_ for a_ in ast.walk(fn) if isinstance(a_, ast.Assign) and len(a_.targets) == 1 and isinstance(a_.targets[0], ast.Attribute) and
                           isinstance(a_.targets[0].value, ast.Name) and a_.targets[0].value.id == "self" and a_.targets[0].attr == attr]
                if not sstores:
                    continue
                dep = set()
                for a_ in sstores:
                    stores.append((fn, a_))
                    dep |= _names(a_.value)
                    q_ = getattr(a_, "_parent", None)
                    while q_ is not None and q_ is not fn:
                        if isinstance(q_, (ast.If, ast.While)) and q_ is not gnode:
                            dep |= _names(q_.test)
                        q_ = getattr(q_, "_parent", None)
                grow_ = True
                defs_ = {}
                for a2 in ast.walk(fn):
                    if isinstance(a2, ast.Assign) and len(a2.targets) == 1 and isinstance(a2.targets[0], ast.Name):
                        defs_.setdefault(a2.targets[0].id, []).append(a2)
                while grow_:
                    grow_ = False
                    for nm in list(dep):
                        for a2 in defs_.get(nm, []):
                            new_ = set(_names(a2.value))
                            q_ = getattr(a2, "_parent", None)
                            while q_ is not None and q_ is not fn:
                                if isinstance(q_, (ast.If, ast.While)) and q_ is not gnode:
                                    new_ |= _names(q_.test)
                                q_ = getattr(q_, "_parent", None)
                            if new_ - dep:
                                dep |= new_
                                grow_ = True
                missing = [p_ for p_ in params if p_ in dep]
                if missing:
                    problems.append(("key", f"{relpath}:{fn.name}", sstores[0], f"`self.{attr}` is a single-slot cache (returned whenever it is set) but the "
                                     f"value stored in it depends on parameter(s) {missing}: the first call decides what every later call "
                                     f"returns, whatever {missing[0]} it is given"))
        # tuple caches:  self.X = (value, key)  validated by  self.X[1] == key
        for n in ast.walk(fn):
            if fn.name == "__init__":
                break
            if isinstance(n, ast.Assign) and len(n.targets) == 1 and isinstance(n.targets[0], ast.Attribute) and \
                    isinstance(n.targets[0].value, ast.Name) and n.targets[0].value.id == "self" and isinstance(n.value, ast.Tuple) and len(n.value.elts) == 2:
                attr = n.targets[0].attr
                if not any(isinstance(c, ast.Compare) and f"self.{attr}[1]" in src(c) for c in ast.walk(fn)):
                    continue
                stores.append((fn, n))
                vexpr, kexpr = n.value.elts
                # names the stored value depends on (flow-insensitive closure over local definitions)
                dep = set(_names(vexpr))
                changed = True
                all_defs = {}
                for a in ast.walk(fn):
                    if isinstance(a, ast.Assign) and len(a.targets) == 1 and isinstance(a.targets[0], ast.Name):
                        all_defs.setdefault(a.targets[0].id, []).append(a.value)
                while changed:
                    changed = False
                    for nm in list(dep):
                        for d in all_defs.get(nm, []):
                            new = _names(d) - dep
                            if new:
                                dep |= new
                                changed = True
                knames = _names(kexpr)
                for nm in list(knames):
                    for d in all_defs.get(nm, []):
                        knames |= _names(d)
                missing = [p_ for p_ in params if p_ in dep and p_ not in knames]
                if missing:
                    problems.append(("key", f"{relpath}:{fn.name}", n, f"the cached value `{src(vexpr)}` depends on parameter(s) {missing} but the "
                                     f"validity key `{src(kexpr)}` does not: a later call with another {missing[0]} gets the stale value"))
        # in-place mutation of a value read from a cache container
        for n in ast.walk(fn):
            if isinstance(n, ast.Assign) and len(n.targets) == 1 and isinstance(n.targets[0], ast.Name) and isinstance(n.value, ast.Subscript):
                kind = _container_kind(tree, fn, n.value.value)
                if kind is None:
                    continue
                # only containers that are memo targets somewhere
                if not any(src(s.targets[0].value) == src(n.value.value) for f2, s in stores):
                    continue
                x = n.targets[0].id
                for m in ast.walk(fn):
                    if isinstance(m, ast.AugAssign) and isinstance(m.target, ast.Name) and m.target.id == x and m.lineno > n.lineno:
                        problems.append(("mutate", f"{relpath}:{fn.name}", m, f"`{x}` is the object stored in the cache `{src(n.value.value)}` and is "
                                         f"updated in place (`{norm_stmt(m)}`): every later request sees the accumulated change"))
                    if isinstance(m, (ast.Assign, ast.AugAssign)):
                        tg = m.targets[0] if isinstance(m, ast.Assign) else m.target
                        root = tg
                        while isinstance(root, (ast.Subscript, ast.Attribute)):
                            root = root.value
                        if isinstance(tg, (ast.Subscript, ast.Attribute)) and isinstance(root, ast.Name) and root.id == x and m.lineno > n.lineno:
                            problems.append(("mutate", f"{relpath}:{fn.name}", m, f"the cached object `{x}` (from `{src(n.value.value)}`) is modified "
                                             f"in place (`{norm_stmt(m)[:80]}`)"))
    return stores + dec_stores, problems


def check_caches(ctx, repo: Repo, pid: str, module_names: List[str]):
    # positive control
    ctl_stores, ctl_problems = analyse_tree(ast.parse(CONTROL), "<control>")
    kinds = {p[0] for p in ctl_problems}
    if not ({"key", "lossy", "mutate", "stale", "classstate", "rng"} <= kinds) or len(ctl_stores) < 5:
        ctx.inconclusive("CACHE", f"{pid}.cache.control", "positive control of the cache rule did not match", "<control>",
                         witness=f"stores={len(ctl_stores)}, kinds={sorted(kinds)}")
        return
    total = 0
    bad = 0
    for mn in module_names:
        m = repo.module(mn)
        stores, problems = analyse_tree(m.tree, m.relpath)
        total += len(stores)
        ctx.instance("CACHE", 1 + len(stores))
        seen = set()
        for kind, where, node, msg in problems:
            k = (kind, where, norm_stmt(node))
            if k in seen:
                continue
            seen.add(k)
            bad += 1
            ctx.violate("CACHE", f"{pid}.cache.{kind}", "a memoised result does not depend only on its key, so what a call returns depends on "
                        "the calls made before it", where, norm_stmt(node)[:200], witness=msg)
    if bad == 0:
        ctx.ok("CACHE", f"{pid}.cache", f"{total} memo store(s) in {len(module_names)} anchored module(s); none with an insufficient key, a lossy "
               "key, foreign object state, file content behind a path key or in-place mutation of the cached object (positive control matched)", ", ".join(module_names))
