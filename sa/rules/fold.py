"""FOLD + TRUTH — antipodal fold of the full-sphere rotation matrix onto the upper half (HalfRotobjVoronoi._calculate_N_N_array).

Obligations (shared by C02, C04, C14):
  F.truth     no index array is used in Boolean context on the path that builds the antipode map (F1)
  F.map       the antipode map is built for every row d of the double cover: key d, value = index of the row equal to -row_d
  F.copy      the fold copies the VALUE M[i][j] into column opp(j) of the same row i, for every stored entry
  F.extract   rows and columns are extracted with one index list (the sorted upper indices)
  F.upper     upper indices = ascending indices of rows with q_in_upper_sphere (positive polarity)
  F.source    the folded matrix is the full-sphere matrix of the same property
  F.defaults  only_upper and include_opposing_neighbours default to True
"""
from __future__ import annotations

import ast

from ..model import Repo, AnalysisError, src, norm_stmt
from .truth import boolean_uses, returns_index_array

VO = "molgri.space.voronoi"


def _names(e):
    return {n.id for n in ast.walk(e) if isinstance(n, ast.Name)}


def _sub2(e):
    """M[i][j] or M[i, j] -> (M expr, i expr, j expr)"""
    if isinstance(e, ast.Subscript):
        if isinstance(e.slice, ast.Tuple) and len(e.slice.elts) == 2:
            return e.value, e.slice.elts[0], e.slice.elts[1]
        if isinstance(e.value, ast.Subscript) and not isinstance(e.value.slice, (ast.Tuple, ast.Slice)):
            return e.value.value, e.value.slice, e.slice
    return None


def check_fold(ctx, repo: Repo, pid: str):
    ci = repo.cls(VO, "HalfRotobjVoronoi")
    fi = ci.methods.get("_calculate_N_N_array")
    if fi is None:
        raise AnalysisError("anchor vanished: HalfRotobjVoronoi._calculate_N_N_array")
    ctx.analysed(fi)
    where = fi.where
    tag = f"{pid}.fold"
    # private helpers of the class that only this routine calls are spliced in (the fold / the extraction may live in helpers)
    from ..astutil import splice_self_calls, helper_closure
    from ..model import FunctionInfo, set_parents
    helpers_ = sorted(helper_closure(ci, ["_calculate_N_N_array"]) - {"_calculate_N_N_array", "_get_upper_indices"})
    mod_helpers_ = [c_.func.id for c_ in ast.walk(fi.node) if isinstance(c_, ast.Call) and isinstance(c_.func, ast.Name) and
                    c_.func.id.startswith("_") and ci.module.functions.get(c_.func.id) is not None]
    if helpers_ or mod_helpers_:
        class _CI:
            """class view in which only the exclusively-owned helpers are spliceable"""
            name = ci.name

            @staticmethod
            def find_method(n_):
                return ci.find_method(n_) if n_ in helpers_ else None
        spliced_ = splice_self_calls(_CI, fi.node, module=ci.module)
        for h_ in mod_helpers_:
            ctx.analysed(ci.module.functions[h_])
        set_parents(spliced_)
        for h_ in helpers_:
            if ci.find_method(h_) is not None:
                ctx.analysed(ci.find_method(h_))
        fi = FunctionInfo(fi.name, fi.qualname, fi.module, spliced_, fi.cls)
    # ---------------- TRUTH
    viol, ndefs = boolean_uses(repo, fi)
    ctx.instance("TRUTH", max(1, ndefs))
    if viol:
        for node, name, producer, cx in viol:
            ctx.violate("TRUTH", f"{tag}.truth", f"the result of {producer} is used in Boolean context ({cx}): the index array [0] is "
                        "false although an antipode was found, so the antipode of the point opposite to row 0 is never recorded and "
                        "the folded matrix is not symmetric (every pair reached through rotation cell 0)", where,
                        f"if {name}:" if cx == "if" else src(node)[:80], witness="np.array([0]) is falsy; np.array([k]) with k>0 is truthy",
                        key="TRUTH|molgri/space/voronoi.py:HalfRotobjVoronoi._calculate_N_N_array|if opp_ind:")
    elif ndefs == 0:
        ctx.inconclusive("TRUTH", f"{tag}.truth", "no antipode lookup (index-array producing call) found in the fold", where)
    else:
        ctx.ok("TRUTH", f"{tag}.truth", f"{ndefs} index-array value(s); none used as a truth value", where)
    from .truth import index_truthiness_in_comprehensions
    for node, name, producer, cx in index_truthiness_in_comprehensions(repo, fi):
        ctx.instance("TRUTH")
        ctx.violate("TRUTH", f"{tag}.truth.index", f"an index obtained from {producer} is used as a truth value ({cx}): index 0 is a valid "
                    "position but counts as False, so the antipode that sits in row 0 is never recorded", where, src(node)[:160],
                    witness=f"`{name}` may be 0")
    # sibling uses of which_row_is_k elsewhere (corroboration; instances counted)
    wk = repo.func("molgri.space.utils", "which_row_is_k")
    ctx.check(returns_index_array(repo, wk), "TRUTH", f"{tag}.truth.producer", "which_row_is_k returns an index array (np.nonzero(...)[0])",
              wk.where, witness="return expression is not an index array")

    # ---------------- signature defaults
    d = fi.defaults()
    ctx.instance("FOLD", 2)
    for p_ in ("only_upper", "include_opposing_neighbours"):
        v = d.get(p_)
        ctx.check(isinstance(v, ast.Constant) and v.value is True, "FOLD", f"{tag}.defaults.{p_}", f"default of {p_} is True (the public "
                  "getters of the rotation grid reach the folded, extracted matrix)", where, f"{p_}=...", witness=src(v) if v is not None else "missing")

    # ---------------- source: full sphere matrix of the same property
    body = fi.node
    src_assign = None
    for n in ast.walk(body):
        if isinstance(n, ast.Assign) and isinstance(n.targets[0], ast.Name):
            for c in ast.walk(n.value):
                if isinstance(c, ast.Call) and isinstance(c.func, ast.Attribute) and c.func.attr == "_calculate_N_N_array":
                    src_assign = (n, c)
    ctx.instance("FOLD")
    if src_assign is None:
        ctx.inconclusive("FOLD", f"{tag}.source", "full-sphere matrix computation not found", where)
        return
    n_assign, call = src_assign
    M = n_assign.targets[0].id
    recv = src(call.func.value)
    kw = {k.arg: k.value for k in call.keywords}
    sp = kw.get("sel_property", call.args[0] if call.args else None)
    ok = recv == "self.full_voronoi" and isinstance(sp, ast.Name) and sp.id == "sel_property"
    ctx.check(ok, "FOLD", f"{tag}.source", "the folded matrix starts from the FULL-sphere matrix of the same property "
              "(self.full_voronoi, not super())", where, norm_stmt(n_assign), witness=f"receiver {recv}, property {src(sp) if sp is not None else None}")
    # further options of that request are evaluated on the full-sphere routine itself (voro.pairwise_matrix with these keywords)
    extra = {k: v for k, v in kw.items() if k not in ("sel_property",)}
    if extra:
        ctx.notes.append(f"the fold requests the full-sphere matrix with extra options {sorted(extra)}")
    init = ci.methods.get("__init__")
    if init is not None:
        fv = [n for n in ast.walk(init.node) if isinstance(n, ast.Assign) and src(n.targets[0]) == "self.full_voronoi"]
        ctx.check(len(fv) == 1 and isinstance(fv[0].value, ast.Call) and src(fv[0].value.func) == "RotobjVoronoi", "FOLD", f"{tag}.source.full",
                  "self.full_voronoi is the full-sphere RotobjVoronoi of the same array", init.where,
                  norm_stmt(fv[0]) if fv else "", witness="not a RotobjVoronoi(...)")

    # ---------------- antipode map
    maps = []      # (dict name, loop node, key expr, value expr, guard)
    for loop in [n for n in ast.walk(body) if isinstance(n, ast.For)]:
        for st in ast.walk(loop):
            if isinstance(st, ast.Assign) and isinstance(st.targets[0], ast.Subscript) and isinstance(st.targets[0].value, ast.Name):
                t = st.targets[0]
                if isinstance(st.value, ast.Subscript) and isinstance(st.value.slice, ast.Constant) and st.value.slice.value == 0:
                    maps.append((t.value.id, loop, t.slice, st.value, st))
    ctx.instance("FOLD", len(maps))
    amap = None
    for name, loop, key, val, st in maps:
        # loop: for d, n in enumerate(G)
        it = loop.iter
        if isinstance(it, ast.Call) and isinstance(it.func, ast.Name) and it.func.id == "enumerate" and isinstance(loop.target, ast.Tuple):
            dvar, nvar = (x.id if isinstance(x, ast.Name) else None for x in loop.target.elts)
            G = it.args[0]
            # value = which_row_is_k(G, -n)[0]
            inner = val.value
            # resolve through a local name
            if isinstance(inner, ast.Name):
                defs = [a for a in ast.walk(loop) if isinstance(a, ast.Assign) and isinstance(a.targets[0], ast.Name) and a.targets[0].id == inner.id]
                inner = defs[-1].value if defs else inner
            okc = isinstance(inner, ast.Call) and isinstance(inner.func, ast.Name) and inner.func.id == "which_row_is_k" and len(inner.args) == 2
            neg_ok = False
            same_grid = False
            if okc:
                a0, a1 = inner.args
                same_grid = ast.dump(a0) == ast.dump(G)
                if isinstance(a1, ast.Name):
                    defs = [a for a in ast.walk(loop) if isinstance(a, ast.Assign) and isinstance(a.targets[0], ast.Name) and a.targets[0].id == a1.id]
                    a1 = defs[-1].value if defs else a1
                neg_ok = isinstance(a1, ast.UnaryOp) and isinstance(a1.op, ast.USub) and isinstance(a1.operand, ast.Name) and a1.operand.id == nvar
            key_ok = isinstance(key, ast.Name) and key.id == dvar
            good = okc and same_grid and neg_ok and key_ok
            ctx.check(good, "FOLD", f"{tag}.map", "antipode map: for every row d of the double cover, map[d] = index of the row equal "
                      "to -row_d in the same array", where, norm_stmt(st),
                      witness=f"lookup ok={okc}, same array={same_grid}, negated row={neg_ok}, key is row index={key_ok}")
            # which array? must be the full (double cover) point set
            gsrc = src(G)
            gdefs = [a for a in ast.walk(body) if isinstance(a, ast.Assign) and isinstance(a.targets[0], ast.Name) and a.targets[0].id == gsrc]
            gval = src(gdefs[-1].value) if gdefs else gsrc
            ctx.check("spherical_voronoi.points" in gval or "my_array" in gval or "full_voronoi" in gval, "FOLD", f"{tag}.map.domain",
                      "the antipode map ranges over all 2N points of the double cover", where, f"{gsrc} = {gval}", witness=gval)
            if good:
                amap = name
    if amap is None and not maps:
        ctx.inconclusive("FOLD", f"{tag}.map", "construction of the antipode map not recognised", where)

    # ---------------- an antipode index obtained with map.get(j) must be tested with `is not None`: index 0 is a valid antipode
    if amap is not None:
        got = {a_.targets[0].id: a_ for a_ in ast.walk(body) if isinstance(a_, ast.Assign) and len(a_.targets) == 1 and isinstance(a_.targets[0], ast.Name) and
               isinstance(a_.value, ast.Call) and isinstance(a_.value.func, ast.Attribute) and a_.value.func.attr == "get" and
               isinstance(a_.value.func.value, ast.Name) and a_.value.func.value.id == amap and len(a_.value.args) == 1}
        for nm_, a_ in got.items():
            for t_ in [n_ for n_ in ast.walk(body) if isinstance(n_, (ast.If, ast.IfExp, ast.While))]:
                tests = [t_.test] + ([v_ for v_ in t_.test.values] if isinstance(t_.test, ast.BoolOp) else [])
                if any(isinstance(x_, ast.Name) and x_.id == nm_ for x_ in tests):
                    ctx.instance("TRUTH")
                    ctx.violate("TRUTH", f"{tag}.truth.index", f"the antipode index `{nm_}` (from {amap}.get) is used as a truth value: index 0 is a valid "
                                "antipode but counts as False, so entries whose antipodal column is column 0 are never folded (column 0 "
                                "misses its opposing neighbours while row 0 has them: the folded matrix is not symmetric)", where, src(t_.test)[:120],
                                witness=f"{amap}.get(j) == 0 for the cell opposite to cell 0")
    # ---------------- fold copy
    copies = []
    for st in ast.walk(body):
        if isinstance(st, ast.Assign) and len(st.targets) == 1:
            t = _sub2(st.targets[0])
            if t and isinstance(t[0], ast.Name) and t[0].id == M:
                copies.append((st, t))
    ctx.instance("FOLD", len(copies))
    found_copy = False
    # row-alias form:  for R in M:  for j, oj in MAP.items():  if R[j]: R[oj] = R[j]
    for st in ast.walk(body):
        if not (isinstance(st, ast.Assign) and len(st.targets) == 1 and isinstance(st.targets[0], ast.Subscript) and
                isinstance(st.targets[0].value, ast.Name) and isinstance(st.value, ast.Subscript) and isinstance(st.value.value, ast.Name) and
                st.targets[0].value.id == st.value.value.id):
            continue
        R = st.targets[0].value.id
        row_loop = items_loop = None
        p_ = getattr(st, "_parent", None)
        while p_ is not None and p_ is not body:
            if isinstance(p_, ast.For):
                if isinstance(p_.target, ast.Name) and p_.target.id == R and isinstance(p_.iter, ast.Name) and p_.iter.id == M:
                    row_loop = p_
                if isinstance(p_.target, ast.Tuple) and len(p_.target.elts) == 2 and isinstance(p_.iter, ast.Call) and \
                        isinstance(p_.iter.func, ast.Attribute) and p_.iter.func.attr == "items" and isinstance(p_.iter.func.value, ast.Name) and \
                        (amap is None or p_.iter.func.value.id == amap):
                    items_loop = p_
            p_ = getattr(p_, "_parent", None)
        if row_loop is None or items_loop is None:
            continue
        kvar, vvar = (x.id if isinstance(x, ast.Name) else None for x in items_loop.target.elts)
        tcol, scol = st.targets[0].slice, st.value.slice
        found_copy = True
        ctx.instance("FOLD")
        okc = isinstance(tcol, ast.Name) and isinstance(scol, ast.Name) and tcol.id == vvar and scol.id == kvar
        ctx.check(okc, "FOLD", f"{tag}.copy", "fold: within every row the entry of column j is copied to column opp(j), (j, opp(j)) ranging over "
                  "the antipode map", where, norm_stmt(st), witness=f"target column {src(tcol)}, source column {src(scol)}, map items ({kvar}, {vvar})")
        ctx.ok("FOLD", f"{tag}.copy.guard", "the copy runs over the items of the antipode map (membership of j is implied)", where, src(items_loop.iter))
        par = getattr(st, "_parent", None)
        while par is not None and not isinstance(par, ast.If):
            par = getattr(par, "_parent", None)
        ctx.instance("FLOATTOL")
        tol_ = par is not None and any((isinstance(c_, ast.Call) and src(c_.func).split(".")[-1] in ("isclose", "allclose")) for c_ in ast.walk(par.test))
        if tol_:
            ctx.violate("FLOATTOL", f"{tag}.copy.threshold", "the fold decides 'is there an entry' with a magnitude threshold", where, src(par.test)[:160],
                        witness=src(par.test)[:160])
        else:
            ctx.ok("FLOATTOL", f"{tag}.copy.threshold", "the fold tests the presence of an entry exactly (no magnitude threshold)", where,
                   src(par.test) if par is not None else "")
    # the antipodal column may be fetched first:  oj = MAP.get(j)  ...  if el and oj is not None: M[i][oj] = M[i][j]
    get_alias = {}
    if amap is not None:
        for a_ in ast.walk(body):
            if isinstance(a_, ast.Assign) and len(a_.targets) == 1 and isinstance(a_.targets[0], ast.Name) and isinstance(a_.value, ast.Call) and \
                    isinstance(a_.value.func, ast.Attribute) and a_.value.func.attr == "get" and isinstance(a_.value.func.value, ast.Name) and \
                    a_.value.func.value.id == amap and len(a_.value.args) == 1 and not a_.value.keywords:
                get_alias[a_.targets[0].id] = a_.value.args[0]
    for st, (m_, i_, j_) in ([] if found_copy else copies):
        # target column must be map[j]
        via_get = None
        if isinstance(j_, ast.Name) and j_.id in get_alias:
            via_get = j_.id
            j_ = ast.Subscript(value=ast.Name(id=amap, ctx=ast.Load()), slice=get_alias[via_get], ctx=ast.Load())
        if not (isinstance(j_, ast.Subscript) and isinstance(j_.value, ast.Name) and (amap is None or j_.value.id == amap)):
            continue
        found_copy = True
        jvar = j_.slice
        v = _sub2(st.value)
        if v is None or not (isinstance(v[0], ast.Name) and v[0].id == M):
            ctx.violate("FOLD", f"{tag}.copy", "the fold stores a constant / foreign value instead of copying the entry M[i][j] to its "
                        "antipodal column: border areas and distances of folded neighbours are lost", where, norm_stmt(st),
                        witness=f"stored value: {src(st.value)}")
            continue
        same_row = ast.dump(v[1]) == ast.dump(i_)
        same_col = ast.dump(v[2]) == ast.dump(jvar)
        ctx.check(same_row and same_col, "FOLD", f"{tag}.copy", "fold: M[i][opp(j)] = M[i][j] (value copied within row i from column j)", where,
                  norm_stmt(st), witness=f"row match={same_row}, column match={same_col}")
        # guard: entry is non-zero and j has an antipode
        par = getattr(st, "_parent", None)
        while par is not None and not isinstance(par, ast.If):
            par = getattr(par, "_parent", None)
        if par is not None:
            gn = _names(par.test)
            ctx.check((amap is None or amap in gn or (via_get is not None and via_get in gn)), "FOLD", f"{tag}.copy.guard", "the copy is guarded by membership of j in the antipode map",
                      where, src(par.test), witness=src(par.test))
            # the "is there an entry" part of the guard must be exact (truthiness / != 0): the three matrices (Boolean adjacency, border
            # areas, centre distances) are folded by this one routine, and a magnitude threshold folds them differently
            from ..astutil import Canon
            scope_ = getattr(par, "_parent", None)
            body_ = getattr(scope_, "body", []) if scope_ is not None else []
            test_ = Canon(Canon.single_defs(body_)).expand(par.test) if body_ else par.test
            thr = None
            for c_ in ast.walk(test_):
                if isinstance(c_, ast.Call) and src(c_.func).split(".")[-1] in ("isclose", "allclose"):
                    thr = c_
                elif isinstance(c_, ast.Compare) and len(c_.ops) == 1 and isinstance(c_.ops[0], (ast.Gt, ast.GtE, ast.Lt, ast.LtE)):
                    sides = [c_.left, c_.comparators[0]]
                    if any(isinstance(x_, ast.Constant) and isinstance(x_.value, (int, float)) and x_.value != 0 for x_ in sides) or \
                            any(isinstance(x_, ast.BinOp) and isinstance(x_.op, ast.Pow) for x_ in sides) or \
                            any(isinstance(x_, ast.Name) and "tol" in x_.id.lower() for x_ in sides):
                        thr = c_
            ctx.instance("FLOATTOL")
            if thr is not None:
                ctx.violate("FLOATTOL", f"{tag}.copy.threshold", "the fold decides 'is there an entry' with a magnitude threshold: a border area / "
                            "distance below the tolerance that is reached only through the antipode is not folded although the Boolean adjacency "
                            "of the same pair is, so adjacency, borders and distances no longer share one sparsity pattern", where, src(thr)[:160],
                            witness=f"guard: {src(test_)[:200]}")
            else:
                ctx.ok("FLOATTOL", f"{tag}.copy.threshold", "the fold tests the presence of an entry exactly (no magnitude threshold)", where, src(par.test))
    if not found_copy:
        # vectorised forms: a column-wise copy is fine, an ADDITION of the two copies is not (pairs adjacent through both +q and -q
        # would get twice the distance / border)
        additive = []
        colcopy = []
        for st in ast.walk(body):
            if isinstance(st, (ast.Assign, ast.AugAssign)):
                val = st.value
                tg = st.targets[0] if isinstance(st, ast.Assign) else st.target
                subs = [x for x in ast.walk(val) if isinstance(x, ast.Subscript) and isinstance(x.value, ast.Name) and x.value.id == M]
                if isinstance(st, ast.AugAssign) and isinstance(st.op, ast.Add) and isinstance(tg, ast.Subscript) and subs:
                    additive.append(st)
                elif isinstance(val, ast.BinOp) and isinstance(val.op, ast.Add) and len(subs) >= 2:
                    additive.append(st)
                elif isinstance(tg, ast.Subscript) and isinstance(tg.value, ast.Name) and tg.value.id == M and isinstance(val, ast.Subscript) and \
                        isinstance(val.value, ast.Name) and val.value.id == M and isinstance(tg.slice, ast.Tuple):
                    colcopy.append(st)
        if additive:
            ctx.violate("FOLD", f"{tag}.copy", "the fold ADDS the entry of column j to that of column opp(j) instead of copying it: a pair that "
                        "touches through both +q_j and -q_j gets twice the geodesic distance / border", where, norm_stmt(additive[0])[:200],
                        witness="e.g. cube4D N=4: distance pi instead of pi/2")
        elif colcopy:
            ctx.ok("FOLD", f"{tag}.copy", "vectorised fold copies columns of M onto their antipodal columns", where, norm_stmt(colcopy[0])[:160])
        else:
            ctx.inconclusive("FOLD", f"{tag}.copy", "fold store M[i][opp(j)] = M[i][j] not recognised", where, witness=f"{len(copies)} stores into {M}")

    # ---------------- extraction with one index list
    upper_method = None
    ex_names = set()
    n_ex = 0
    for st in ast.walk(body):
        if isinstance(st, ast.Assign) and isinstance(st.targets[0], ast.Subscript) and isinstance(st.targets[0].slice, ast.Tuple) and \
                isinstance(st.value, ast.Subscript) and isinstance(st.value.slice, ast.Tuple):
            ts, vs = st.targets[0].slice.elts, st.value.slice.elts
            for a, b in zip(ts, vs):
                if isinstance(a, ast.Name) and isinstance(b, ast.Name):
                    n_ex += 1
                    ex_names.add(a.id)
                    ex_names.add(b.id)
    ctx.instance("PAIR")
    if n_ex == 0:
        ctx.inconclusive("PAIR", f"{tag}.extract", "row/column extraction idiom not recognised", where)
    else:
        ctx.check(len(ex_names) == 1 and n_ex >= 2, "PAIR", f"{tag}.extract", "rows and columns of the folded matrix are extracted with "
                  "one and the same index list", where, "extracted_arr[idx, :] = M[idx, :]; extracted_arr[:, idx] = M[:, idx]",
                  witness=f"index names {sorted(ex_names)}, {n_ex} uses")
        nm = next(iter(ex_names))
        defs = [a for a in ast.walk(body) if isinstance(a, ast.Assign) and isinstance(a.targets[0], ast.Name) and a.targets[0].id == nm]
        if defs and isinstance(defs[-1].value, ast.Call) and isinstance(defs[-1].value.func, ast.Attribute) and \
                isinstance(defs[-1].value.func.value, ast.Name) and defs[-1].value.func.value.id == "self":
            upper_method = defs[-1].value.func.attr
        if upper_method is None:
            ctx.inconclusive("FOLD", f"{tag}.extract.upper", "origin of the extraction index list not recognised", where,
                             witness=src(defs[-1].value) if defs else "undefined")
        else:
            ctx.ok("FOLD", f"{tag}.extract.upper", f"the extraction index list is self.{upper_method}() (analysed below)", where, norm_stmt(defs[-1]))
    # ---------------- upper indices: ascending, positive predicate over my_array
    gu = ci.find_method(upper_method) if (n_ex and upper_method) else ci.find_method("_get_upper_indices")
    if gu is None:
        raise AnalysisError("anchor vanished: HalfRotobjVoronoi._get_upper_indices")
    ctx.analysed(gu)
    from .ordkind import OrdAnalysis, ASC
    oa = OrdAnalysis(repo, gu).run()
    rk = oa.returns[-1][1] if oa.returns else None
    ctx.instance("ORD")
    ctx.check(rk is not None and rk.order == ASC, "ORD", f"{tag}.upper.sorted", "upper indices are returned in ascending order", gu.where,
              witness=str(rk))
    from ..astutil import hemisphere_predicates
    preds = hemisphere_predicates(repo)
    comps = [n for n in ast.walk(gu.node) if isinstance(n, ast.ListComp)]
    okp = None if not preds else False
    for c in comps:
        for g in c.generators:
            for cond in g.ifs:
                neg = False
                while isinstance(cond, ast.UnaryOp) and isinstance(cond.op, ast.Not):
                    neg, cond = not neg, cond.operand
                if isinstance(cond, ast.Call) and isinstance(cond.func, ast.Name) and cond.func.id in preds:
                    okp = "my_array" in src(g.iter) and (preds[cond.func.id] == 1) != neg
    ctx.instance("SELECT")
    if okp is None:
        ctx.inconclusive("SELECT", f"{tag}.upper.predicate", "no canonical-hemisphere predicate recognised in molgri/space/utils.py", gu.where)
    else:
      ctx.check(okp, "SELECT", f"{tag}.upper.predicate", "upper indices are the rows of the double cover that satisfy q_in_upper_sphere "
              "(positive polarity)", gu.where, witness=src(gu.node)[:200])


def fold_request_kwargs(repo: Repo):
    """keyword arguments (other than sel_property) with which HalfRotobjVoronoi._calculate_N_N_array requests the full-sphere matrix,
    as constants where they are decidable: a parameter of the folding method is replaced by its default value"""
    from ..voro import VO
    ci = repo.cls(VO, "HalfRotobjVoronoi")
    fi = ci.methods.get("_calculate_N_N_array")
    out = {}
    if fi is None:
        return out
    defaults = fi.defaults()
    for c in ast.walk(fi.node):
        if isinstance(c, ast.Call) and isinstance(c.func, ast.Attribute) and c.func.attr == "_calculate_N_N_array" and \
                src(c.func.value) == "self.full_voronoi":
            for k in c.keywords:
                if k.arg in (None, "sel_property"):
                    continue
                v = k.value
                if isinstance(v, ast.Name) and v.id in defaults and isinstance(defaults[v.id], ast.Constant):
                    out[k.arg] = defaults[v.id].value
                elif isinstance(v, ast.Constant):
                    out[k.arg] = v.value
                else:
                    out[k.arg] = None          # undecidable here
    return out
