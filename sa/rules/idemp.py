"""IDEMP — getter purity: stores to self.<attr> outside construction/generation methods must be init-once, an overwrite
independent of the old value, or an idempotent self-filter.  Also: mutable default arguments, writes to module globals."""
from __future__ import annotations

import ast
from typing import List

from ..model import Repo, ClassInfo, FunctionInfo, src, norm_stmt


def _reads_self_attr(e, attr) -> bool:
    for n in ast.walk(e):
        if isinstance(n, ast.Attribute) and isinstance(n.value, ast.Name) and n.value.id == "self" and n.attr == attr:
            return True
    return False


def classify_store(fi: FunctionInfo, stmt, attr) -> str:
    """'init_once' | 'independent' | 'idempotent_filter' | 'accumulate' | 'depends_on_old'"""
    if isinstance(stmt, ast.AugAssign):
        return "accumulate"
    # guarded by `if self.attr is None`
    p = getattr(stmt, "_parent", None)
    while p is not None and p is not fi.node:
        if isinstance(p, ast.If):
            t = p.test
            if isinstance(t, ast.Compare) and len(t.ops) == 1 and isinstance(t.ops[0], (ast.Is, ast.Eq)) and \
                    _reads_self_attr(t.left, attr) and isinstance(t.comparators[0], ast.Constant) and t.comparators[0].value is None and \
                    stmt in ast.walk(ast.Module(body=p.body, type_ignores=[])):
                return "init_once"
        p = getattr(p, "_parent", None)
    v = stmt.value
    if not _reads_self_attr(v, attr):
        # a value computed from the CALL's arguments that is kept on the object makes later calls depend on earlier arguments,
        # unless it is a key-validated cache entry  self.X = (value, key)  (CACHE rule)
        params = {a.arg for a in fi.node.args.posonlyargs + fi.node.args.args + fi.node.args.kwonlyargs} - {"self", "cls"}
        try:
            from ..astutil import Canon
            ev = Canon(Canon.single_defs(fi.node.body)).expand(v)
        except Exception:
            ev = v
        used = {n.id for n in ast.walk(ev) if isinstance(n, ast.Name)} & params
        keyed = isinstance(v, ast.Tuple) and len(v.elts) == 2 and any(
            isinstance(c, ast.Compare) and f"self.{attr}[1]" in src(c) for c in ast.walk(fi.node))
        # only methods that hand a result back are getters; a method that just sets state (returns nothing) is an explicit setter
        returns_value = any(isinstance(r_, ast.Return) and r_.value is not None and not (isinstance(r_.value, ast.Constant) and r_.value.value is None)
                            for r_ in ast.walk(fi.node))
        if used and not keyed and returns_value:
            return "sticky:" + ",".join(sorted(used))
        return "independent"
    # self.x = <wrap>([e for e in self.x if p(e)])   with p not reading self.x
    comp = None
    for n in ast.walk(v):
        if isinstance(n, ast.ListComp):
            comp = n
            break
    if comp is not None and len(comp.generators) == 1:
        g = comp.generators[0]
        if _reads_self_attr(g.iter, attr) and isinstance(g.target, ast.Name) and isinstance(comp.elt, ast.Name) and comp.elt.id == g.target.id \
                and not any(_reads_self_attr(c, attr) for c in g.ifs):
            # nothing else of self.attr outside the comprehension's iterable
            others = [n for n in ast.walk(v) if isinstance(n, ast.Attribute) and isinstance(n.value, ast.Name) and n.value.id == "self"
                      and n.attr == attr and n not in ast.walk(g.iter)]
            if not others:
                return "idempotent_filter"
    return "depends_on_old"


def construction_closure(ci: ClassInfo, construction) -> set:
    """methods that run only as part of construction: the named construction methods plus every method all of whose call sites
    (self.<m>(..) anywhere in the class hierarchy) lie in construction methods — a constructor split into private steps stays a constructor"""
    classes = ci.mro()
    callers = {}
    for c in classes:
        for name, fi in c.methods.items():
            for n in ast.walk(fi.node):
                if isinstance(n, ast.Call) and isinstance(n.func, ast.Attribute) and isinstance(n.func.value, ast.Name) and n.func.value.id == "self":
                    callers.setdefault(n.func.attr, set()).add(name)
    closed = set(construction)
    changed = True
    while changed:
        changed = False
        for m, cs in callers.items():
            if m not in closed and m.startswith("_") and not m.startswith("__") and cs and cs <= closed:
                closed.add(m)
                changed = True
    return closed


def stores_in_class(ci: ClassInfo, skip_methods):
    out = []
    skip_methods = construction_closure(ci, skip_methods)
    for name, fi in ci.methods.items():
        if name in skip_methods:
            continue
        for n in ast.walk(fi.node):
            if isinstance(n, (ast.Assign, ast.AugAssign)):
                tgts = n.targets if isinstance(n, ast.Assign) else [n.target]
                for t in tgts:
                    for tt in (t.elts if isinstance(t, ast.Tuple) else [t]):
                        if isinstance(tt, ast.Attribute) and isinstance(tt.value, ast.Name) and tt.value.id == "self":
                            out.append((fi, n, tt.attr))
    return out


def mutable_defaults(fi: FunctionInfo) -> List[str]:
    out = []
    for name, d in fi.defaults().items():
        if isinstance(d, (ast.List, ast.Dict, ast.Set)) or (isinstance(d, ast.Call) and isinstance(d.func, ast.Name) and d.func.id in ("list", "dict", "set")):
            out.append(name)
    return out
